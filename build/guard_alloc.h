/* Guard-page allocator for the verification build of cvxopt's C modules.
 * Included with -include; replaces malloc/calloc/realloc/free at compile
 * time inside the four rebuilt modules only.  Every block ends exactly at
 * a PROT_NONE page (reads/writes above the block fault) and is preceded by
 * a PROT_NONE page as well (accesses below the block fault).
 * Alignment: blocks are 8-byte aligned (size rounded up to 8), which keeps
 * the tail slack < 8 bytes; doubles/complex/int_t are all multiples of 8.
 */
#ifndef VERIF_GUARD_ALLOC_H
#define VERIF_GUARD_ALLOC_H
#include <stdlib.h>
#include <string.h>
#include <stdint.h>
#include <sys/mman.h>
#include <unistd.h>

#define VG_MAGIC 0x5645524946475244ULL
typedef struct { uint64_t magic; size_t size; size_t maplen; void *map; } vg_hdr;

/* Allocation-failure injection (C19, family allocfail): VERIF_FAIL_AT="<k>:<token>" makes the k-th allocation of this translation unit
 * after the variable last changed return NULL (the token only serves to restart the count); VERIF_FAILED=1 is set in the C environment
 * when that happened, so the driver can tell whether the call under test had a k-th allocation at all. */
static inline int vg_inject(void) {
    static char last[40];
    static long cnt;
    const char *e = getenv("VERIF_FAIL_AT");
    if (!e || !*e) { last[0] = 0; return 0; }
    if (strncmp(e, last, 39)) { strncpy(last, e, 39); last[39] = 0; cnt = 0; }
    if (++cnt == atol(e)) { setenv("VERIF_FAILED", "1", 1); return 1; }
    return 0;
}

static inline void *vg_malloc(size_t n) {
    size_t pg = 4096;
    if (vg_inject()) return NULL;
    size_t n8 = (n + 7) & ~(size_t)7;
    if (n8 == 0) n8 = 8;
    /* VERIF_GUARD_SLACK=<bytes>: accessible bytes between the block and the guard page (default 0).  The optimised kernels of the
       external BLAS read up to one vector register past their operands; a crash that disappears with a slack of 64 bytes is theirs. */
    { const char *sl = getenv("VERIF_GUARD_SLACK"); if (sl) n8 += ((size_t)atoi(sl) + 7) & ~(size_t)7; }
    /* layout: [guard page][hdr page ... data][guard page] */
    size_t datapages = (n8 + sizeof(vg_hdr) + pg - 1) / pg;
    size_t maplen = (datapages + 2) * pg;
    if (n > ((size_t)1 << 40)) return NULL;
    char *m = mmap(NULL, maplen, PROT_READ|PROT_WRITE, MAP_PRIVATE|MAP_ANONYMOUS, -1, 0);
    if (m == MAP_FAILED) return NULL;
    mprotect(m, pg, PROT_NONE);
    mprotect(m + maplen - pg, pg, PROT_NONE);
    char *end = m + maplen - pg;
    char *p = end - n8;
    vg_hdr *h = (vg_hdr *)(p - sizeof(vg_hdr));
    if ((char*)h < m + pg) { munmap(m, maplen); return NULL; }
    h->magic = VG_MAGIC; h->size = n; h->maplen = maplen; h->map = m;
    /* the accessible tail behind the block (alignment, slack) carries a pattern: READING it goes unnoticed (external kernels do), WRITING it is
       detected when the block is released */
    memset(p + n, 0xA5, (size_t)(end - (p + n)));
    return p;
}
static inline void vg_free(void *p) {
    if (!p) return;
    vg_hdr *h = (vg_hdr *)((char*)p - sizeof(vg_hdr));
    if (h->magic != VG_MAGIC) { abort(); }
    { unsigned char *q = (unsigned char *)p + h->size, *e = (unsigned char *)h->map + h->maplen - 4096;
      for (; q < e; q++) if (*q != 0xA5) abort(); }
    h->magic = 0;
    /* keep the mapping but make it inaccessible: use-after-free faults */
    mprotect(h->map, h->maplen, PROT_NONE);
}
static inline void *vg_calloc(size_t a, size_t b) {
    if (b && a > ((size_t)-1) / b) return NULL;
    void *p = vg_malloc(a*b);
    if (p) memset(p, 0, a*b);
    return p;
}
static inline void *vg_realloc(void *p, size_t n) {
    if (!p) return vg_malloc(n);
    vg_hdr *h = (vg_hdr *)((char*)p - sizeof(vg_hdr));
    if (h->magic != VG_MAGIC) abort();
    void *q = vg_malloc(n);
    if (!q) return NULL;
    memcpy(q, p, h->size < n ? h->size : n);
    vg_free(p);
    return q;
}
#define malloc(n) vg_malloc(n)
#define calloc(a,b) vg_calloc(a,b)
#define realloc(p,n) vg_realloc(p,n)
#define free(p) vg_free(p)
#endif
