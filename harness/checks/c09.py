"""C09 - solver calls are isolated, configurable and repeatable.

Specs: SolverAPI.tla (option precedence / validation / purity as a state machine over the global options
dictionary), SolverThreads.tla (interleavings of two calls and a writer of the global dictionary).
 1. TLC checks both specs; the SolverAPI graph is dumped.
 2. spec -> code: every transition (SetGlobal / Call(entry, per-call dict, uses per-call)) is replayed against the
    real solvers.options and the real entry points; compared: exception class and *when* it is raised (before any
    KKT call), the option values in force (from the CVXOPT_VERIF iteration hook), iterations <= maxiters, byte images
    of all inputs, of the per-call and of the global dictionary; result hashes must be a function of
    (entry, options in force) whatever calls preceded (bit-identical repeatability).
 3. code -> spec: threaded runs (solver threads with per-call options, a writer thread rewriting solvers.options);
    every thread's results must equal the sequential results bit for bit, options must be read before the first KKT
    call only (recording dict), and no module global may change.
"""
import hashlib, json, os, random, sys, threading, multiprocessing as mp
PMAP_TIMEOUT = int(__import__('os').environ.get('VERIF_PMAP_TIMEOUT', '300'))
from harness import tlc
from harness.core import Check

API_CFG = """CONSTANTS MaxSet = %d
SPECIFICATION Spec
INVARIANT TypeOK
INVARIANT ValidationTotal
PROPERTY Precedence
PROPERTY CallsArePure
"""
TOK2PY = {
    "maxiters": {"v2": 2, "v50": 50, "i0": 0, "ifloat": 2.5, "istr": "10", "ineg": -3},
    "abstol": {"v1e-3": 1e-3, "vneg": -1.0, "istr": "x"},
    "reltol": {"v1e-3": 1e-3, "vneg": -1.0, "istr": "x"},
    "feastol": {"v1e-3": 1e-3, "i0": 0.0, "ineg": -1e-3, "istr": "x"},
    "refinement": {"v0": 0, "v2": 2, "ineg": -1, "ifloat": 1.5},
}
DEFAULTS = {"maxiters": 100, "abstol": 1e-7, "reltol": 1e-6, "feastol": 1e-7}
KEYS = ["maxiters", "abstol", "reltol", "feastol", "refinement"]


# ---------------------------------------------------------------------------
# concrete pool: one small well-posed problem per entry point
# ---------------------------------------------------------------------------
class Pool(object):
    def __init__(self):
        from cvxopt import matrix, solvers, spmatrix, log, div, spdiag
        from cvxopt.modeling import variable, op
        self.solvers = solvers
        m = matrix
        c = m([-4., -5.]); G = m([[2., 1., -1., 0.], [1., 2., 0., -1.]]); h = m([3., 3., 0., 0.])
        A = m([[1.0], [1.0]]); b = m([1.5])
        Gq = [m([[1., 0., 0.], [0., 1., 0.]])]; hq = [m([2., 0., 0.5])]          # || (x1, x2-...) || style
        Gs = [m([[-1., 0., 0., -1.], [0., -1., -1., 0.]])]; hs = [m([[3., 1.], [1., 3.]])]
        P = m([[2., .5], [.5, 1.]]); q = m([1., 1.])
        dims = {'l': 4, 'q': [3], 's': [2]}
        Gall = m([[2., 1., -1., 0., 1., 0., 0., -1., 0., 0., -1.], [1., 2., 0., -1., 0., 1., 0., 0., -1., -1., 0.]])
        hall = m([3., 3., 0., 0., 2., 0., 0.5, 3., 1., 1., 3.])

        def F(x=None, z=None):
            if x is None:
                return 0, m([1.0, 1.0])
            if min(x) <= 0.0:
                return None
            f = -sum(log(x))
            Df = -(x ** -1).T
            if z is None:
                return f, Df
            return f, Df, spdiag(z[0] * x ** -2)

        def Fl(x=None, z=None):           # cpl: one nonlinear constraint  x'x/2 - 2 <= 0
            if x is None:
                return 1, m([0.5, 0.5])
            f = m(0.5 * (x.T * x)[0] - 2.0)
            Df = x.T
            if z is None:
                return f, Df
            return f, Df, z[0] * m([[1., 0.], [0., 1.]])
        K = [2, 1]; Fg = m([[1., -1., 1.], [1., 1., -2.]]); g = m([0., 0., -1.])
        self.inputs = {"c": c, "G": G, "h": h, "A": A, "b": b, "Gq0": Gq[0], "hq0": hq[0], "Gs0": Gs[0], "hs0": hs[0], "P": P, "q": q,
                       "Gall": Gall, "hall": hall, "Fg": Fg, "g": g}
        self.dims = dims
        self.dims_img = json.dumps(dims, sort_keys=True)
        x = variable(2, 'x')
        self.opx = x
        self.op = op(-4 * x[0] - 5 * x[1], [2 * x[0] + x[1] <= 3, x[0] + 2 * x[1] <= 3, x >= 0])
        s = solvers
        # valid start points (strictly interior slacks / multipliers); also part of the fingerprint
        eall = m([1., 1., 1., 1., 1., 0., 0., 1., 0., 0., 1.])
        st = {"ps_all": {"x": m([0.1, 0.1]), "s": 2 * eall}, "ds_all": {"y": m(0.0, (0, 1)), "z": +eall},
              "ps_lp": {"x": m([0.1, 0.1]), "s": m([1., 1., 1., 1.])}, "ds_lp": {"y": m(0.0, (0, 1)), "z": m([1., 1., 1., 1.])},
              "ps_socp": {"x": m([0.1, 0.1]), "sl": m([1., 1., 1., 1.]), "sq": [m([1., 0., 0.])]},
              "ds_socp": {"y": m(0.0, (0, 1)), "zl": m([1., 1., 1., 1.]), "zq": [m([1., 0., 0.])]},
              "ps_sdp": {"x": m([0.1, 0.1]), "sl": m([1., 1., 1., 1.]), "ss": [m([[1., 0.], [0., 1.]])]},
              "ds_sdp": {"y": m(0.0, (0, 1)), "zl": m([1., 1., 1., 1.]), "zs": [m([[1., 0.], [0., 1.]])]},
              "iv_all": {"x": m([0.1, 0.1]), "s": 2 * eall, "z": +eall},
              "iv_qp": {"x": m([0.5, 1.0]), "s": m([1., 1., 1., 1.]), "z": m([1., 1., 1., 1.]), "y": m([0.5])}}
        self.starts = st
        for name, dct in st.items():
            for kk, vv in dct.items():
                if isinstance(vv, list):
                    for i_, v_ in enumerate(vv):
                        self.inputs["%s.%s.%d" % (name, kk, i_)] = v_
                else:
                    self.inputs["%s.%s" % (name, kk)] = vv
        self.calls = {
            "conelp": lambda kw: s.conelp(c, Gall, hall, dims, **kw),
            "lp": lambda kw: s.lp(c, G, h, **kw),
            "socp": lambda kw: s.socp(c, G, h, Gq, hq, **kw),
            "sdp": lambda kw: s.sdp(c, G, h, Gs, hs, **kw),
            "coneqp": lambda kw: s.coneqp(P, q, Gall, hall, dims, **kw),
            "qp": lambda kw: s.qp(P, q, G, h, A, b, **kw),
            "cpl": lambda kw: s.cpl(c, Fl, G, h, **kw),
            "cp": lambda kw: s.cp(F, G, h + 1.0, **kw),
            "gp": lambda kw: s.gp(K, Fg, g, **kw),
            "op": lambda kw: self._solve_op(kw),
        }
        self.lonly = {"lp", "qp", "cpl", "cp", "gp", "op"}
        self.start_kw = {"conelp": {"primalstart": st["ps_all"], "dualstart": st["ds_all"]},
                         "lp": {"primalstart": st["ps_lp"], "dualstart": st["ds_lp"]},
                         "socp": {"primalstart": st["ps_socp"], "dualstart": st["ds_socp"]},
                         "sdp": {"primalstart": st["ps_sdp"], "dualstart": st["ds_sdp"]},
                         "coneqp": {"initvals": st["iv_all"]}, "qp": {"initvals": st["iv_qp"]}}

    def _solve_op(self, kw):
        self.op.solve(**kw)
        return {"status": self.op.status, "x": self.opx.value, "obj": self.op.objective.value()}

    def fingerprint(self):
        h = hashlib.sha1()
        for k in sorted(self.inputs):
            M = self.inputs[k]
            h.update(k.encode()); h.update(repr(M.size).encode()); h.update(repr(list(M)).encode())
        h.update(json.dumps(self.dims, sort_keys=True).encode())
        return h.hexdigest()


def result_hash(res):
    if res is None:
        return None
    h = hashlib.sha1()
    for k in sorted(res):
        v = res[k]
        h.update(k.encode())
        if hasattr(v, "size") and hasattr(v, "typecode"):
            h.update(repr(list(v)).encode())
        elif isinstance(v, list):
            h.update(repr([list(a) if hasattr(a, "size") else a for a in v]).encode())
        else:
            h.update(repr(v).encode())
    return h.hexdigest()[:16]


def concrete(optmap):
    """token map -> python options dictionary (absent keys omitted)"""
    d = {}
    for k in KEYS:
        t = optmap.get(k, "absent")
        if t != "absent":
            d[k] = TOK2PY[k][t]
    return d


def default_refinement(entry):
    return 0 if entry in ("lp", "qp", "op") else 1


def expected_inforce(entry, eff):
    out = {}
    for k in ("maxiters", "abstol", "reltol", "feastol"):
        t = eff.get(k, "absent")
        out[k] = DEFAULTS[k] if t == "absent" else TOK2PY[k][t]
    t = eff.get("refinement", "absent")
    out["refinement"] = default_refinement(entry) if t == "absent" else TOK2PY["refinement"][t]
    return out


_P = None


def _pool():
    global _P
    if _P is None:
        from harness import solverrec
        solverrec.install()
        _P = Pool()
    return _P


def do_call(P, entry, glob, per, use_per, variant=0):
    """perform one call under the recorder; returns an observation dict"""
    from harness import solverrec
    s = P.solvers
    s.options.clear()
    s.options.update(concrete(glob))
    s.options["show_progress"] = False
    gimg = repr(sorted(s.options.items(), key=lambda kv: kv[0]))
    kw = {}
    perd = None
    quiet = False
    if use_per:
        perd = dict(concrete(per))
        if perd or not variant % 2:
            perd["show_progress"] = False
        else:
            quiet = True            # the EMPTY per-call dictionary {} is a per-call dictionary too (defaults in force)
        kw["options"] = perd
    use_start = (variant // 2) % 2 == 1 and entry in P.start_kw
    if use_start:
        kw.update(P.start_kw[entry])
    pimg = repr(sorted(perd.items())) if perd is not None else None
    fp0 = P.fingerprint()
    if quiet:
        sys.stdout.flush()
        saved = os.dup(1)
        dn = os.open(os.devnull, os.O_WRONLY)
        os.dup2(dn, 1)
    try:
        events, res, exc, rec = solverrec.record(entry if entry != "op" else "lp", P.calls[entry], (kw,), {}, 100)
    finally:
        if quiet:
            sys.stdout.flush()
            os.dup2(saved, 1)
            os.close(saved); os.close(dn)
    obs = {"exc": type(exc).__name__ if exc is not None else "none", "nkkt": rec.nf + rec.ns,
           "msg": str(exc)[:80] if exc is not None else ""}
    if rec.raw_iters:
        f = rec.raw_iters[0]
        obs["inforce"] = {k: f[k] for k in ("maxiters", "abstol", "reltol", "feastol", "refinement")}
        obs["iters"] = rec.raw_iters[-1]["iters"]
    obs["hash"] = result_hash(res) if res is not None else None
    obs["use_start"] = use_start
    obs["status"] = res["status"] if res is not None else None
    obs["inputs_unchanged"] = P.fingerprint() == fp0
    obs["global_unchanged"] = repr(sorted(s.options.items(), key=lambda kv: kv[0])) == gimg
    obs["peropts_unchanged"] = (perd is None) or repr(sorted(perd.items())) == pimg
    from cvxopt import coneprog, cvxprog
    obs["globals_shared"] = (coneprog.options is s.options) and (cvxprog.options is s.options)
    return obs


def _replay_chunk(job):
    P = _pool()
    out = []
    for k_, (glob, entry, per, use_per, exp) in enumerate(job):
        try:
            obs = do_call(P, entry, glob, per, use_per, variant=k_)
        except Exception as e:
            out.append({"harness_error": repr(e), "entry": entry})
            continue
        out.append({"entry": entry, "glob": glob, "per": per, "use_per": use_per, "exp": exp, "obs": obs})
    return out


def parse_call_label(lbl):
    inner = lbl[lbl.index("(") + 1:lbl.rindex(")")]
    vals = tlc.parse_value("<<" + inner + ">>")
    return vals


# ---------------------------------------------------------------------------
# threads
# ---------------------------------------------------------------------------
def _thread_job(args):
    """runs in a fresh process: sequential reference, then the same calls in threads while a writer flips solvers.options"""
    seed, nthreads, ncalls = args
    import sys
    P = _pool()
    s = P.solvers
    rnd = random.Random(seed)
    entries = ["conelp", "lp", "socp", "sdp", "coneqp", "qp", "cp", "gp", "cpl"]
    optsets = [{"maxiters": 50}, {"maxiters": 3}, {"feastol": 1e-5, "abstol": 1e-5, "reltol": 1e-5}, {"refinement": 2}, {"abstol": 1e-3}]
    plan = [[(rnd.choice(entries), rnd.choice(optsets)) for _ in range(ncalls)] for _ in range(nthreads)]
    s.options.clear(); s.options["show_progress"] = False
    ref = [[result_hash(P.calls[e]({"options": dict(o, show_progress=False)})) for e, o in th] for th in plan]
    got = [[None] * ncalls for _ in range(nthreads)]
    errs = []
    stop = threading.Event()
    sys.setswitchinterval(1e-6)
    before = repr(sorted((k, repr(v)) for k, v in vars(__import__("cvxopt").coneprog).items() if k in ("options",)))

    def writer():
        i = 0
        while not stop.is_set():
            s.options["maxiters"] = 1 + (i % 5)
            s.options["feastol"] = 10.0 ** -(1 + i % 7)
            s.options.pop("abstol", None) if i % 2 else s.options.__setitem__("abstol", 1e-2)
            i += 1

    def worker(t):
        try:
            for j, (e, o) in enumerate(plan[t]):
                got[t][j] = result_hash(P.calls[e]({"options": dict(o, show_progress=False)}))
        except Exception as ex:
            errs.append(repr(ex))
    w = threading.Thread(target=writer)
    ths = [threading.Thread(target=worker, args=(t,)) for t in range(nthreads)]
    w.start()
    for t in ths:
        t.start()
    for t in ths:
        t.join()
    stop.set(); w.join()
    sys.setswitchinterval(0.005)
    bad = []
    for t in range(nthreads):
        for j in range(ncalls):
            if got[t][j] != ref[t][j]:
                bad.append({"thread": t, "call": j, "entry": plan[t][j][0], "options": plan[t][j][1]})
    return {"calls": nthreads * ncalls, "bad": bad, "errors": errs}


def _readlog_job(args):
    """A1: options are read only before the first KKT call (recording dict passed as options=)"""
    from harness import solverrec
    P = _pool()
    out = []
    for entry in ["conelp", "lp", "socp", "sdp", "coneqp", "qp", "cp", "gp", "cpl"]:
        log = []

        class RecDict(dict):
            def get(self, k, d=None):
                log.append(("get", k, len(cur.events)))
                return dict.get(self, k, d)

            def __getitem__(self, k):
                log.append(("getitem", k, len(cur.events)))
                return dict.__getitem__(self, k)
        opts = RecDict(show_progress=False, maxiters=30)
        rec_holder = {}
        from harness import solverrec as sr
        sr.install()
        rec = sr.Rec()
        rec.events.append({"ev": "Start"})
        cur = rec
        sr._tls.rec = rec
        try:
            P.calls[entry]({"options": opts})
        finally:
            sr._tls.rec = None
        first_kkt = next((i for i, e in enumerate(rec.events) if e["ev"] == "Kkt"), None)
        late = [(k, pos) for (_, k, pos) in log if first_kkt is not None and pos > first_kkt
                and k in ("maxiters", "abstol", "reltol", "feastol", "refinement", "kktreg")]
        out.append({"entry": entry, "reads": len(log), "late_reads": late})
    return out


def run(tier, seed, replay=None):
    ck = Check("C09", tier, seed)
    ck.clean_replays()
    quick = tier == "quick"
    ck.rule = ("spec->code: transitions of SolverAPI's graph (global dictionary state x entry point x per-call dictionary) replayed on the "
               "real entry points; distinct = distinct (entry, global tokens, per-call tokens, uses per-call); "
               "code->spec: threaded runs compared bit for bit with sequential runs")
    ck.trusted = ["TLC", "the CVXOPT_VERIF iteration hook for the option values in force", "sha1 of repr() of all result floats as bit-identity"]
    ck.assumptions = ["thread model assumptions A1 (options read before the first KKT call) and A2 (no shared writes) are checked by the binding, not assumed"]

    # 1. design level
    wd = tlc.workdir("c09/api")
    r = tlc.run_tlc("SolverAPI", API_CFG % 1, wd, dump="graph", timeout=600)
    if not ck.require_tlc_ok("SolverAPI exhaustive MaxSet=1", r):
        ck.finish()
    if r.violated:
        ck.violation("spec|SolverAPI|" + r.violated, "design-level violation", r.out[-2000:])
        ck.finish()
    gen = """---- MODULE MC_SolverThreads ----
EXTENDS SolverThreads
UP == [c \\in Callers |-> %s]
====
"""
    for up, inv, expect_viol in (("TRUE", "Isolation\nINVARIANT NoThinAir", False), ('c = "t1"', "Isolation\nINVARIANT NoThinAir", False),
                                 ("FALSE", "GlobalReadersSequential", True)):
        cfg = "CONSTANTS UsePer <- UP\nSPECIFICATION Spec\nINVARIANT %s\nPROPERTY CallersDoNotWrite\n" % inv
        rt = tlc.run_tlc("MC_SolverThreads", cfg, tlc.workdir("c09/threads"), gen_files={"MC_SolverThreads.tla": gen % up}, timeout=300)
        ck.add_tlc("SolverThreads UsePer=%s inv=%s" % (up, inv.split("\n")[0]), rt)
        if rt.error:
            ck.machinery_errors.append("SolverThreads failed: " + rt.out[-1500:])
        elif bool(rt.violated) != expect_viol:
            ck.violation("spec|SolverThreads|%s" % up, "thread model: expected violation=%s got %s" % (expect_viol, rt.violated), rt.out[-1500:])
    ck.extra["thread_model_note"] = ("with per-call options Isolation holds in all interleavings; for calls that rely on the global dictionary "
                                     "TLC exhibits the expected race (GlobalReadersSequential violated), which the property does not forbid")

    # 2. spec -> code
    nodes, edges, init = tlc.parse_dot(os.path.join(wd, "graph.dot"))
    rnd = random.Random(seed)
    calls = []
    for s_, d_, lbl in edges:
        if not lbl.startswith("Call"):
            continue
        e, per, use_per = parse_call_label(lbl)
        glob = nodes[s_]["global"]
        exp = nodes[d_]["last"]
        if nodes[d_]["global"] != glob:
            ck.machinery_errors.append("model: Call changed global")
        calls.append((dict(glob), str(e), dict(per), bool(use_per), {"exc": str(exp["exc"]), "inforce": dict(exp["inforce"])}))
    rnd.shuffle(calls)
    if quick:
        calls = calls[:4000]
    chunks = [calls[i::64] for i in range(64)]
    from harness.core import pmap
    res = pmap(ck, _replay_chunk, chunks, "c09", timeout=PMAP_TIMEOUT, chunksize=1)
    if res is None:
        ck.finish()
    hashes = {}
    for part in res:
        for x in part:
            if "harness_error" in x:
                ck.machinery_errors.append("driver: %r" % x)
                continue
            ck.evaluations += 1
            o, exp, entry = x["obs"], x["exp"], x["entry"]
            key = (entry, json.dumps(x["glob"], sort_keys=True), json.dumps(x["per"], sort_keys=True), x["use_per"])
            ck.nontrivial(key)
            eff = x["per"] if x["use_per"] else x["glob"]
            which = "per-call" if x["use_per"] else "global"
            badkeys = [k for k in KEYS if eff.get(k, "absent") != "absent" and not str(eff[k]).startswith("v")]
            if exp["exc"] == "ValueError":
                if o["exc"] != "ValueError":
                    ck.violation("%s|invalid-option-accepted|%s=%s|%s" % (entry, ",".join(badkeys) or "abstol+reltol", ",".join(str(eff[k]) for k in badkeys), which),
                                 "%s accepted an invalid option value (%s dictionary %s): outcome %s %s" % (entry, which, eff, o["exc"], o["msg"]), x)
                elif o["nkkt"] != 0:
                    ck.violation("%s|validation-after-solving" % entry, "%s raised ValueError only after %d KKT calls" % (entry, o["nkkt"]), x)
            else:
                if o["exc"] != "none":
                    ck.violation("%s|valid-options-rejected|%s" % (entry, o["exc"]), "%s raised %s %s for valid options %s" % (entry, o["exc"], o["msg"], eff), x)
                    continue
                want = expected_inforce(entry, exp["inforce"])
                got = o.get("inforce")
                if got is None:
                    ck.violation("%s|no-iteration-observed" % entry, "no iteration event: cannot observe the options in force", x)
                else:
                    diff = [k for k in want if got[k] != want[k] and not (k == "refinement" and exp["inforce"].get("refinement", "absent") == "absent")]
                    if diff:
                        ck.violation("%s|options-not-in-force|%s|%s" % (entry, "+".join(diff), which),
                                     "%s acted on %s instead of the %s options %s" % (entry, {k: got[k] for k in diff}, which, {k: want[k] for k in diff}), x)
                    if o["iters"] > want["maxiters"]:
                        ck.violation("%s|maxiters-exceeded" % entry, "%s ran %d iterations with maxiters=%s" % (entry, o["iters"], want["maxiters"]), x)
                hk = (entry, json.dumps(exp["inforce"], sort_keys=True), o.get("use_start"))
                if hk in hashes and hashes[hk] != o["hash"]:
                    ck.violation("%s|not-repeatable" % entry, "%s returned different bits for the same problem and options after a different history" % entry, x)
                hashes.setdefault(hk, o["hash"])
            for flag, what in (("inputs_unchanged", "input matrices/dims"), ("global_unchanged", "solvers.options"),
                               ("peropts_unchanged", "the per-call options dictionary"), ("globals_shared", "the module-level options objects")):
                if not o[flag]:
                    ck.violation("%s|modifies|%s" % (entry, flag), "%s modified %s" % (entry, what), x)
    for x in res[0][:2]:
        ck.sample(x)
    ck.extra["graph"] = {"nodes": len(nodes), "edges": len(edges), "call_edges_replayed": ck.evaluations}
    ck.extra["repeatability_classes"] = len(hashes)

    # 3. threads (fresh processes) and the read log
    nproc, nthreads, ncalls = (4, 3, 12) if quick else (16, 4, 60)
    from harness.core import pmap
    tres = pmap(ck, _thread_job, [(seed + i, nthreads, ncalls) for i in range(nproc)], "c09-threads", timeout=PMAP_TIMEOUT, procs=min(nproc, 8), ctx="spawn")
    rl = pmap(ck, _readlog_job, [0], "c09-readlog", timeout=PMAP_TIMEOUT, procs=1, ctx="spawn")
    if tres is None or rl is None:
        ck.finish()
    tot = 0
    for t in tres:
        tot += t["calls"]
        for e in t["errors"]:
            ck.violation("threads|exception", "a solver thread raised: %s" % e, t)
        for b in t["bad"]:
            ck.violation("threads|%s|result-differs-from-sequential" % b["entry"], "concurrent %s call with per-call options %s differs from its sequential result" % (b["entry"], b["options"]), b)
    ck.traces += tot
    ck.extra["threaded_calls"] = tot
    for x in rl[0]:
        if x["late_reads"]:
            ck.violation("%s|option-read-after-first-kkt" % x["entry"], "%s read options %s after the first KKT call (thread model assumption A1)" % (x["entry"], x["late_reads"]), x)
    ck.extra["option_reads"] = {x["entry"]: x["reads"] for x in rl[0]}
    ck.finish()
