"""C04 - 'optimal' from cpl/cp/gp satisfies the nonlinear KKT conditions in-domain.
Contract invariants OptimalCert (incl. x_in_domain) / OptimalDecision / IterBudget on traces of cpl, cp, gp over function
families with independent exact evaluation (harness/nlfam.py); cp on a quadratic objective must agree with coneqp, gp with cp
driven by an independent log-sum-exp callback."""
import random
PMAP_TIMEOUT = int(__import__('os').environ.get('VERIF_PMAP_TIMEOUT', '300'))
from harness import plants, solsuite, nlsuite, tlc
from harness.core import Check

PROPS = ["OptimalCert", "OptimalDecision", "IterBudget"]


def _agree_job(args):
    """cp vs coneqp on a quadratic objective; gp vs cp(LSE callback)"""
    from harness import solvedrv, nlfam
    from cvxopt import solvers, matrix
    case = args
    fam = case["fam"]
    out = {"id": case["id"], "family": case["family"]}
    try:
        if case["family"] == "quadcp" and len(fam.fs) == 1:
            I = case["lin"]
            c, G, h, dims, A, b, _ = solvedrv.problem(I)
            P = matrix([[float(v) for v in col] for col in zip(*fam.P[0])])
            q = solvedrv.vec(fam.fs[0][1])
            r1 = solvers.cp(fam.make_F(first=0), G, h, dims, A, b, options={"show_progress": False})
            r2 = solvers.coneqp(P, q, G, h, dims, A, b, options={"show_progress": False})
            out.update(kind="cp-vs-coneqp", s1=r1["status"], s2=r2["status"])
            if r1["status"] == "optimal" and r2["status"] == "optimal":
                o1 = float(fam.f_exact(0, [__import__("fractions").Fraction(float(v)) for v in r1["x"]]))
                o2 = r2["primal objective"]
                dx = max(abs(a - b_) for a, b_ in zip(r1["x"], r2["x"]))
                out.update(o1=o1, o2=o2, dx=dx, gaps=r1["gap"] + r2["gap"])
        elif case["family"] == "gp":
            n = fam.n
            Fm = matrix([[float(fam.Fm[r][j]) for r in range(sum(fam.K))] for j in range(n)])
            g = solvedrv.vec(fam.g)
            r1 = solvers.gp(list(fam.K), Fm, g, options={"show_progress": False})
            r2 = solvers.cp(fam.make_F(first=0), options={"show_progress": False})
            out.update(kind="gp-vs-cp", s1=r1["status"], s2=r2["status"])
            if r1["status"] == "optimal" and r2["status"] == "optimal":
                Fr = __import__("fractions").Fraction
                o1 = float(fam.f_exact(0, [Fr(float(v)) for v in r1["x"]]))
                o2 = float(fam.f_exact(0, [Fr(float(v)) for v in r2["x"]]))
                out.update(o1=o1, o2=o2, dx=max(abs(a - b_) for a, b_ in zip(r1["x"], r2["x"])), gaps=r1["gap"] + r2["gap"],
                           lens=(len(r1["znl"]), len(r1["snl"]), len(fam.K) - 1))
    except Exception as e:
        out["exc"] = repr(e)
    return out


def run(tier, seed, replay=None):
    ck = Check("C04", tier, seed)
    ck.clean_replays()
    quick = tier == "quick"
    ck.rule = ("function families (convex quadratics as objective/constraints, weighted log barrier with restricted domain, log-sum-exp) "
               "x linear cone parts from TLC-verified plants x (kktsolver, storage, dense/sparse Df and H, options); "
               "distinct = distinct (family, configuration class, outcome)")
    ck.trusted = ["TLC", "harness/alpha.py cpl_cert", "harness/nlfam.py independent evaluation of f and Df (exact rationals for quadratics and log-barrier gradients)"]
    ck.assumptions = ["numeric predicates decided by the abstraction function; function values of log/exp families use math.log/math.exp (1 ulp)"]
    from harness.checks import c10
    if tlc and __import__("os").path.exists(__import__("os").path.join(tlc.SPECS, "CPL.tla")):
        c10.model_fault_classes(ck, "CPL", 2, 1)
    n = 90 if quick else 1200
    cands = plants.gen_candidates(seed + 4, {"solvable": n})
    inst = plants.tlc_accept(cands, "c04/plants", ck)
    rnd = random.Random(seed)
    cases = nlsuite.make_cases(inst, rnd, per_inst=1 if quick else 2)
    jobs = [(c, nlsuite.configs(c, rnd, 2 if quick else 5), False) for c in cases]
    runs, verdict = nlsuite.run_cases(ck, jobs, "c04/traces")
    if verdict is None:
        ck.finish()
    solsuite.report(ck, runs, verdict, PROPS, "C04")
    # agreement between solver paths
    import multiprocessing as mp
    from harness.core import pmap
    agr = pmap(ck, _agree_job, [c for c in cases if c["family"] == "gp" or (c["family"] == "quadcp" and len(c["fam"].fs) == 1)], "c04", timeout=PMAP_TIMEOUT, chunksize=1)
    if agr is None:
        ck.finish()
    nag = 0
    for a in agr:
        if "exc" in a:
            ck.violation("%s|exception" % a.get("kind", a["family"]), "exception while comparing solver paths: %s" % a["exc"], a)
        elif "o1" in a:
            nag += 1
            ck.evaluations += 1
            tol = 1e-5 * (1 + abs(a["o1"]))
            if abs(a["o1"] - a["o2"]) > tol:
                ck.violation("%s|objective" % a["kind"], "solver paths disagree on the optimal value: %r" % a, a)
            # strong convexity (lambda_min >= 1) bound for the quadratic family
            if a["kind"] == "cp-vs-coneqp" and a["dx"] ** 2 > 4 * (abs(a["gaps"]) + 1e-6) + 1e-8:
                ck.violation("%s|solution" % a["kind"], "cp and coneqp disagree on the unique minimiser: %r" % a, a)
            if a.get("lens") and (a["lens"][0] != a["lens"][2] or a["lens"][1] != a["lens"][2]):
                ck.violation("gp|epigraph-lengths", "gp returned znl/snl of the epigraph problem: %r" % a, a)
    ck.extra["agreement_pairs"] = nag
    for r in runs[:2]:
        ck.sample({"cfg": r["cfg"], "trace": r["trace"][:3] + r["trace"][-2:]})
    from harness.checks.c01 import _counts
    ck.extra["status_counts"] = _counts(runs)
    ck.extra["domain_refusals"] = sum(r.get("refused", 0) for r in runs)
    ck.finish()
