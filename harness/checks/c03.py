"""C03 - 'optimal' from coneqp/qp satisfies the QP KKT conditions.
Contract invariants OptimalCert / OptimalDecision / IterBudget on traces of coneqp and qp over planted QPs
(P = R'R of any rank incl. 0, truth verified by TLC) x (kktsolver, storage, initvals subset, options, junk above the diagonal of P)."""
import random
from harness import plants, solsuite
from harness.core import Check
from harness.checks import c10

PROPS = ["OptimalCert", "OptimalDecision", "IterBudget"]


def run(tier, seed, replay=None):
    ck = Check("C03", tier, seed)
    ck.clean_replays()
    quick = tier == "quick"
    ck.rule = ("planted QPs (P = R'R, any rank; strict primal/dual feasibility verified exactly by TLC) x (entry, kktsolver, storage, "
               "initvals subset, options, junk in the strict upper triangle of P); distinct = distinct (configuration class, outcome)")
    ck.trusted = ["TLC", "harness/alpha.py (exact rational evaluation of the documented QP formulas; P read from its lower triangle)"]
    ck.assumptions = ["numeric predicates on returned floats are decided by the abstraction function alpha, not by TLC"]
    for mi, rf in ((2, 1),) if quick else ((2, 0), (3, 1)):
        c10.model_fault_classes(ck, "ConeQP", mi, rf)
    n = 150 if quick else 2000
    cands = plants.gen_candidates(seed + 3, {"solvable": n}, qp=True)
    inst = plants.tlc_accept(cands, "c03/plants", ck)
    rnd = random.Random(seed)
    jobs = [("coneqp", I, solsuite.coneqp_configs(I, rnd, 4 if quick else 12)) for I in inst]
    runs, verdict = solsuite.run_cases(ck, jobs, "c03/traces")
    if verdict is None:
        ck.finish()
    solsuite.report(ck, runs, verdict, PROPS, "C03")
    for r in runs[:2]:
        ck.sample({"cfg": r["cfg"], "trace": r["trace"][:4] + r["trace"][-2:]})
    ck.extra["instances"] = len(inst)
    ck.finish()
