"""C06 - the answer does not depend on problem presentation or solver path.

Specs: Presentation.tla (row re-encodings as index maps with TLC-proved bijectivity and cone-membership preservation; the
table of KKT solver names per entry point), SameResult.tla (memo state machine evaluated by TLC on one trace per problem).
Binding: for every planted instance the presentations (dense/sparse, every accepted KKT name, wrapper vs core entry point,
operator form with a user KKT solver, valid start points, scalar inequality as 1-dim 'q' / order-1 's' cone, row and variable
permutations, objective scaling, GLPK/DSDP back-ends, junk above the diagonal) are built - the re-encodings from the maps TLC
emitted - and solved; TLC checks that all calls of one problem end in the same class.  Unsupported KKT names must raise
ValueError before any KKT call (table from the model)."""
import json, os, random, multiprocessing as mp
PMAP_TIMEOUT = int(__import__('os').environ.get('VERIF_PMAP_TIMEOUT', '300'))
from harness import tlc, plants
from harness.core import Check


def _perm_instance(I, T):
    """apply a row map T = {dims, pos} (1-based new positions) to an instance"""
    K = len(I["h"])
    J = dict(I)
    J["dims"] = {"l": T["dims"]["l"], "q": list(T["dims"]["q"]), "s": list(T["dims"]["s"])}
    def mv(v):
        out = [None] * K
        for p in range(K):
            out[T["pos"][p] - 1] = v[p]
        return out
    J["G"] = [mv(col) for col in I["G"]]
    J["h"] = mv(I["h"])
    for k in ("s0", "z0", "z1"):
        if k in I:
            J[k] = mv(I[k])
    return J


def _job(args):
    from harness import solvedrv, alpha
    from cvxopt import misc, matrix, solvers, blas, base
    I, pres, seed = args
    out = []
    qp = "R" in I
    for name, spec in pres:
        J, kw, post = I, {}, None
        try:
            if name in ("LAsQ1", "LAsS1", "PermRows"):
                J = _perm_instance(I, spec)
            elif name == "PermVars":
                sig = spec
                J = dict(I)
                for k in ("G", "A", "c", "x0"):
                    J[k] = [I[k][sig[j]] for j in range(I["n"])]
                if qp:
                    J["R"] = [I["R"][sig[j]] for j in range(I["n"])]
            elif name == "ScaleObj":
                J = dict(I); J["c"] = [4 * v for v in I["c"]]
                if qp:
                    J["R"] = [[2 * v for v in col] for col in I["R"]]       # P -> 4P
                post = 4.0
            elif name == "Junk":
                J = dict(I)
                K = len(I["h"])
                w = alpha.wt(I["dims"])
                J["G"] = [[(v if w[r] else 99) for r, v in enumerate(col)] for col in I["G"]]
                J["h"] = [(v if w[r] else -55) for r, v in enumerate(I["h"])]
            else:
                kw = dict(spec)
            if kw.pop("operator", False):
                c, G, h, dims, A, b, P = solvedrv.problem(J)
                def Gf(x, y, alpha=1.0, beta=0.0, trans='N', G=G, dims=dims):
                    misc.sgemv(G, x, y, dims, trans=trans, alpha=alpha, beta=beta)
                def Af(x, y, alpha=1.0, beta=0.0, trans='N', A=A):
                    base.gemv(A, x, y, trans=trans, alpha=alpha, beta=beta)
                kk = (lambda G, dims, A: (lambda W: misc.kkt_ldl(G, dims, A)(W)))(G, dims, A)
                if qp:
                    def Pf(x, y, alpha=1.0, beta=0.0, P=P):
                        base.symv(P, x, y, alpha=alpha, beta=beta)
                    kk = (lambda G, dims, A, P: (lambda W: misc.kkt_ldl(G, dims, A)(W, P)))(G, dims, A, P)
                    res = solvers.coneqp(Pf, c, Gf, h, dims, Af, b, kktsolver=kk, options={"show_progress": False})
                else:
                    res = solvers.conelp(c, Gf, h, dims, Af, b, kktsolver=kk, options={"show_progress": False})
                st, obj = res["status"], res["primal objective"]
            else:
                if qp:
                    tr, info = solvedrv.run_coneqp(J, truth=False, **kw)
                else:
                    tr, info = solvedrv.run_conelp(J, truth=False, **kw)
                if info["res"] is None:
                    out.append({"pres": name, "spec": str(spec)[:80], "status": "raise:" + info["exc"][:60], "obj": None})
                    continue
                st, obj = info["status"], info["res"]["primal objective"]
            if obj is not None and post:
                obj = obj / post
            out.append({"pres": name, "spec": str(spec)[:80], "status": st, "obj": obj})
        except Exception as e:
            out.append({"pres": name, "spec": str(spec)[:80], "status": "raise:" + repr(e)[:60], "obj": None})
    return {"id": I["id"], "kind": I["kind"], "qp": qp, "dims": I["dims"], "runs": out, "thin": bool(I.get("thinPG"))}


def _names_job(args):
    """C06n: each entry point with each KKT solver name"""
    from harness import solverrec
    from harness.checks import c09
    P = c09._pool()
    rows = args
    out = []
    lonly = {"lp": True, "qp": True, "cpl": True, "cp": True, "gp": True, "conelp": False, "socp": False, "sdp": False, "coneqp": False}
    for row in rows:
        e, k = row["e"], row["k"]
        if lonly[e] != row["lonly"]:
            continue
        kw = {"options": {"show_progress": False}, "kktsolver": k}
        ev, res, exc, rec = solverrec.record(e, P.calls[e], (kw,), {}, 100)
        out.append({"e": e, "k": k, "exp": row["out"], "exc": type(exc).__name__ if exc is not None else None,
                    "msg": str(exc)[:80] if exc is not None else "", "status": res["status"] if res else None, "nkkt": rec.nf + rec.ns})
    return out


def run(tier, seed, replay=None):
    ck = Check("C06", tier, seed)
    ck.clean_replays()
    quick = tier == "quick"
    ck.rule = ("planted instances x presentations (storage, KKT name, wrapper, operator form, start points, LAsQ1/LAsS1/PermRows maps from TLC, "
               "variable permutation, objective scaling, back-ends, junk); distinct = distinct (cone structure, presentation, outcome); "
               "plus entry point x KKT solver name table")
    ck.trusted = ["TLC", "tolerance of the objective comparison (1e-5 relative) as abstraction of 'same optimal value to solver tolerance'"]
    ck.assumptions = ["uniqueness of x is not decided; solutions are compared through the optimal value"]
    rnd = random.Random(seed)
    n = 60 if quick else 600
    inst = plants.tlc_accept(plants.gen_candidates(seed + 9, {"solvable": n, "pinf": n // 4, "dinf": n // 4}), "c06/plants", ck)
    qinst = plants.tlc_accept(plants.gen_candidates(seed + 10, {"solvable": n // 2}, qp=True), "c06/plants_qp", ck)
    # requests to the model: row re-encodings
    reqs, owner = [], []
    for I in inst + qinst:
        d = I["dims"]
        if d["l"] >= 1 and all(m <= 2 for m in d["s"]):
            r = rnd.randint(1, d["l"])
            reqs.append({"t": "LAsQ1", "d": d, "r": r}); owner.append((I["id"], "R" in I, "LAsQ1"))
            reqs.append({"t": "LAsS1", "d": d, "r": r}); owner.append((I["id"], "R" in I, "LAsS1"))
        if d["l"] >= 2:
            pi = list(range(1, d["l"] + 1)); rnd.shuffle(pi)
            reqs.append({"t": "PermRows", "d": d, "pi": pi}); owner.append((I["id"], "R" in I, "PermRows"))
    wd = tlc.workdir("c06/pres")
    rf, of, nf = os.path.join(wd, "req.json"), os.path.join(wd, "out.json"), os.path.join(wd, "names.json")
    json.dump(reqs, open(rf, "w"))
    r = tlc.run_tlc("Presentation", "SPECIFICATION Spec\n", wd, workers=1, env={"REQ_FILE": rf, "OUT_FILE": of, "NAMES_FILE": nf}, timeout=900)
    if not ck.require_tlc_ok("Presentation: theorems on all tiny dims + %d maps" % len(reqs), r):
        ck.finish()
    ck.states = max(ck.states, 1); ck.transitions = max(ck.transitions, 1)
    maps = {}
    for o, T in zip(owner, json.load(open(of))["res"]):
        maps.setdefault((o[0], o[1]), []).append((o[2], T))
    names = json.load(open(nf))["rows"]
    jobs = []
    for I in inst + qinst:
        qp = "R" in I
        d = I["dims"]
        lonly = not d["q"] and not d["s"]
        pres = [("base", {})]
        pres.append(("sparse", {"storage": "sparse"}))
        for k in (["ldl", "ldl2", "chol"] + ([] if qp else ["qr"]) + (["chol2"] if lonly else [])):
            pres.append(("kkt=" + k, {"kktsolver": k, "storage": rnd.choice(["dense", "sparse"])}))
        if qp and lonly:
            pres.append(("qp", {"entry": "qp"}))
        if not qp:
            if lonly:
                pres.append(("lp", {"entry": "lp"}))
                pres.append(("glpk", {"entry": "lp", "solver": "glpk"}))
            if not d["s"]:
                pres.append(("socp", {"entry": "socp"}))
            if not d["q"]:
                pres.append(("sdp", {"entry": "sdp"}))
                if I["p"] == 0 and d["s"] and all(m > 0 for m in d["s"]) and I["kind"] == "solvable":
                    pres.append(("dsdp", {"entry": "sdp", "solver": "dsdp"}))
            if I["kind"] == "solvable":
                pres.append(("start", {"starts": rnd.choice(["primal", "dual", "both"])}))
        elif I["kind"] == "solvable":
            pres.append(("initvals", {"initvals": rnd.choice([["x"], ["s", "z"], ["x", "s", "y", "z"] if I["p"] else ["x", "s", "z"]])}))
        pres.append(("operator", {"operator": True}))
        for nm, T in maps.get((I["id"], qp), []):
            pres.append((nm, T))
        sig = list(range(I["n"])); rnd.shuffle(sig)
        pres.append(("PermVars", sig))
        pres.append(("ScaleObj", 4))
        if d["s"] and any(m >= 2 for m in d["s"]):
            pres.append(("Junk", None))
        jobs.append((I, pres, seed))
    from harness.core import pmap
    res = pmap(ck, _job, jobs, "c06", timeout=PMAP_TIMEOUT, chunksize=2)
    if res is None:
        ck.finish()
    # traces for SameResult
    traces = []
    for R in res:
        base = R["runs"][0]
        tr = []
        for x in R["runs"]:
            agree = True
            if x["status"] == "optimal" and base["status"] == "optimal":
                agree = abs(x["obj"] - base["obj"]) <= 1e-5 * (1 + abs(base["obj"]))
            tr.append({"pres": x["pres"], "status": x["status"], "agree": bool(agree)})
        traces.append(tr)
    wt = tlc.workdir("c06/same")
    tf = os.path.join(wt, "traces.json")
    json.dump(traces, open(tf, "w"))
    rr = tlc.run_tlc("SameResult", "SPECIFICATION Spec\n", wt, workers=1, env={"TRACE_FILE": tf}, timeout=900)
    if not ck.require_tlc_ok("SameResult trace validation (%d problems)" % len(traces), rr):
        ck.finish()
    okmap = {}
    for v in tlc.printed_values(rr.out):
        if v and v[0] == "ACCEPT":
            okmap[v[1] - 1] = bool(v[2])
    for i, R in enumerate(res):
        ck.traces += 1
        base = R["runs"][0]
        cone = ("l" if R["dims"]["l"] else "") + ("q" if R["dims"]["q"] else "") + ("s" if R["dims"]["s"] else "")
        for x in R["runs"]:
            ck.evaluations += 1
            ck.nontrivial((cone, R["qp"], x["pres"], x["status"]))
        if okmap.get(i) is not True:
            for x in R["runs"][1:]:
                bad = x["status"] != base["status"] or (x["status"] == "optimal" and abs(x["obj"] - base["obj"]) > 1e-5 * (1 + abs(base["obj"])))
                if bad:
                    ent = "coneqp" if R["qp"] else "conelp"
                    cls = "status" if x["status"] != base["status"] else "objective"
                    pres = x["pres"]
                    sig = "%s|presentation=%s|%s|%s->%s" % (ent, pres, cls, base["status"][:22], x["status"][:40]) if cls == "status" else \
                        "%s|presentation=%s|objective" % (ent, pres)
                    if pres == "dsdp":
                        sig = "sdp|presentation=dsdp|differs-from-native"
                    lonly_ = not R["dims"]["q"] and not R["dims"]["s"]
                    if R.get("thin") and lonly_ and pres in ("base", "sparse", "PermVars", "PermRows", "ScaleObj", "lp", "qp", "start",
                                                              "initvals", "kkt=chol2", "Junk") or (
                            R.get("thin") and lonly_ and base["status"] != "optimal"):
                        sig = "kkt_chol2|rank([P;G])<n|first-cholesky-misses-singularity"
                    ck.violation(sig, "%s (truth %s, cone %s): presentation %s gives %s / %s, base gives %s / %s" % (
                        ent, R["kind"], cone, pres, x["status"], x["obj"], base["status"], base["obj"]), {"id": R["id"], "dims": R["dims"], "runs": R["runs"]})
    for R in res[:2]:
        ck.sample(R)
    # C06n: names table
    chunks = [names[i::8] for i in range(8)]
    from harness.core import pmap
    nres = pmap(ck, _names_job, chunks, "c06-names", timeout=PMAP_TIMEOUT, procs=8, ctx="spawn")
    if nres is None:
        ck.finish()
    for part in nres:
        for x in part:
            ck.evaluations += 1
            ck.nontrivial(("name", x["e"], x["k"]))
            if x["exp"] == "works":
                if x["exc"] is not None or x["status"] != "optimal":
                    ck.violation("%s|kktsolver=%s|supported-name-fails|%s" % (x["e"], x["k"], x["exc"]), "%s(kktsolver='%s') should work: %s %s %s" % (
                        x["e"], x["k"], x["exc"], x["msg"], x["status"]), x)
            elif x["exp"] == "ValueError":
                if x["exc"] != "ValueError":
                    ck.violation("%s|kktsolver=%s|not-rejected-with-ValueError|%s" % (x["e"], x["k"], x["exc"]),
                                 "%s(kktsolver='%s') must raise ValueError, got %s %s (status %s)" % (x["e"], x["k"], x["exc"], x["msg"], x["status"]), x)
                elif x["nkkt"] != 0:
                    ck.violation("%s|kktsolver=%s|rejected-after-solving" % (x["e"], x["k"]), "ValueError only after %d KKT calls" % x["nkkt"], x)
            else:
                if x["exc"] not in (None, "ValueError"):
                    ck.violation("%s|kktsolver=%s|not-rejected-with-ValueError|%s" % (x["e"], x["k"], x["exc"]),
                                 "%s(kktsolver='%s') neither works nor raises ValueError: %s %s" % (x["e"], x["k"], x["exc"], x["msg"]), x)
    ck.extra["instances"] = len(jobs)
    ck.extra["maps_from_model"] = len(reqs)
    ck.finish()
