"""C16 - sparse matrices are a faithful, structurally valid image of the dense semantics.

Spec: SparseCCS.tla (on top of DenseMatrix.tla): the model keeps the dense image and the kind of every object; sparse
operations are the dense operations on the images plus the documented result kind.  Seeded random programs mixing spmatrix
and matrix objects (construction from triplets with duplicates, sparse()/matrix() conversion, indexing, indexed assignment
with numbers / dense / sparse right-hand sides, + - *, scalar operations, in-place operators, unary minus, transposes,
aliasing) are executed on the real objects in forked children (a crash of the interpreter is an observation); every step
logs the CCS arrays of every sparse object and TLC checks CCSValid, kind, dense image and pinned patterns at every step."""
import json, os, random, signal, pickle, time, select
from harness import tlc
from harness.core import Check, pmap
from harness.checks import c15

NONEI = 999
NAMES = ["A", "B", "C", "D"]
PMAP_TIMEOUT = int(os.environ.get("VERIF_PMAP_TIMEOUT", "300"))


def gen_program(rnd, length):
    prog = []
    shapes = {}
    kinds = {}
    for step in range(length):
        bound = [n for n in NAMES if n in shapes]
        r = rnd.random()
        if not bound or r < 0.16:
            dst = rnd.choice(NAMES)
            nr, nc = rnd.choice([(2, 2), (3, 2), (2, 3), (3, 3), (1, 3), (0, 2), (2, 0), (1, 1), (3, 1), (1, 2), (2, 1), (4, 2), (5, 2), (4, 3), (5, 1)])
            k = rnd.randint(0, min(nr * nc + 2, 9)) if nr * nc else 0
            tc = rnd.choice(["d", "d", "z"])
            V = [c15.num(rnd, "d" if tc == "d" else "z")["v"] for _ in range(k)]
            if rnd.random() < 0.25 and k:
                V[rnd.randrange(k)] = [0, 0]            # an explicit zero
            I = [rnd.randrange(nr) for _ in range(k)] if nr else []
            J = [rnd.randrange(nc) for _ in range(k)] if nc else []
            op = {"k": "sp_new", "V": V, "I": I, "J": J, "size": [nr, nc], "tc": tc, "dst": dst}
            shapes[dst] = (nr, nc); kinds[dst] = "sparse"
        elif r < 0.24:
            dst = rnd.choice(NAMES)
            nr, nc = rnd.choice([(2, 2), (3, 2), (2, 3), (3, 1), (1, 1), (1, 1), (1, 1), (0, 2), (4, 2), (5, 1), (1, 3)])
            tcs = rnd.choice(["i", "d", "idz"])
            s = [c15.num(rnd, tcs) for _ in range(nr * nc)]
            op = {"k": "new_list", "s": s, "size": [nr, nc], "tc": "None", "dst": dst}
            shapes[dst] = (nr, nc); kinds[dst] = "dense"
        elif r < 0.30:
            src = rnd.choice(bound); dst = rnd.choice(NAMES)
            op = {"k": rnd.choice(["to_sparse", "to_dense"]), "src": src, "dst": dst}
            shapes[dst] = shapes[src]; kinds[dst] = "sparse" if op["k"] == "to_sparse" else "dense"
        elif r < 0.42:
            src = rnd.choice(bound)
            n = shapes[src][0] * shapes[src][1]
            if rnd.random() < 0.4:
                op = {"k": "get1", "src": src, "ix": c15.rand_index(rnd, n), "dst": rnd.choice(NAMES)}
            else:
                op = {"k": "get2", "src": src, "ix": c15.rand_index(rnd, shapes[src][0]), "jx": c15.rand_index(rnd, shapes[src][1]), "dst": rnd.choice(NAMES)}
            shapes[op["dst"]] = (2, 2); kinds[op["dst"]] = kinds[src]
        elif r < 0.62:
            src = rnd.choice(bound)
            rr = rnd.random()
            if rr < 0.45:
                rhs = {"t": "num", "x": c15.num(rnd, "idz")}
            else:
                rhs = {"t": "name", "n": rnd.choice(bound)}
            n = shapes[src][0] * shapes[src][1]
            rq = rnd.random()
            if rq < 0.3:
                op = {"k": "set1", "src": src, "ix": c15.rand_index(rnd, n), "rhs": rhs}
            elif rq < 0.55 and shapes[src][0] and shapes[src][1]:
                # single cells (new entries are inserted into the compressed columns)
                op = {"k": "set2", "src": src, "ix": {"t": "int", "v": rnd.randrange(shapes[src][0])}, "jx": {"t": "int", "v": rnd.randrange(shapes[src][1])},
                      "rhs": {"t": "num", "x": c15.num(rnd, "id")}}
            else:
                op = {"k": "set2", "src": src, "ix": c15.rand_index(rnd, shapes[src][0]), "jx": c15.rand_index(rnd, shapes[src][1]), "rhs": rhs}
        elif r < 0.78:
            def operand():
                return {"t": "name", "n": rnd.choice(bound)} if rnd.random() < 0.75 else {"t": "num", "x": c15.num(rnd, "idz")}
            a, b = operand(), operand()
            if a["t"] == "num" and b["t"] == "num":
                a = {"t": "name", "n": rnd.choice(bound)}
            o = rnd.choice(["+", "-", "*", "+", "-", "*", "/"])
            if o == "/":
                # A / c ("dividing all its entries by c"; sparse stays sparse): mostly (A * c) / c, which is exact
                a = {"t": "name", "n": rnd.choice(bound)}
                b = {"t": "num", "x": c15.num(rnd, "id")}
                if rnd.random() < 0.6:
                    b["x"]["v"][0] = rnd.choice([1, -1, 2, -2, 4, 0])
                if rnd.random() < 0.6 and len(prog) < length - 1 and b["x"]["v"][0] != 0:
                    mid = rnd.choice(NAMES)
                    prog.append({"k": "binop", "o": "*", "a": a, "b": b, "dst": mid})
                    shapes[mid] = shapes[a["n"]]; kinds[mid] = kinds[a["n"]]
                    a = {"t": "name", "n": mid}
            op = {"k": "binop", "o": o, "a": a, "b": b, "dst": rnd.choice(NAMES)}
            shapes[op["dst"]] = (2, 2); kinds[op["dst"]] = "dense"
        elif r < 0.88:
            src = rnd.choice(bound)
            b = {"t": "name", "n": rnd.choice(bound)} if rnd.random() < 0.5 else {"t": "num", "x": c15.num(rnd, "idz")}
            op = {"k": "ibinop", "o": rnd.choice(["+", "-", "*", "+", "-", "*", "/"]), "src": src, "b": b}
            if op["o"] == "/":
                op["b"] = {"t": "num", "x": c15.num(rnd, "id")}
                if rnd.random() < 0.6:
                    op["b"]["x"]["v"][0] = rnd.choice([1, -1, 2, -2, 4, 0])
        elif r < 0.96:
            src = rnd.choice(bound)
            u = rnd.choice(["neg", "pos", "copy", "trans", "ctrans", "abs"])
            if u == "abs":
                op = {"k": "abs", "src": src, "dst": rnd.choice(NAMES)}
                shapes[op["dst"]] = shapes[src]; kinds[op["dst"]] = kinds[src]
            else:
                op = {"k": "unary", "u": u, "src": src, "dst": rnd.choice(NAMES)}
                shapes[op["dst"]] = (shapes[src][1], shapes[src][0]); kinds[op["dst"]] = kinds[src]
        else:
            src = rnd.choice(bound); dst = rnd.choice(NAMES)
            op = {"k": "alias", "src": src, "dst": dst}
            shapes[dst] = shapes[src]; kinds[dst] = kinds[src]
        prog.append(op)
    return prog


def _cval(v):
    return [int(v.real), int(v.imag)] if isinstance(v, complex) else [int(v), 0]


def _ok_int(v):
    if isinstance(v, complex):
        return c15._isint(v.real) and c15._isint(v.imag)
    return c15._isint(v)


def snap(M):
    from cvxopt import spmatrix
    if isinstance(M, spmatrix):
        cp, ri, val = M.CCS
        vals = [(_cval(v) if _ok_int(v) else ["nonint", repr(v)]) for v in val]
        return {"kind": "sparse", "tc": M.typecode, "nr": M.size[0], "nc": M.size[1], "colptr": [int(a) for a in cp],
                "rowind": [int(a) for a in ri], "val": vals}
    d = c15._snap(M)
    d["kind"] = "dense"
    return d


def run_program_stream(prog, emit):
    """execute on real objects; emit(event) after every step (so that everything before a crash is observed)"""
    import copy
    from cvxopt import matrix, spmatrix, sparse
    env = {}
    for op in prog:
        k = op["k"]
        out = {"k": "none"}
        keepnnz = None
        try:
            for key in ("src",):
                if key in op and op[key] not in env:
                    raise KeyError("unbound")
            for key in ("a", "b", "rhs"):
                if key in op and op[key]["t"] == "name" and op[key]["n"] not in env:
                    raise KeyError("unbound")
            def operand(o):
                return env[o["n"]] if o["t"] == "name" else c15._pynum(o["x"])
            res = None
            if k == "sp_new":
                V = [complex(v[0], v[1]) if op["tc"] == "z" else float(v[0]) for v in op["V"]]
                res = spmatrix(V, op["I"], op["J"], (op["size"][0], op["size"][1]), op["tc"])
            elif k == "new_list":
                res = matrix([c15._pynum(x) for x in op["s"]], (op["size"][0], op["size"][1]))
            elif k == "to_sparse":
                S = env[op["src"]]
                res = sparse(S) if not isinstance(S, spmatrix) else spmatrix(S.V, S.I, S.J, S.size)
                if not isinstance(S, spmatrix) and S.typecode == "i":
                    res = sparse(matrix(S, tc="d"))
                # documented: sparse() drops numerical zeros -> the image is unchanged either way
            elif k == "to_dense":
                res = matrix(env[op["src"]])
            elif k == "get1":
                res = env[op["src"]][c15._pyindex(op["ix"])]
            elif k == "get2":
                res = env[op["src"]][c15._pyindex(op["ix"]), c15._pyindex(op["jx"])]
            elif k in ("set1", "set2"):
                r = op["rhs"]
                if r["t"] == "name" and env[r["n"]] is env[op["src"]]:
                    break
                val = env[r["n"]] if r["t"] == "name" else c15._pynum(r["x"])
                if k == "set1":
                    env[op["src"]][c15._pyindex(op["ix"])] = val
                else:
                    env[op["src"]][c15._pyindex(op["ix"]), c15._pyindex(op["jx"])] = val
            elif k == "binop":
                a, b = operand(op["a"]), operand(op["b"])
                res = a + b if op["o"] == "+" else (a - b if op["o"] == "-" else (a / b if op["o"] == "/" else a * b))
                if op["o"] == "*":
                    for x_, y_ in ((a, b), (b, a)):
                        if isinstance(x_, spmatrix) and not hasattr(y_, "size"):
                            keepnnz = len(x_.V)
            elif k == "ibinop":
                A = env[op["src"]]
                b = operand(op["b"])
                if hasattr(b, "size") and (len(b) == 0 or len(A) == 0):
                    break
                if op["o"] == "*" and hasattr(b, "size") and len(b) == 1 and len(A) == 1 and type(A) is not type(b):
                    break      # 1x1 sparse times 1x1 dense: matrix product or scalar product - not specified
                A0 = A
                if op["o"] == "+":
                    A += b
                elif op["o"] == "-":
                    A -= b
                elif op["o"] == "/":
                    A /= b
                else:
                    A *= b
                if A is not A0:
                    out = {"k": "err", "cls": "in-place-created-new-object"}
                env[op["src"]] = A0
            elif k == "unary":
                A = env[op["src"]]
                u = op["u"]
                res = {"neg": lambda: -A, "pos": lambda: +A, "copy": lambda: copy.copy(A), "trans": lambda: A.T if not isinstance(A, spmatrix) else A.T,
                       "ctrans": lambda: A.H}[u]()
                if isinstance(A, spmatrix):
                    keepnnz = len(A.V)
            elif k == "abs":
                res = abs(env[op["src"]])
            elif k == "alias":
                env[op["dst"]] = env[op["src"]]
            if res is not None:
                if hasattr(res, "typecode") and hasattr(res, "size"):
                    env[op["dst"]] = res
                    out = {"k": "mat"}
                else:
                    o = c15._obsnum(res)
                    out = o if o is not None else {"k": "err", "cls": "unexpected-result-type:" + type(res).__name__}
        except KeyError as e:
            if "unbound" in str(e):
                break
            out = {"k": "err", "cls": "KeyError"}
        except IndexError:
            out = {"k": "err", "cls": "IndexError"}
        except (TypeError, ValueError, NotImplementedError, ArithmeticError, OverflowError) as e:
            out = {"k": "err", "cls": "TypeError" if isinstance(e, TypeError) else "ValueError" if isinstance(e, ValueError) else type(e).__name__}
        except Exception as e:
            out = {"k": "err", "cls": type(e).__name__}
        idxok = all(list(M_) == orig_ for M_, orig_ in c15._IDX_LOG)
        del c15._IDX_LOG[:]
        ev = {"op": c15._clean(op), "out": out, "heap": {n: snap(M) for n, M in env.items()},
              "same": [[a, b] for a in env for b in env if env[a] is env[b]], "idxok": idxok}
        ev["nonint"] = '"nonint"' in json.dumps(ev["heap"]) or '"nonint"' in json.dumps(out)
        if keepnnz is not None:
            ev["keepnnz"] = keepnnz
        emit(ev)


def run_isolated_program(prog, timeout=30):
    """returns (events, crash) ; crash = None | ("signal", n) | ("hang", None); a silent child is tried once more with five times the limit"""
    events, crash = _run_program_once(prog, timeout)
    if crash is not None and crash[0] == "hang":
        events, crash = _run_program_once(prog, timeout * 5)
    return events, crash


def _run_program_once(prog, timeout):
    r, w = os.pipe()
    pid = os.fork()
    if pid == 0:
        os.close(r)
        fh = os.fdopen(w, "wb", buffering=0)
        def emit(ev):
            b = pickle.dumps(ev)
            fh.write(len(b).to_bytes(4, "little") + b)
        try:
            run_program_stream(prog, emit)
            os._exit(0)
        except BaseException:      # noqa
            os._exit(3)
    os.close(w)
    data = b""
    deadline = time.time() + timeout
    crash = None
    with os.fdopen(r, "rb") as fh:
        fd = fh.fileno()
        while True:
            left = deadline - time.time()
            if left <= 0:
                os.kill(pid, signal.SIGKILL)
                crash = ("hang", None)
                break
            rd, _, _ = select.select([fd], [], [], min(left, 1.0))
            if rd:
                b = os.read(fd, 1 << 16)
                if not b:
                    break
                data += b
    _, st = os.waitpid(pid, 0)
    if crash is None and os.WIFSIGNALED(st):
        crash = ("signal", os.WTERMSIG(st))
    events = []
    i = 0
    while i + 4 <= len(data):
        n = int.from_bytes(data[i:i + 4], "little")
        if i + 4 + n > len(data):
            break
        events.append(pickle.loads(data[i + 4:i + 4 + n]))
        i += 4 + n
    return events, crash


def _job(args):
    seed, n, length = args
    rnd = random.Random(seed)
    out = []
    for _ in range(n):
        prog = gen_program(rnd, rnd.randint(3, length))
        ev, crash = run_isolated_program(prog)
        out.append({"trace": ev, "crash": crash, "next_op": prog[len(ev)] if crash and len(ev) < len(prog) else None})
    return out


def classify(ev, clause):
    sig = c15.classify(ev, clause).replace("matrix|", "spmatrix|", 1)
    op = ev["op"]
    if op["k"] in ("set1", "set2") and clause == "dense-image":
        def dup(ix, n):
            if ix["t"] != "list":
                return False
            v = [(a + n if a < 0 else a) for a in ix["vs"]]
            return len(set(v)) < len(v)
        src = ev["heap"].get(op["src"], {})
        if src.get("kind") == "sparse" and (dup(op["ix"], src["nr"] * src["nc"] if op["k"] == "set1" else src["nr"])
                                            or ("jx" in op and dup(op["jx"], src["nc"]))):
            return "spmatrix|indexed-assignment|repeated-indices-in-an-index-list|dense-image"
    if op["k"] == "ibinop" and ev["out"].get("cls") == "in-place-created-new-object":
        return "matrix|in-place-operator-with-sparse-operand|creates-new-object"
    kinds = []
    heap = ev.get("heap", {})
    for key in ("src",):
        if key in op and op[key] in heap:
            kinds.append(heap[op[key]]["kind"])
    for key in ("a", "b", "rhs"):
        if key in op and isinstance(op[key], dict) and op[key].get("t") == "name" and op[key]["n"] in heap:
            kinds.append(heap[op[key]["n"]]["kind"])
    return sig + "|operands=" + ",".join(kinds)


def run(tier, seed, replay=None):
    ck = Check("C16", tier, seed)
    ck.clean_replays()
    quick = tier == "quick"
    ck.rule = ("seeded random programs over 4 names mixing spmatrix and matrix objects; every step validated by TLC (CCSValid, kind, dense "
               "image, identity, pinned patterns); distinct = distinct (operation kind, index kinds, operand kinds, outcome)")
    ck.trusted = ["TLC", "spmatrix.CCS as the observation of the compressed-column arrays"]
    ck.assumptions = ["integer-valued data; V assignment and size change are not in the program generator",
                      "base.gemv/symv with a sparse A and a block that leaves the rows/columns of A (outside the documented requirement "
                      "m <= A.size[0] - offsetA % A.size[0]) are 'unspecified'; for base.syrk with a sparse C and partial=False only the uplo triangle is compared"]
    r = tlc.run_tlc("MC_DenseMatrix", c15.MC_CFG % 3, tlc.workdir("c16/design"), timeout=900)
    if not ck.require_tlc_ok("MC_DenseMatrix box exploration (dense semantics shared with SparseCCS)", r):
        ck.finish()
    nprog, length = (1600, 12) if quick else (12000, 22)
    parts = pmap(ck, _job, [(seed * 100 + i, nprog // 32, length) for i in range(32)], "c16", timeout=PMAP_TIMEOUT)
    runs = [t for p in parts for t in p]
    traces = []
    for rr in runs:
        if rr["crash"]:
            op = rr["next_op"] or {}
            what = "SIG%d" % rr["crash"][1] if rr["crash"][0] == "signal" else "hang"
            last = rr["trace"][-1]["heap"] if rr["trace"] else {}
            src = last.get(op.get("src"), {})
            sig = "spmatrix|%s|interpreter-%s|src=%s:%sx%s" % (op.get("k"), what, src.get("kind"), src.get("nr"), src.get("nc"))
            if op.get("k", "").startswith("set"):
                sig += "|rhs=" + op["rhs"]["t"]
            ck.violation(sig, "the interpreter died (%s) while executing %s on %s" % (what, json.dumps(op)[:200], json.dumps(src)[:200]),
                         {"trace": rr["trace"][-3:], "op": op})
        tr_ = rr["trace"]
        for k_, ev_ in enumerate(tr_):
            if '"nonint"' in json.dumps(ev_["heap"]) or '"nonint"' in json.dumps(ev_["out"]):
                # legitimate for a division (the model answers "cut" and the trace ends); anywhere else the step is rejected (clause exact-values)
                tr_ = tr_[:k_ + 1]
                break
        if tr_:
            traces.append(tr_)
    for c0 in range(0, len(traces), 2500):
        part = traces[c0:c0 + 2500]
        wd = tlc.workdir("c16/tr%d" % (c0 // 2500))
        tf = os.path.join(wd, "traces.json")
        json.dump(part, open(tf, "w"))
        rr = tlc.run_tlc("SparseTrace", "SPECIFICATION TSpec\n", wd, workers=1, env={"TRACE_FILE": tf}, timeout=1500, heap="6g")
        if not ck.require_tlc_ok("SparseTrace batch %d" % (c0 // 2500), rr):
            ck.finish()
        acc, failed = set(), {}
        for v in tlc.printed_values(rr.out):
            if v and v[0] == "ACCEPT":
                acc.add(v[1] - 1)
            elif v and v[0] == "FAILED":
                failed.setdefault(v[1] - 1, (v[2], str(v[3])))
        for i, tr in enumerate(part):
            ck.traces += 1
            for ev in tr:
                ck.evaluations += 1
                ck.nontrivial(classify(ev, "")[:100])
            if i not in acc:
                l, clause = failed.get(i, (len(tr), "?"))
                ev = tr[l - 1] if 0 < l <= len(tr) else tr[-1]
                ck.violation(classify(ev, clause), "step %d (%s): the implementation's %s differ from the sparse model" % (
                    l, json.dumps(ev["op"])[:160], clause), {"trace": tr[max(0, l - 3):l], "failed": [l, clause]})
    if traces:
        ck.sample({"trace": traces[0][:3]})
    # the mixed sparse/dense products used by the solvers: base.gemv / symv / gemm / syrk / axpy (incl. partial=True), specified in Blas.tla
    # (SPGEMV, SPSYMV, SPGEMM, SPSYRK, SPAXPY) on dense images; random calls run in crash-isolated children and TLC decides every call
    from harness.checks import c17
    ncalls = c17.run_base_products(ck, seed, 60 if quick else 1000)
    ck.traces += ncalls
    ck.finish()
