"""C01 - 'optimal' from the cone-LP solvers is an independently checkable certificate.
Contract invariants OptimalCert / OptimalDecision / IterBudget of SolverContract on traces of
conelp, lp, socp, sdp over planted instances (truth verified by TLC) x configurations."""
import random
from harness import plants, solsuite, tlc
from harness.core import Check
from harness.checks import c10

PROPS = ["OptimalCert", "OptimalDecision", "IterBudget"]


def design_runs(ck, quick):
    for module in ("ConeLP",):
        for mi, rf in ((2, 1),) if quick else ((2, 0), (3, 1)):
            c10.model_fault_classes(ck, module, mi, rf)


def run(tier, seed, replay=None, pid="C01", props=PROPS, kinds=None):
    ck = Check(pid, tier, seed)
    ck.clean_replays()
    quick = tier == "quick"
    ck.rule = ("planted cone LPs (truth verified exactly by TLC in Planted.tla) x (entry point, kktsolver, storage, start points, options, "
               "back-end); distinct = distinct (truth, configuration class, outcome)")
    ck.trusted = ["TLC", "harness/alpha.py (exact rational evaluation of the documented formulas on the returned floats)"]
    ck.assumptions = ["numeric predicates on returned floats are decided by the abstraction function alpha, not by TLC (DESIGN.md section 5)"]
    design_runs(ck, quick)
    n = 120 if quick else 1500
    kinds = kinds or {"solvable": n, "pinf": n // 3, "dinf": n // 3}
    cands = plants.gen_candidates(seed, kinds)
    inst = plants.tlc_accept(cands, pid.lower() + "/plants", ck)
    rnd = random.Random(seed)
    jobs = [("conelp", I, solsuite.conelp_configs(I, rnd, 4 if quick else 12)) for I in inst]
    runs, verdict = solsuite.run_cases(ck, jobs, pid.lower() + "/traces")
    if verdict is None:
        ck.finish()
    solsuite.report(ck, runs, verdict, props, pid)
    for r in runs[:2]:
        ck.sample({"cfg": r["cfg"], "truth": r["kind"], "trace": r["trace"][:4] + r["trace"][-2:]})
    ck.extra["instances"] = len(inst)
    ck.extra["status_counts"] = _counts(runs)
    ck.finish()


def _counts(runs):
    c = {}
    for r in runs:
        k = "%s->%s" % (r["kind"], r["status"] or (r["exc"] or "")[:40])
        c[k] = c.get(k, 0) + 1
    return c
