"""C18 - LAPACK wrappers return results that satisfy their defining equations.

Spec: Lapack.tla - planted instances whose truth (nonsingular with an LU / LDL^T certificate, symmetric positive definite with a Cholesky
certificate, exactly singular with a null vector, not positive definite with a witness vector, triangular, each with its band structure) is
DECIDED by TLC in exact Gaussian-integer arithmetic, and the contract of the wrappers per kind of call (driver, factor-then-solve, inversion,
inconsistent arguments, QR / LQ, eigenvalues, SVD, Schur).
Binding: for every accepted instance the real wrappers are called in crash-isolated children - general, band, tridiagonal, positive definite
(dense / band / tridiagonal), symmetric and Hermitian indefinite, triangular (dense / band) systems; with and without the optional pivot
argument; trans / uplo / diag options; real and complex; orders 0..4, 0..3 right-hand sides; natural matrices and buffers with offsets and
padded leading dimensions (padding cells are canaries) - and abstracted (alpha, floating point with a 1e-9 relative tolerance against the
PLANTED integer solution): solution, inputs unchanged, factor-solve = driver, inverse, reconstruction, orthonormality, ordering, nothing
outside the outputs touched.  TLC judges every observation against the contract.  Exactly singular / non-positive-definite inputs must
raise ArithmeticError, inconsistent sizes TypeError / ValueError with all arguments left alone."""
import json, os, random
from math import gcd
from harness import tlc
from harness.core import Check, pmap
from harness.checks import c12
from harness import linalg as la

PMAP_TIMEOUT = int(os.environ.get("VERIF_PMAP_TIMEOUT", "300"))
CAN = 7.25
TOL = 1e-9


# ------------------------------------------------------------------ integer (Gaussian) matrices
def gz(rnd, tc, lo=-2, hi=2, nonzero=False):
    while True:
        v = [rnd.randint(lo, hi), rnd.randint(lo, hi) if tc == "z" else 0]
        if not nonzero or v != [0, 0]:
            return v


def gmul(a, b):
    return [a[0] * b[0] - a[1] * b[1], a[0] * b[1] + a[1] * b[0]]


def gadd(a, b):
    return [a[0] + b[0], a[1] + b[1]]


def gconj(a):
    return [a[0], -a[1]]


def mmul(A, B):
    m, k = len(A), (len(A[0]) if A else 0)
    n = len(B[0]) if B else 0
    out = []
    for i in range(m):
        row = []
        for j in range(n):
            s = [0, 0]
            for l in range(k):
                s = gadd(s, gmul(A[i][l], B[l][j]))
            row.append(s)
        out.append(row)
    return out


def mct(A, conj):
    m, n = len(A), (len(A[0]) if A else 0)
    return [[(gconj(A[i][j]) if conj else list(A[i][j])) for i in range(m)] for j in range(n)]


def to_int_vector(qv):
    """scale a vector of exact complex rationals to Gaussian integers"""
    den = 1
    for x in qv:
        for f in (x.re, x.im):
            den = den * f.denominator // gcd(den, f.denominator)
    return [[[int(x.re * den), int(x.im * den)]] for x in qv]


def gen_instance(rnd, fam):
    """a planted instance for a family: ge gb gt po pb pt sy he tr tb"""
    tc = "z" if fam == "he" or rnd.random() < 0.45 else "d"
    n = rnd.choice([0, 1, 2, 2, 3, 3, 4])
    nrhs = rnd.choice([0, 1, 1, 2, 3])
    full = n
    kl = ku = full
    if fam == "gb":
        kl, ku = rnd.randint(0, 2), rnd.randint(0, 2)
    elif fam in ("gt", "pt"):
        kl = ku = 1
    elif fam in ("pb", "tb"):
        kl = ku = rnd.randint(0, 2)
    sym = "n"
    if fam in ("po", "pb", "pt"):
        sym = "h"
    elif fam == "sy":
        sym = "s"
    elif fam == "he":
        sym = "h"
    bad = rnd.random() < 0.15 and n > 0
    I = {"fam": fam, "tc": tc, "n": n, "nrhs": nrhs, "kl": kl, "ku": ku, "sym": sym, "uplo": rnd.choice(["L", "U"])}
    Z = [0, 0]
    one = [1, 0]
    def lower_unit(band):
        return [[(one if i == j else gz(rnd, tc) if 0 < i - j <= band else Z) for j in range(n)] for i in range(n)]
    X = [[gz(rnd, tc, -3, 3) for _ in range(nrhs)] for _ in range(n)]
    if fam in ("ge", "gb", "gt"):
        L = lower_unit(kl)
        U = [[(gz(rnd, tc, nonzero=True) if i == j else gz(rnd, tc) if 0 < j - i <= ku else Z) for j in range(n)] for i in range(n)]
        if bad:
            # exactly singular in a way elimination detects exactly: a zero column (the band structure is kept)
            k = rnd.randrange(n)
            A = mmul(L, U)
            for i in range(n):
                A[i][k] = [0, 0]
            v = [[[1, 0] if i == k else [0, 0]] for i in range(n)]
            I.update({"kind": "singular", "A": A, "v": v})
        else:
            A = mmul(L, U)
            I.update({"kind": "nonsingular", "A": A, "L": L, "U": U, "X": X, "B": mmul(A, X)})
    elif fam in ("po", "pb", "pt"):
        R = [[([rnd.randint(1, 3), 0] if i == j else gz(rnd, tc) if 0 < j - i <= ku else Z) for j in range(n)] for i in range(n)]
        if bad:
            # Hermitian but not positive definite: L D L^H with a nonpositive D entry
            L = lower_unit(kl)
            Dm = [[([rnd.randint(1, 3), 0] if i == j else Z) for j in range(n)] for i in range(n)]
            k = rnd.randrange(n)
            Dm[k][k] = [rnd.choice([-1, -2, -3]), 0]
            A = mmul(mmul(L, Dm), mct(L, True))
            # v = L^-H e_k: solve L^H v = e_k exactly (unit upper triangular: integer solution)
            LH = mct(L, True)
            v = [[0, 0] for _ in range(n)]
            for j in range(n - 1, -1, -1):
                s = [1, 0] if j == k else [0, 0]
                for l in range(j + 1, n):
                    s = gadd(s, [-x for x in gmul(LH[j][l], v[l])])
                v[j] = s
            I.update({"kind": "notpd", "A": A, "v": [[x] for x in v]})
        else:
            A = mmul(mct(R, True), R)
            I.update({"kind": "spd", "A": A, "U": R, "X": X, "B": mmul(A, X)})
    elif fam in ("sy", "he"):
        herm = fam == "he"
        L = lower_unit(n)
        Dm = [[([rnd.choice([-3, -2, -1, 1, 2, 3]), 0] if herm else gz(rnd, tc, nonzero=True)) if i == j else Z for j in range(n)] for i in range(n)]
        if bad:
            k = rnd.randrange(n)
            A = mmul(mmul(L, Dm), mct(L, herm))
            for i in range(n):
                A[i][k] = [0, 0]
                A[k][i] = [0, 0]
            v = [[[1, 0] if i == k else [0, 0]] for i in range(n)]
            I.update({"kind": "singular", "A": A, "v": v})
        else:
            A = mmul(mmul(L, Dm), mct(L, herm))
            I.update({"kind": "nonsingular", "A": A, "L": L, "U": Dm, "X": X, "B": mmul(A, X)})
    else:   # tr, tb
        lo = I["uplo"] == "L"
        A = [[(gz(rnd, tc, nonzero=True) if i == j else gz(rnd, tc) if (0 < (i - j if lo else j - i) <= kl) else Z) for j in range(n)] for i in range(n)]
        if bad:
            k = rnd.randrange(n)
            A[k][k] = [0, 0]
            I.update({"kind": "trisingular", "A": A})
        else:
            I.update({"kind": "triangular", "A": A, "X": X, "B": mmul(A, X)})
    return I


def tla_instance(I):
    n = I["n"]
    d = {"kind": I["kind"], "n": n, "nrhs": I["nrhs"], "A": I["A"], "kl": I["kl"], "ku": I["ku"], "sym": I["sym"], "uplo": I["uplo"]}
    for k in ("X", "B", "L", "U", "v"):
        d[k] = I.get(k, [])
    return d


# ------------------------------------------------------------------ storage
def cplx(v):
    return complex(v[0], v[1])


def fl(M):
    return [[cplx(x) for x in r] for r in M]


class Buf(object):
    """a cvxopt matrix used as a buffer with offset / leading dimension padding (padding cells are canaries)"""
    def __init__(self, rnd, rows, tc, natural=False, nrows=None, ncols=None):
        from cvxopt import matrix
        self.m = nrows if nrows is not None else len(rows)
        self.n = ncols if ncols is not None else (len(rows[0]) if rows else 0)
        self.tc = tc
        if natural:
            self.ld, self.off, tail = max(1, self.m), 0, 0
            shape = (self.m, self.n)
            self.natural = True
        elif rnd.random() < 0.3:
            # a matrix with more rows than the view, addressed with the DEFAULT leading dimension (its number of rows) and explicit dimensions
            self.ld, self.off, tail = max(1, self.m) + rnd.choice([1, 2]), 0, 0
            shape = (self.ld, self.n)
            self.natural = False
            self.tall = True
        else:
            self.ld = max(1, self.m) + rnd.choice([0, 1, 2])
            self.off = rnd.choice([0, 1, 3])
            tail = rnd.choice([0, 2])
            shape = None
            self.natural = False
        total = self.off + self.ld * self.n + tail if not natural else self.m * self.n
        flat = [complex(CAN, 0)] * total
        for i in range(len(rows)):
            for j in range(len(rows[0]) if rows else 0):
                flat[self.off + i + j * self.ld] = complex(rows[i][j])
        vals = flat if tc == "z" else [x.real for x in flat]
        self.before = [complex(v) for v in vals]
        self.M = matrix(vals, shape if shape else (total, 1), tc)

    tall = False

    def kw(self, name):
        return {} if (self.natural or self.tall) else {"ld" + name: self.ld, "offset" + name: self.off}

    def get(self, m=None, n=None):
        m = self.m if m is None else m
        n = self.n if n is None else n
        return [[complex(self.M[self.off + i + j * self.ld]) for j in range(n)] for i in range(m)]

    def flat(self):
        return [complex(x) for x in self.M]

    def outside_ok(self, m=None, n=None):
        """cells outside the m x n view are unchanged"""
        m = self.m if m is None else m
        n = self.n if n is None else n
        inside = {self.off + i + j * self.ld for i in range(m) for j in range(n)}
        now = self.flat()
        return all(now[p] == self.before[p] for p in range(len(now)) if p not in inside)

    def unchanged(self):
        return self.flat() == self.before


def band_rows(A, n, kl, ku, extra=0):
    """LAPACK band storage: A(i, j) in row extra + ku + i - j of column j"""
    rows = [[0j] * n for _ in range(extra + kl + ku + 1)]
    for i in range(n):
        for j in range(n):
            if -ku <= i - j <= kl:
                rows[extra + ku + i - j][j] = A[i][j]
    return rows


def sym_band_rows(A, n, kd, uplo):
    rows = [[0j] * n for _ in range(kd + 1)]
    for j in range(n):
        for i in range(n):
            if uplo == "L" and 0 <= i - j <= kd:
                rows[i - j][j] = A[i][j]
            if uplo == "U" and 0 <= j - i <= kd:
                rows[kd + i - j][j] = A[i][j]
    return rows


def tri_part(A, n, uplo, junk):
    """only the uplo triangle is referenced: put junk in the other one"""
    return [[(A[i][j] if (i >= j if uplo == "L" else i <= j) else complex(junk)) for j in range(n)] for i in range(n)]


def obs(call, **kw):
    o = {"call": call, "raised": "none", "sol_ok": True, "a_unchanged": True, "same_as_driver": True, "inv_ok": True, "recon_ok": True,
         "orth_ok": True, "order_ok": True, "outside_ok": True}
    o.update(kw)
    return o


def attempt(o, f):
    try:
        f()
    except Exception as e:      # noqa
        o["raised"] = type(e).__name__
        o["msg"] = str(e)[:100]
    return o


# ------------------------------------------------------------------ scenarios (run in a child)
def run_instance(I, seed):
    from cvxopt import matrix, lapack
    rnd = random.Random(seed)
    fam, tc, n, nrhs = I["fam"], I["tc"], I["n"], I["nrhs"]
    A = fl(I["A"])
    solv = I["kind"] in ("nonsingular", "spd", "triangular")
    X = fl(I["X"]) if solv else None
    B = fl(I["B"]) if solv else [[complex(rnd.randint(-2, 2)) for _ in range(nrhs)] for _ in range(n)]
    out = []
    nat = rnd.random() < 0.4
    herm = I["sym"] == "h"
    uplo = I["uplo"]
    def opA(t):
        return A if t == "N" else la.ct(A, conj=(t == "C"))
    def rhs_for(t):
        return la.mul(opA(t), X) if solv else B
    def newB(rows):
        return Buf(rnd, rows, tc, natural=nat, nrows=n, ncols=nrhs)
    def dims(b, bb=None):
        k = {}
        if not b.natural:
            k["n"] = n
        if bb is not None and not bb.natural:
            k["nrhs"] = nrhs
        return k
    def ipiv():
        return matrix(0, (n + rnd.choice([0, 1]), 1), "i")
    def solcheck(o, bb, Xref):
        if o["raised"] == "none" and solv:
            o["sol_ok"] = la.close(bb.get(), Xref, TOL)
            o["outside_ok"] = o["outside_ok"] and bb.outside_ok()
        return o

    if fam == "ge":
        # driver without ipiv: A is not modified
        a, b = Buf(rnd, A, tc, natural=nat), newB(B)
        o = attempt(obs("driver"), lambda: lapack.gesv(a.M, b.M, **dims(a, b), **a.kw("A"), **b.kw("B")))
        o["a_unchanged"] = a.unchanged()
        solcheck(o, b, X)
        xdrv = b.get() if o["raised"] == "none" else None
        out.append(o)
        # driver with ipiv
        a, b, ip = Buf(rnd, A, tc, natural=nat), newB(B), ipiv()
        o = attempt(obs("driver"), lambda: lapack.gesv(a.M, b.M, ip, **dims(a, b), **a.kw("A"), **b.kw("B")))
        o["outside_ok"] = a.outside_ok()
        solcheck(o, b, X)
        out.append(o)
        # factor + solve, every trans
        for t in ("N", "T", "C"):
            a, ip = Buf(rnd, A, tc, natural=nat), ipiv()
            o = obs("factor-solve")
            def go():
                lapack.getrf(a.M, ip, **({} if a.natural else {"m": n, "n": n}), **a.kw("A"))
                bb = newB(rhs_for(t))
                o["_b"] = bb
                lapack.getrs(a.M, ip, bb.M, trans=t, **dims(a, bb), **a.kw("A"), **bb.kw("B"))
            attempt(o, go)
            bb = o.pop("_b", None)
            if bb is not None:
                solcheck(o, bb, X)
                if t == "N" and xdrv is not None and o["raised"] == "none":
                    o["same_as_driver"] = la.close(bb.get(), xdrv, TOL)
            o["outside_ok"] = o["outside_ok"] and a.outside_ok()
            out.append(o)
        # inverse
        a, ip = Buf(rnd, A, tc, natural=nat), ipiv()
        o = obs("invert")
        def go():
            lapack.getrf(a.M, ip, **({} if a.natural else {"m": n, "n": n}), **a.kw("A"))
            lapack.getri(a.M, ip, **dims(a), **a.kw("A"))
        attempt(o, go)
        if o["raised"] == "none" and solv:
            o["inv_ok"] = la.close(la.mul(A, a.get()), la.eye(n), TOL)
        o["outside_ok"] = a.outside_ok()
        out.append(o)
    elif fam == "gb":
        kl, ku = I["kl"], I["ku"]
        ab = band_rows(A, n, kl, ku)
        a, b = Buf(rnd, ab, tc, natural=nat, nrows=kl + ku + 1, ncols=n), newB(B)
        kw = {} if a.natural else {"n": n, "ku": ku}
        o = attempt(obs("driver"), lambda: lapack.gbsv(a.M, kl, b.M, **kw, **({} if b.natural else {"nrhs": nrhs}), **a.kw("A"), **b.kw("B")))
        o["a_unchanged"] = a.unchanged()
        solcheck(o, b, X)
        xdrv = b.get() if o["raised"] == "none" else None
        out.append(o)
        ab2 = band_rows(A, n, kl, ku, extra=kl)
        a, b, ip = Buf(rnd, ab2, tc, natural=nat, nrows=2 * kl + ku + 1, ncols=n), newB(B), ipiv()
        o = attempt(obs("driver"), lambda: lapack.gbsv(a.M, kl, b.M, ip, **kw, **({} if b.natural else {"nrhs": nrhs}), **a.kw("A"), **b.kw("B")))
        o["outside_ok"] = a.outside_ok()
        solcheck(o, b, X)
        out.append(o)
        for t in ("N", "T", "C"):
            a, ip = Buf(rnd, ab2, tc, natural=nat, nrows=2 * kl + ku + 1, ncols=n), ipiv()
            o = obs("factor-solve")
            def go():
                lapack.gbtrf(a.M, n, kl, ip, **kw, **a.kw("A"))
                bb = newB(rhs_for(t))
                o["_b"] = bb
                lapack.gbtrs(a.M, kl, ip, bb.M, trans=t, **kw, **({} if bb.natural else {"nrhs": nrhs}), **a.kw("A"), **bb.kw("B"))
            attempt(o, go)
            bb = o.pop("_b", None)
            if bb is not None:
                solcheck(o, bb, X)
                if t == "N" and xdrv is not None and o["raised"] == "none":
                    o["same_as_driver"] = la.close(bb.get(), xdrv, TOL)
            o["outside_ok"] = o["outside_ok"] and a.outside_ok()
            out.append(o)
    elif fam in ("gt", "pt"):
        def vec(vals, pad):
            off = 0 if nat else rnd.choice([0, 1, 2])
            flat = [complex(CAN)] * off + list(vals) + [complex(CAN)] * pad
            return matrix(flat if tc == "z" else [x.real for x in flat], (len(flat), 1), tc), off
        dl = [A[i + 1][i] for i in range(n - 1)]
        dd = [A[i][i] for i in range(n)]
        du = [A[i][i + 1] for i in range(n - 1)]
        if fam == "gt":
            def mk():
                return vec(dl, 1), vec(dd, 0 if nat else 1), vec(du, 1)
            (Ml, ol), (Md, od), (Mu, ou) = mk()
            b = newB(B)
            offs = {} if nat else {"offsetdl": ol, "offsetd": od, "offsetdu": ou, "n": n}
            o = attempt(obs("driver"), lambda: lapack.gtsv(Ml, Md, Mu, b.M, **offs, **({} if b.natural else {"nrhs": nrhs}), **b.kw("B")))
            solcheck(o, b, X)
            xdrv = b.get() if o["raised"] == "none" else None
            out.append(o)
            for t in ("N", "T", "C"):
                (Ml, ol), (Md, od), (Mu, ou) = mk()
                offs = {} if nat else {"offsetdl": ol, "offsetd": od, "offsetdu": ou, "n": n}
                du2, ip = matrix(0.0, (max(0, n - 2) + 1, 1), tc), ipiv()
                o = obs("factor-solve")
                def go():
                    lapack.gttrf(Ml, Md, Mu, du2, ip, **offs)
                    bb = newB(rhs_for(t))
                    o["_b"] = bb
                    lapack.gttrs(Ml, Md, Mu, du2, ip, bb.M, trans=t, **offs, **({} if bb.natural else {"nrhs": nrhs}), **bb.kw("B"))
                attempt(o, go)
                bb = o.pop("_b", None)
                if bb is not None:
                    solcheck(o, bb, X)
                    if t == "N" and xdrv is not None and o["raised"] == "none":
                        o["same_as_driver"] = la.close(bb.get(), xdrv, TOL)
                out.append(o)
        else:
            # positive definite tridiagonal: d real, e the subdiagonal
            def mk():
                flatd = [x.real for x in dd]
                offd = 0 if nat else rnd.choice([0, 1])
                Md_ = matrix([CAN] * offd + flatd + ([] if nat else [CAN]), (offd + n + (0 if nat else 1), 1), "d")
                Me, oe = vec(dl, 1)
                return Md_, offd, Me, oe
            Md, od, Me, oe = mk()
            b = newB(B)
            offs = {} if nat else {"offsetd": od, "offsete": oe, "n": n}
            o = attempt(obs("chol-driver"), lambda: lapack.ptsv(Md, Me, b.M, **offs, **({} if b.natural else {"nrhs": nrhs}), **b.kw("B")))
            solcheck(o, b, X)
            xdrv = b.get() if o["raised"] == "none" else None
            out.append(o)
            for ul in (("L", "U") if tc == "z" else ("L",)):
                Md, od, Me, oe = mk()
                if ul == "U":
                    # e is then the superdiagonal of A = U^H D U
                    sup = [A[i][i + 1] for i in range(n - 1)]
                    Me, oe = vec(sup, 1)
                offs = {} if nat else {"offsetd": od, "offsete": oe, "n": n}
                o = obs("chol-factor")
                def go():
                    lapack.pttrf(Md, Me, **offs)
                    bb = newB(B)
                    o["_b"] = bb
                    lapack.pttrs(Md, Me, bb.M, **({"uplo": ul} if tc == "z" else {}), **offs, **({} if bb.natural else {"nrhs": nrhs}), **bb.kw("B"))
                attempt(o, go)
                bb = o.pop("_b", None)
                if bb is not None:
                    solcheck(o, bb, X)
                    if xdrv is not None and o["raised"] == "none":
                        o["same_as_driver"] = la.close(bb.get(), xdrv, TOL)
                out.append(o)
    elif fam == "po":
        for ul in ("L", "U"):
            a, b = Buf(rnd, tri_part(A, n, ul, 55.5), tc, natural=nat), newB(B)
            o = attempt(obs("chol-driver"), lambda: lapack.posv(a.M, b.M, uplo=ul, **dims(a, b), **a.kw("A"), **b.kw("B")))
            solcheck(o, b, X)
            o["outside_ok"] = o["outside_ok"] and a.outside_ok()
            if o["raised"] == "none" and solv:
                # the other triangle is not referenced
                g = a.get()
                o["outside_ok"] = o["outside_ok"] and all(g[i][j] == 55.5 for i in range(n) for j in range(n) if (i < j if ul == "L" else i > j))
            xdrv = b.get() if o["raised"] == "none" else None
            out.append(o)
            a = Buf(rnd, tri_part(A, n, ul, 55.5), tc, natural=nat)
            o = obs("chol-factor")
            def go():
                lapack.potrf(a.M, uplo=ul, **dims(a), **a.kw("A"))
                bb = newB(B)
                o["_b"] = bb
                lapack.potrs(a.M, bb.M, uplo=ul, **dims(a, bb), **a.kw("A"), **bb.kw("B"))
            attempt(o, go)
            bb = o.pop("_b", None)
            if bb is not None:
                solcheck(o, bb, X)
                if xdrv is not None and o["raised"] == "none":
                    o["same_as_driver"] = la.close(bb.get(), xdrv, TOL)
            if o["raised"] == "none" and solv:
                # the factor reproduces A:  L L^H  or  U^H U
                g = a.get()
                T = [[(g[i][j] if (i >= j if ul == "L" else i <= j) else 0j) for j in range(n)] for i in range(n)]
                o["recon_ok"] = la.close(la.mul(T, la.ct(T)) if ul == "L" else la.mul(la.ct(T), T), A, TOL)
            out.append(o)
            a = Buf(rnd, tri_part(A, n, ul, 55.5), tc, natural=nat)
            o = obs("chol-factor")
            def go():
                lapack.potrf(a.M, uplo=ul, **dims(a), **a.kw("A"))
                lapack.potri(a.M, uplo=ul, **dims(a), **a.kw("A"))
            attempt(o, go)
            if o["raised"] == "none" and solv:
                g = a.get()
                Ainv = [[(g[i][j] if (i >= j if ul == "L" else i <= j) else g[j][i].conjugate()) for j in range(n)] for i in range(n)]
                o["inv_ok"] = la.close(la.mul(A, Ainv), la.eye(n), TOL)
            o["outside_ok"] = a.outside_ok()
            out.append(o)
        # generalized symmetric-definite eigenproblems with the planted matrix as B (sygv / hegv): B must be positive definite
        gv = lapack.hegv if tc == "z" else lapack.sygv
        S = [[0j] * n for _ in range(n)]
        for i in range(n):
            for j in range(i, n):
                v = complex(rnd.randint(-3, 3), rnd.randint(-3, 3) if tc == "z" else 0)
                if i == j:
                    S[i][i] = complex(v.real, 0)
                else:
                    S[i][j], S[j][i] = v, v.conjugate()
        wref = {}
        for it in (1, 2, 3):
            for jobz in ("V", "N"):
                ul = rnd.choice(["L", "U"])
                a = Buf(rnd, tri_part(S, n, ul, 55.5), tc, natural=nat)
                b = Buf(rnd, tri_part(A, n, ul, 55.5), tc, natural=nat)
                W = matrix(CAN, (n + 1, 1), "d")
                o = obs("chol-factor")
                def go():
                    gv(a.M, b.M, W, itype=it, jobz=jobz, uplo=ul, **dims(a), **a.kw("A"), **b.kw("B"))
                    w = [W[i] for i in range(n)]
                    o["order_ok"] = all(w[i] <= w[i + 1] + 1e-9 * (1 + abs(w[i])) for i in range(n - 1)) and W[n] == CAN
                    if it in wref:
                        o["same_as_driver"] = all(abs(x - y) <= 1e-7 * (1 + abs(x)) for x, y in zip(w, wref[it]))
                    wref.setdefault(it, w)
                    if jobz == "V":
                        Z = a.get()
                        D = [[(w[i] if i == j else 0.0) for j in range(n)] for i in range(n)]
                        ZD = la.mul(Z, D)
                        if it == 1:
                            o["recon_ok"] = la.close(la.mul(S, Z), la.mul(A, ZD), 1e-7)
                        elif it == 2:
                            o["recon_ok"] = la.close(la.mul(S, la.mul(A, Z)), ZD, 1e-7)
                        else:
                            o["recon_ok"] = la.close(la.mul(A, la.mul(S, Z)), ZD, 1e-7)
                        if it in (1, 2):
                            o["orth_ok"] = la.close(la.mul(la.ct(Z), la.mul(A, Z)), la.eye(n), 1e-7)
                        else:
                            o["orth_ok"] = la.close(la.mul(Z, la.ct(Z)), A, 1e-7)
                    # B is replaced by its Cholesky factor (in the uplo triangle; the other triangle is not referenced)
                    g = b.get()
                    T = [[(g[i][j] if (i >= j if ul == "L" else i <= j) else 0j) for j in range(n)] for i in range(n)]
                    o["recon_ok"] = o["recon_ok"] and la.close(la.mul(T, la.ct(T)) if ul == "L" else la.mul(la.ct(T), T), A, TOL)
                    o["outside_ok"] = all(g[i][j] == 55.5 for i in range(n) for j in range(n) if (i < j if ul == "L" else i > j))
                attempt(o, go)
                o["outside_ok"] = o["outside_ok"] and a.outside_ok() and b.outside_ok()
                o["name"] = "%s:%d:%s" % ("hegv" if tc == "z" else "sygv", it, jobz)
                out.append(o)
    elif fam == "pb":
        kd = I["kl"]
        for ul in ("L", "U"):
            ab = sym_band_rows(A, n, kd, ul)
            a, b = Buf(rnd, ab, tc, natural=nat, nrows=kd + 1, ncols=n), newB(B)
            kw = {} if a.natural else {"n": n, "kd": kd}
            o = attempt(obs("chol-driver"), lambda: lapack.pbsv(a.M, b.M, uplo=ul, **kw, **({} if b.natural else {"nrhs": nrhs}), **a.kw("A"), **b.kw("B")))
            solcheck(o, b, X)
            o["outside_ok"] = o["outside_ok"] and a.outside_ok()
            xdrv = b.get() if o["raised"] == "none" else None
            out.append(o)
            a = Buf(rnd, ab, tc, natural=nat, nrows=kd + 1, ncols=n)
            o = obs("chol-factor")
            def go():
                lapack.pbtrf(a.M, uplo=ul, **kw, **a.kw("A"))
                bb = newB(B)
                o["_b"] = bb
                lapack.pbtrs(a.M, bb.M, uplo=ul, **kw, **({} if bb.natural else {"nrhs": nrhs}), **a.kw("A"), **bb.kw("B"))
            attempt(o, go)
            bb = o.pop("_b", None)
            if bb is not None:
                solcheck(o, bb, X)
                if xdrv is not None and o["raised"] == "none":
                    o["same_as_driver"] = la.close(bb.get(), xdrv, TOL)
            out.append(o)
    elif fam in ("sy", "he"):
        drv, trf, trs, tri = (lapack.hesv, lapack.hetrf, lapack.hetrs, lapack.hetri) if fam == "he" else (lapack.sysv, lapack.sytrf, lapack.sytrs, lapack.sytri)
        for ul in ("L", "U"):
            a, b = Buf(rnd, tri_part(A, n, ul, 55.5), tc, natural=nat), newB(B)
            o = attempt(obs("driver"), lambda: drv(a.M, b.M, uplo=ul, **dims(a, b), **a.kw("A"), **b.kw("B")))
            o["a_unchanged"] = a.unchanged()
            solcheck(o, b, X)
            xdrv = b.get() if o["raised"] == "none" else None
            out.append(o)
            a, b, ip = Buf(rnd, tri_part(A, n, ul, 55.5), tc, natural=nat), newB(B), ipiv()
            o = attempt(obs("driver"), lambda: drv(a.M, b.M, ip, uplo=ul, **dims(a, b), **a.kw("A"), **b.kw("B")))
            o["outside_ok"] = a.outside_ok()
            solcheck(o, b, X)
            out.append(o)
            a, ip = Buf(rnd, tri_part(A, n, ul, 55.5), tc, natural=True), ipiv()       # sytrf / hetrf take no offset
            o = obs("factor-solve")
            def go():
                trf(a.M, ip, uplo=ul)
                bb = newB(B)
                o["_b"] = bb
                trs(a.M, ip, bb.M, uplo=ul, **({} if bb.natural else {"nrhs": nrhs, "n": n}), **bb.kw("B"))
            attempt(o, go)
            bb = o.pop("_b", None)
            if bb is not None:
                solcheck(o, bb, X)
                if xdrv is not None and o["raised"] == "none":
                    o["same_as_driver"] = la.close(bb.get(), xdrv, TOL)
            out.append(o)
            a, ip = Buf(rnd, tri_part(A, n, ul, 55.5), tc, natural=True), ipiv()
            o = obs("invert")
            def go():
                trf(a.M, ip, uplo=ul)
                tri(a.M, ip, uplo=ul)
            attempt(o, go)
            if o["raised"] == "none" and solv:
                g = a.get()
                Ainv = [[(g[i][j] if (i >= j if ul == "L" else i <= j) else (g[j][i].conjugate() if fam == "he" else g[j][i])) for j in range(n)] for i in range(n)]
                o["inv_ok"] = la.close(la.mul(A, Ainv), la.eye(n), TOL)
            out.append(o)
    elif fam in ("tr", "tb"):
        kd = I["kl"]
        for t in ("N", "T", "C"):
            if fam == "tr":
                a = Buf(rnd, tri_part(A, n, uplo, 55.5), tc, natural=nat)
                kw = dims(a)
            else:
                a = Buf(rnd, sym_band_rows(A, n, kd, uplo), tc, natural=nat, nrows=kd + 1, ncols=n)
                kw = {} if a.natural else {"n": n, "kd": kd}
            bb = newB(rhs_for(t))
            f = lapack.trtrs if fam == "tr" else lapack.tbtrs
            o = attempt(obs("driver"), lambda: f(a.M, bb.M, uplo=uplo, trans=t, **kw, **({} if bb.natural else {"nrhs": nrhs}), **a.kw("A"), **bb.kw("B")))
            o["a_unchanged"] = a.unchanged()
            solcheck(o, bb, X)
            out.append(o)
        if fam == "tr":
            a = Buf(rnd, tri_part(A, n, uplo, 55.5), tc, natural=nat)
            o = attempt(obs("invert"), lambda: lapack.trtri(a.M, uplo=uplo, **dims(a), **a.kw("A")))
            if o["raised"] == "none" and solv:
                g = a.get()
                T = [[(g[i][j] if (i >= j if uplo == "L" else i <= j) else 0j) for j in range(n)] for i in range(n)]
                o["inv_ok"] = la.close(la.mul(A, T), la.eye(n), TOL)
                o["outside_ok"] = a.outside_ok() and all(g[i][j] == 55.5 for i in range(n) for j in range(n) if (i < j if uplo == "L" else i > j))
            out.append(o)
    # ---- inconsistent arguments (only from solvable dense-ish instances with something to address)
    if solv and n >= 2 and nrhs >= 1 and fam in ("ge", "po", "sy", "he", "tr"):
        drvs = {"ge": lambda a, b, **k: lapack.gesv(a, b, **k), "po": lambda a, b, **k: lapack.posv(a, b, **k),
                "sy": lambda a, b, **k: lapack.sysv(a, b, **k), "he": lambda a, b, **k: lapack.hesv(a, b, **k),
                "tr": lambda a, b, **k: lapack.trtrs(a, b, uplo=uplo, **k)}
        which = rnd.choice(["ldA", "ldB", "Bshort", "offA", "offB", "types", "Ashort", "nbig"])
        a, b = Buf(rnd, A, tc, natural=True), Buf(rnd, B, tc, natural=True, nrows=n, ncols=nrhs)
        kw = {}
        if which == "ldA":
            kw = {"ldA": n - 1}
        elif which == "ldB":
            kw = {"ldB": n - 1}
        elif which == "Bshort":
            b = Buf(rnd, B[:n - 1], tc, natural=True, nrows=n - 1, ncols=nrhs)
            kw = {"n": n}
        elif which == "offA":
            kw = {"offsetA": rnd.choice([-1, 1])}
        elif which == "offB":
            kw = {"offsetB": rnd.choice([-1, 1])}
        elif which == "types":
            b = Buf(rnd, B, "d" if tc == "z" else "z", natural=True, nrows=n, ncols=nrhs)
        elif which == "Ashort":
            a = Buf(rnd, [r[:n - 1] for r in A], tc, natural=True, nrows=n, ncols=n - 1)
            kw = {"n": n}
        else:
            kw = {"n": n + 1}
        o = attempt(obs("invalid"), lambda: drvs[fam](a.M, b.M, **kw))
        o["a_unchanged"] = a.unchanged()
        o["outside_ok"] = b.unchanged()
        o["which"] = which
        out.append(o)
    return out


# ------------------------------------------------------------------ factorisations of free matrices (QR, LQ, eigenvalues, SVD, Schur, least squares)
def run_free(seed):
    from cvxopt import matrix, lapack
    rnd = random.Random(seed)
    out = []
    tc = rnd.choice(["d", "z"])
    def rv():
        return complex(rnd.randint(-3, 3), rnd.randint(-3, 3) if tc == "z" else 0)
    def mat(rows, nat=True):
        return Buf(rnd, rows, tc, natural=nat)
    def orth(Q, cols=True):
        G = la.mul(la.ct(Q), Q) if cols else la.mul(Q, la.ct(Q))
        return la.close(G, la.eye(len(G)), 1e-9)
    m, n = rnd.randint(0, 4), rnd.randint(0, 4)
    A = [[rv() for _ in range(n)] for _ in range(m)]
    k = min(m, n)
    nat = rnd.random() < 0.5
    # --- QR: geqrf + (or|un)mqr applied to the identity gives Q; R is the upper triangle
    a = mat(A, nat)
    tau = matrix(0.0, (k + rnd.choice([0, 1]), 1), tc)
    kwA = ({} if a.natural else {"m": m, "n": n})
    mqr, gqr = (lapack.unmqr, lapack.ungqr) if tc == "z" else (lapack.ormqr, lapack.orgqr)
    o = obs("qr")
    def go():
        lapack.geqrf(a.M, tau, **kwA, **a.kw("A"))
        c = mat(la.eye(m) if tc == "d" else [[complex(x) for x in r] for r in la.eye(m)], True)
        if m > 0:
            mqr(a.M, tau, c.M, side="L", trans="N", k=k, **a.kw("A"))
        Q = c.get()
        g = a.get()
        R = [[(g[i][j] if i <= j else 0j) for j in range(n)] for i in range(m)]
        o["recon_ok"] = la.close(la.mul(Q, R), A, 1e-9)
        o["orth_ok"] = orth(Q)
        # Q^H applied from the left to A gives R; applied from the right side
        if m > 0 and n > 0:
            c2 = mat(A, True)
            mqr(a.M, tau, c2.M, side="L", trans=("C" if tc == "z" else "T"), k=k, **a.kw("A"))
            o["recon_ok"] = o["recon_ok"] and la.close(c2.get(), R, 1e-9)
            E = [[rv() for _ in range(m)] for _ in range(2)]
            c3 = mat(E, True)
            mqr(a.M, tau, c3.M, side="R", trans="N", k=k, **a.kw("A"))
            o["recon_ok"] = o["recon_ok"] and la.close(c3.get(), la.mul(E, Q), 1e-9)
        # the leading k columns of Q from (or|un)gqr
        if m >= n and n > 0:
            a2 = mat(A, True)
            t2 = matrix(0.0, (k, 1), tc)
            lapack.geqrf(a2.M, t2)
            gqr(a2.M, t2)
            o["recon_ok"] = o["recon_ok"] and la.close(a2.get(), [r[:n] for r in Q], 1e-9)
    attempt(o, go)
    o["outside_ok"] = a.outside_ok()
    out.append(o)
    # --- LQ
    a = mat(A, nat)
    tau = matrix(0.0, (k, 1), tc)
    mlq, glq = (lapack.unmlq, lapack.unglq) if tc == "z" else (lapack.ormlq, lapack.orglq)
    o = obs("qr")
    def go():
        lapack.gelqf(a.M, tau, **kwA, **a.kw("A"))
        c = mat([[complex(x) for x in r] for r in la.eye(n)], True)
        if n > 0:
            mlq(a.M, tau, c.M, side="L", trans="N", k=k, **a.kw("A"))
        Q = c.get()
        g = a.get()
        Lm = [[(g[i][j] if i >= j else 0j) for j in range(n)] for i in range(m)]
        o["recon_ok"] = la.close(la.mul(Lm, Q), A, 1e-9)
        o["orth_ok"] = orth(Q)
        if n >= m and m > 0:
            a2 = mat(A, True)
            t2 = matrix(0.0, (k, 1), tc)
            lapack.gelqf(a2.M, t2)
            glq(a2.M, t2)
            o["recon_ok"] = o["recon_ok"] and la.close(a2.get(), Q[:m], 1e-9)
    attempt(o, go)
    o["outside_ok"] = a.outside_ok()
    out.append(o)
    # --- QR with column pivoting
    a = mat(A, nat)
    tau = matrix(0.0, (k, 1), tc)
    jp = matrix(0, (n, 1), "i")
    o = obs("qr")
    def go():
        lapack.geqp3(a.M, jp, tau, **kwA, **a.kw("A"))
        c = mat([[complex(x) for x in r] for r in la.eye(m)], True)
        if m > 0:
            mqr(a.M, tau, c.M, side="L", trans="N", k=k, **a.kw("A"))
        Q = c.get()
        g = a.get()
        R = [[(g[i][j] if i <= j else 0j) for j in range(n)] for i in range(m)]
        perm = [int(p) - 1 for p in jp]
        if k == 0:
            perm = list(range(n))         # nothing to factor: LAPACK returns at once and leaves jpvt alone
        o["order_ok"] = sorted(perm) == list(range(n)) and all(abs(R[i][i]) >= abs(R[i + 1][i + 1]) - 1e-9 for i in range(k - 1))
        AP = [[A[i][perm[j]] for j in range(n)] for i in range(m)] if o["order_ok"] else A
        o["recon_ok"] = la.close(la.mul(Q, R), AP, 1e-9)
        o["orth_ok"] = orth(Q)
    attempt(o, go)
    out.append(o)
    # --- least squares / minimum norm
    nrhs = rnd.randint(0, 2)
    if m > 0 and n > 0:
        # full rank: random integer matrices of this size almost always are; the exact solution is computed in rationals
        qA = [[la.QC(int(x.real), int(x.imag)) for x in r] for r in A]
        Bm = [[rv() for _ in range(nrhs)] for _ in range(max(m, n))]
        try:
            if m >= n:
                G = la.q_mul(la.q_ct(qA), qA)
                rhs = la.q_mul(la.q_ct(qA), [[la.QC(int(x.real), int(x.imag)) for x in r] for r in Bm[:m]])
                Xq = la.q_solve(G, rhs)
            else:
                G = la.q_mul(qA, la.q_ct(qA))
                W = la.q_solve(G, [[la.QC(int(x.real), int(x.imag)) for x in r] for r in Bm[:m]])
                Xq = la.q_mul(la.q_ct(qA), W)
            Xs = la.q_float(Xq)
        except StopIteration:
            Xs = None            # rank deficient: gels is not defined for it
        if Xs is not None:
            a = mat(A, nat)
            b = Buf(rnd, Bm, tc, natural=nat, nrows=max(m, n), ncols=nrhs)
            o = attempt(obs("lls"), lambda: lapack.gels(a.M, b.M, **({} if a.natural else {"m": m, "n": n}), **({} if b.natural else {"nrhs": nrhs}), **a.kw("A"), **b.kw("B")))
            if o["raised"] == "none":
                o["sol_ok"] = la.close(b.get(n, nrhs), Xs, 1e-8)
                o["outside_ok"] = a.outside_ok() and b.outside_ok()
            out.append(o)
    # --- symmetric / Hermitian eigenvalue problems
    n = rnd.randint(0, 4)
    S = [[0j] * n for _ in range(n)]
    for i in range(n):
        for j in range(i, n):
            v = rv()
            if i == j:
                S[i][i] = complex(v.real, 0)
            else:
                S[i][j], S[j][i] = v, v.conjugate()
    ul = rnd.choice(["L", "U"])
    names = ["heev", "heevd", "heevr", "heevx"] if tc == "z" else ["syev", "syevd", "syevr", "syevx", "heev", "heevd"]
    wref = None
    for name in names:
        f = getattr(lapack, name)
        for jobz in ("V", "N"):
            a = mat(tri_part(S, n, ul, 55.5), nat)
            W = matrix(CAN, (n + 1, 1), "d")
            o = obs("eig")
            rng = name.endswith("r") or name.endswith("x")
            def go():
                kw = dict(jobz=jobz, uplo=ul, **({} if a.natural else {"n": n}), **a.kw("A"))
                if rng:
                    Zb = mat([[0j] * n for _ in range(n)], True)
                    cnt = f(a.M, W, Z=(Zb.M if jobz == "V" else None), **kw)
                    V = Zb.get()
                    o["order_ok"] = cnt == n
                else:
                    f(a.M, W, **kw)
                    V = a.get()
                w = [W[i] for i in range(n)]
                o["order_ok"] = o["order_ok"] and all(w[i] <= w[i + 1] + 1e-12 for i in range(n - 1)) and W[n] == CAN
                if jobz == "V":
                    D = [[(w[i] if i == j else 0.0) for j in range(n)] for i in range(n)]
                    o["recon_ok"] = la.close(la.mul(S, V), la.mul(V, D), 1e-9)
                    o["orth_ok"] = orth(V)
                o["_w"] = w
            attempt(o, go)
            w = o.pop("_w", None)
            if w is not None:
                if wref is None:
                    wref = w
                else:
                    o["same_as_driver"] = all(abs(x - y) <= 1e-9 * (1 + abs(x)) for x, y in zip(w, wref))
            o["outside_ok"] = a.outside_ok()
            o["name"] = name + ":" + jobz
            out.append(o)
    # range 'I' of the expert drivers: eigenvalues il..iu of the full spectrum
    if n >= 2 and wref is not None:
        for name in (["heevr", "heevx"] if tc == "z" else ["syevr", "syevx"]):
            il = rnd.randint(1, n)
            iu = rnd.randint(il, n)
            a = mat(tri_part(S, n, ul, 55.5), True)
            W = matrix(CAN, (n, 1), "d")
            Zb = mat([[0j] * (iu - il + 1) for _ in range(n)], True)
            o = obs("eig")
            def go():
                cnt = getattr(lapack, name)(a.M, W, jobz="V", range="I", uplo=ul, il=il, iu=iu, Z=Zb.M)
                w = [W[i] for i in range(cnt)]
                o["order_ok"] = cnt == iu - il + 1
                o["same_as_driver"] = all(abs(x - y) <= 1e-9 * (1 + abs(x)) for x, y in zip(w, wref[il - 1:iu]))
                V = Zb.get()
                D = [[(w[i] if i == j else 0.0) for j in range(cnt)] for i in range(cnt)]
                o["recon_ok"] = la.close(la.mul(S, V), la.mul(V, D), 1e-9)
                o["orth_ok"] = orth(V)
            attempt(o, go)
            o["name"] = name + ":I"
            out.append(o)
    # --- singular value decomposition
    m, n = rnd.randint(0, 4), rnd.randint(0, 4)
    A = [[rv() for _ in range(n)] for _ in range(m)]
    k = min(m, n)
    sref = None
    for name, jobs in (("gesvd", ["A", "S", "N"]), ("gesdd", ["A", "S", "N"])):
        for job in jobs:
            if m == 0 or n == 0:
                continue
            a = mat(A, nat)
            Sv = matrix(CAN, (k + 1, 1), "d")
            ur = m if job == "A" else k
            vr = n if job == "A" else k
            Ub = mat([[0j] * ur for _ in range(m)], True)
            Vb = mat([[0j] * n for _ in range(vr)], True)
            o = obs("svd")
            def go():
                kw = dict(**({} if a.natural else {"m": m, "n": n}), **a.kw("A"))
                if name == "gesvd":
                    if job == "N":
                        lapack.gesvd(a.M, Sv, **kw)
                    else:
                        lapack.gesvd(a.M, Sv, jobu=job, jobvt=job, U=Ub.M, Vt=Vb.M, **kw)
                else:
                    if job == "N":
                        lapack.gesdd(a.M, Sv, **kw)
                    else:
                        lapack.gesdd(a.M, Sv, jobz=job, U=Ub.M, Vt=Vb.M, **kw)
                s = [Sv[i] for i in range(k)]
                o["order_ok"] = all(s[i] >= s[i + 1] - 1e-12 for i in range(k - 1)) and all(x >= 0 for x in s) and Sv[k] == CAN
                if job != "N":
                    U, Vt = Ub.get(), Vb.get()
                    Sm = [[(s[i] if i == j else 0.0) for j in range(vr)] for i in range(ur)]
                    o["recon_ok"] = la.close(la.mul(la.mul(U, Sm), Vt), A, 1e-9)
                    o["orth_ok"] = orth(U) and orth(Vt, cols=False)
                o["_s"] = s
            attempt(o, go)
            s = o.pop("_s", None)
            if s is not None:
                if sref is None:
                    sref = s
                else:
                    o["same_as_driver"] = all(abs(x - y) <= 1e-9 * (1 + abs(x)) for x, y in zip(s, sref))
            o["outside_ok"] = a.outside_ok()
            o["name"] = name + ":" + job
            out.append(o)
    # --- Schur factorisation
    n = rnd.randint(0, 4)
    A = [[rv() for _ in range(n)] for _ in range(n)]
    a = mat(A, nat)
    ow = 0 if nat else rnd.choice([0, 1, 3])
    wfull = matrix(complex(CAN, CAN), (ow + n + 1, 1), "z")
    Vb = mat([[0j] * n for _ in range(n)], nat)
    o = obs("schur")
    def go():
        lapack.gees(a.M, wfull, Vb.M, **({} if a.natural else {"n": n, "offsetw": ow}), **a.kw("A"), **Vb.kw("V"))
        w = [wfull[ow + i] for i in range(n)]
        o["outside_ok"] = all(wfull[i] == complex(CAN, CAN) for i in range(len(wfull)) if not ow <= i < ow + n)
        T, Zm = a.get(), Vb.get()
        o["recon_ok"] = la.close(la.mul(la.mul(Zm, T), la.ct(Zm)), A, 1e-9)
        o["orth_ok"] = orth(Zm)
        if tc == "z":
            o["order_ok"] = all(abs(T[i][j]) <= 1e-12 for i in range(n) for j in range(i)) and all(abs(T[i][i] - w[i]) <= 1e-9 * (1 + abs(w[i])) for i in range(n))
        else:
            # quasi upper triangular: nothing below the first subdiagonal, no two consecutive subdiagonal entries
            sub = [abs(T[i + 1][i]) > 1e-12 for i in range(n - 1)]
            o["order_ok"] = all(abs(T[i][j]) <= 1e-12 for i in range(n) for j in range(i - 1)) and not any(sub[i] and sub[i + 1] for i in range(n - 2))
            # the eigenvalues reported are those of T: trace
            o["order_ok"] = o["order_ok"] and abs(sum(w) - sum(T[i][i] for i in range(n))) <= 1e-9 * (1 + abs(sum(w)))
    attempt(o, go)
    o["outside_ok"] = o["outside_ok"] and a.outside_ok() and Vb.outside_ok()
    out.append(o)
    # --- ordered Schur factorisation (select) and generalized Schur factorisation
    def schur_form_ok(T):
        if tc == "z":
            return all(abs(T[i][j]) <= 1e-10 for i in range(n) for j in range(i))
        sub = [abs(T[i + 1][i]) > 1e-10 for i in range(n - 1)]
        return all(abs(T[i][j]) <= 1e-10 for i in range(n) for j in range(i - 1)) and not any(sub[i] and sub[i + 1] for i in range(n - 2))
    a = mat(A, True)
    wv = matrix(complex(CAN, CAN), (n + 1, 1), "z")
    Vb = mat([[0j] * n for _ in range(n)], True)
    o = obs("schur")
    def go():
        sd = lapack.gees(a.M, wv, Vb.M, select=lambda z: z.real > 0.05)
        w = [wv[i] for i in range(n)]
        T, Zm = a.get(), Vb.get()
        o["recon_ok"] = la.close(la.mul(la.mul(Zm, T), la.ct(Zm)), A, 1e-8)
        o["orth_ok"] = orth(Zm)
        sel = [z.real > 0.05 for z in w]
        # the selected eigenvalues come first and are counted (values within rounding of the threshold are not judged)
        if all(abs(z.real - 0.05) > 1e-6 for z in w):
            o["order_ok"] = schur_form_ok(T) and sd == sum(sel) and sel == sorted(sel, reverse=True) and wv[n] == complex(CAN, CAN)
    attempt(o, go)
    if o["raised"] == "ArithmeticError":
        o = None                  # reordering can fail for ill-conditioned clusters (LAPACK info = n+1, n+2): documented as ArithmeticError
    if o is not None:
        o["name"] = "gees:select"
        out.append(o)
    B2 = [[rv() for _ in range(n)] for _ in range(n)]
    for use_sel in (False, True):
        a, b = mat(A, nat), mat(B2, nat)
        al = matrix(complex(CAN, CAN), (n + 1, 1), "z")
        be = matrix(CAN, (n + 1, 1), "d")
        Vl, Vr = mat([[0j] * n for _ in range(n)], True), mat([[0j] * n for _ in range(n)], True)
        o = obs("schur")
        fsel = (lambda u, v: u.real > 0.05 * abs(v)) if use_sel else None
        def go():
            sd = lapack.gges(a.M, b.M, al, be, Vl.M, Vr.M, **({"select": fsel} if use_sel else {}), **({} if a.natural else {"n": n}), **a.kw("A"), **b.kw("B"))
            Sm, Tm, L, R = a.get(), b.get(), Vl.get(), Vr.get()
            o["recon_ok"] = la.close(la.mul(la.mul(L, Sm), la.ct(R)), A, 1e-8) and la.close(la.mul(la.mul(L, Tm), la.ct(R)), B2, 1e-8)
            o["orth_ok"] = orth(L) and orth(R)
            o["order_ok"] = schur_form_ok(Sm) and all(abs(Tm[i][j]) <= 1e-10 for i in range(n) for j in range(i)) \
                and al[n] == complex(CAN, CAN) and be[n] == CAN
            if tc == "z":
                # a[i] / b[i] are the generalized eigenvalues S[i][i] / T[i][i]
                o["order_ok"] = o["order_ok"] and all(abs(al[i] * Tm[i][i] - be[i] * Sm[i][i]) <= 1e-8 * (1 + abs(al[i] * Tm[i][i])) for i in range(n))
            if use_sel:
                sel = [fsel(al[i], be[i]) for i in range(n)]
                if all(abs(al[i].real - 0.05 * abs(be[i])) > 1e-6 for i in range(n)):
                    o["order_ok"] = o["order_ok"] and sd == sum(sel) and sel == sorted(sel, reverse=True)
            else:
                o["order_ok"] = o["order_ok"] and sd == 0
        attempt(o, go)
        if o["raised"] == "ArithmeticError" and use_sel:
            continue
        o["outside_ok"] = a.outside_ok() and b.outside_ok()
        o["name"] = "gges:" + ("select" if use_sel else "plain")
        out.append(o)
    return out


def _job(args):
    from harness import isolate
    seed, ninst, nfree = args
    rnd = random.Random(seed)
    fams = ["ge", "gb", "gt", "po", "pb", "pt", "sy", "he", "tr", "tb"]
    res = []
    for i in range(ninst):
        I = gen_instance(rnd, fams[i % len(fams)])
        st, r = isolate.run_isolated(lambda s: run_instance(I, s), seed * 7919 + i, timeout=60)
        res.append({"I": I, "obs": r if st == "ok" else None, "crash": None if st == "ok" else "%s:%s" % (st, r)})
    for i in range(nfree):
        st, r = isolate.run_isolated(run_free, seed * 104729 + i, timeout=60)
        res.append({"I": None, "seed": seed * 104729 + i, "obs": r if st == "ok" else None, "crash": None if st == "ok" else "%s:%s" % (st, r)})
    return res


FREE = {"kind": "free", "n": 0, "nrhs": 0, "A": [], "kl": 0, "ku": 0, "sym": "n", "uplo": "L", "X": [], "B": [], "L": [], "U": [], "v": []}
OKEYS = ("call", "raised", "sol_ok", "a_unchanged", "same_as_driver", "inv_ok", "recon_ok", "orth_ok", "order_ok", "outside_ok")


def run(tier, seed, replay=None):
    ck = Check("C18", tier, seed)
    ck.clean_replays()
    quick = tier == "quick"
    ninst, nfree = (40, 25) if quick else (800, 450)
    ck.rule = ("%d planted systems (10 families: ge gb gt po pb pt sy he tr tb; ~15%% exactly singular / not positive definite) and %d free matrices "
               "per worker x 16, every routine of the family called on each; distinct = distinct (family, typecode, order, truth, call) classes" % (ninst, nfree))
    ck.trusted = ["TLC (Lapack.tla: truth of the planted instances in exact arithmetic, contract)", "harness/linalg.py (float residuals, exact rational least squares)"]
    ck.assumptions = ["small integer data: orders 0..4, entries |.| <= 3 (well conditioned: the planted solution must be reproduced to 1e-9)",
                      "least squares: rank-deficient random matrices are skipped (gels is not defined for them)"]
    parts = pmap(ck, _job, [(seed * 100 + i, ninst, nfree) for i in range(16)], "c18", timeout=PMAP_TIMEOUT, ctx="spawn")
    items = [x for p in parts for x in p]
    payload = []
    for x in items:
        payload.append({"I": tla_instance(x["I"]) if x["I"] else FREE,
                        "obs": [{k: o[k] for k in OKEYS} for o in (x["obs"] or [])]})
    exp = c12.tlc_batch(ck, "MC_Lapack", "l", payload, chunk=150, par=14)
    ck.states = max(ck.states, 1); ck.transitions = max(ck.transitions, 1)
    kinds = {}
    for x, e in zip(items, exp):
        I = x["I"]
        where = ("%s|%s|n=%d|nrhs=%d" % (I["fam"], I["tc"], I["n"], I["nrhs"])) if I else "free"
        if x["crash"]:
            ck.violation("lapack|hang-or-crash|%s" % (I["fam"] if I else "free"), "the calls for %s killed the interpreter (%s)" % (where, x["crash"]), {"instance": I, "seed": x.get("seed")})
            continue
        if not e["truth"]:
            ck.machinery_errors.append("TLC rejected the certificate of a planted instance: %s" % json.dumps(I)[:300])
            continue
        kinds[(I or FREE)["kind"]] = kinds.get((I or FREE)["kind"], 0) + 1
        for o, failed in zip(x["obs"], e["failed"]):
            ck.evaluations += 1
            ck.nontrivial("%s|%s|%s" % (where, (I or FREE)["kind"], o["call"] + ":" + o.get("name", o.get("which", ""))))
            for clause in failed:
                ck.violation("lapack|%s|%s|%s|%s" % (I["fam"] if I else o.get("name", o["call"]).split(":")[0], o["call"], clause, (I or FREE)["kind"]),
                             "%s: call %s %s violates '%s' (raised %s %s)" % (where, o["call"], o.get("name", o.get("which", "")), clause, o["raised"], o.get("msg", "")),
                             {"instance": I, "seed": x.get("seed"), "observation": o})
    ck.extra["truth_kinds"] = kinds
    ck.finish()
