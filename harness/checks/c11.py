"""C11 - modeling expressions evaluate to what their formula says.

Spec: ModelExpr.tla - denotational semantics (length under broadcasting, curvature, value) of the expression language of
cvxopt.modeling, written from modeling.rst; MC_ModelExpr evaluates it with TLC on every generated expression and also
checks that a term it classifies convex/concave/affine satisfies the midpoint inequality on the supplied assignments.
Binding: seeded random expression trees (variables of lengths 1-3 occurring several times, scalar / row / matrix coefficients,
dense and sparse constants, indexing with ints/slices/lists, sum, max, min, abs, nested) are built with the REAL operators;
compared with TLC's expectation: defined or refused, len(f), f.value() on every assignment (exact: integer data), acceptance as
constraint / objective according to curvature, and non-aliasing (+f and binary results are mutated in place afterwards and the
operands must not change)."""
import json, os, random
from harness import tlc
from harness.core import Check, pmap

PMAP_TIMEOUT = int(os.environ.get("VERIF_PMAP_TIMEOUT", "300"))
NONEI = 999
VARS = {"x": 1, "y": 2, "z": 3}


def rand_index(rnd, n):
    r = rnd.random()
    if r < 0.4:
        return {"t": "int", "v": rnd.randint(-n - 1, n)}
    if r < 0.75:
        def part():
            return NONEI if rnd.random() < 0.4 else rnd.randint(-n - 1, n + 1)
        return {"t": "slice", "a": part(), "b": part(), "c": rnd.choice([NONEI, NONEI, 1, -1, 2])}
    return {"t": "list", "vs": [rnd.randint(-n, n - 1) for _ in range(rnd.randint(1, 3))], "asmatrix": rnd.random() < 0.3}


def gen_term(rnd, depth, want_len=None):
    r = rnd.random()
    if depth == 0 or r < 0.18:
        if rnd.random() < 0.75:
            return {"op": "var", "v": rnd.choice(list(VARS))}
        n = rnd.choice([1, 1, 2, 3])
        # (a 1 by 1 SPARSE constant is neither documented as a scalar nor refused consistently: not generated)
        return {"op": "const", "c": [rnd.randint(-2, 3) for _ in range(n)], "form": rnd.choice(["list", "num", "sparse"] if n > 1 else ["list", "num"])}
    k = rnd.choice(["neg", "add", "add", "sub", "smul", "smul", "mmul", "mmul", "idx", "sum", "abs", "max", "min", "max1", "min1",
                    "div", "iadd", "isub", "imul", "idiv"])
    def sub():
        # modeling functions applied to pure constants are evaluated by Python / cvxopt.matrix: keep a variable below every operator
        for _ in range(20):
            u = gen_term(rnd, depth - 1)
            if has_var(u):
                return u
        return {"op": "var", "v": rnd.choice(list(VARS))}
    if k in ("neg", "abs", "sum", "max1", "min1"):
        return {"op": k, "a": sub()}
    if k in ("add", "sub"):
        return {"op": k, "a": gen_term(rnd, depth - 1), "b": gen_term(rnd, depth - 1), "swap": rnd.random() < 0.3}
    def fsub():
        # the left operand of an in-place form must be a function object (not a bare variable or a constant)
        for _ in range(20):
            u = gen_term(rnd, max(depth - 1, 1))
            if has_var(u) and u["op"] not in ("var", "const"):
                return u
        return {"op": "neg", "a": {"op": "var", "v": rnd.choice(list(VARS))}}
    if k in ("div", "idiv"):
        return {"op": k, "k": rnd.choice([-4, -2, -1, 2, 2, 4]), "a": sub() if k == "div" else fsub(), "form": rnd.choice(["int", "float", "1x1"])}
    if k == "imul":
        return {"op": k, "k": rnd.choice([-2, -1, 2, 3]), "a": fsub(), "form": rnd.choice(["int", "float", "1x1"])}
    if k in ("iadd", "isub"):
        return {"op": k, "a": fsub(), "b": gen_term(rnd, depth - 1)}
    if k == "smul":
        return {"op": "smul", "k": rnd.choice([-2, -1, 2, 3, 1]), "a": sub(), "right": rnd.random() < 0.3,
                "form": rnd.choice(["int", "float", "1x1"])}
    if k == "mmul":
        a = sub()
        c = rnd.choice([1, 2, 3])
        r_ = rnd.choice([1, 1, 2, 3])
        M = [[rnd.randint(-2, 2) for _ in range(c)] for _ in range(r_)]
        if r_ == 1 and c == 1 and M[0][0] == 0:
            M[0][0] = 2
        return {"op": "mmul", "M": M, "a": a, "sparse": rnd.random() < 0.4}
    if k == "idx":
        return {"op": "idx", "ix": rand_index(rnd, 3), "a": sub()}
    n = rnd.randint(2, 3)
    args = [gen_term(rnd, depth - 1) for _ in range(n)]
    if not any(has_var(a) for a in args):
        args[rnd.randrange(n)] = {"op": "var", "v": rnd.choice(list(VARS))}      # max/min of constants only is Python's built-in
    for a in args:
        if a["op"] == "const" and a.get("form") == "sparse":
            a["form"] = "list"       # documented arguments of max/min: numbers, dense 'd' matrices with one column, variables, functions
    return {"op": k, "args": args}


def clean(t):
    if isinstance(t, dict):
        d = {k: clean(v) for k, v in t.items() if k not in ("form", "swap", "right", "sparse", "asmatrix")}
        if t.get("op") == "const":
            d["sp"] = t.get("form") == "sparse"
        if t.get("op") == "mmul":
            d["sp"] = bool(t.get("sparse"))
        return d
    if isinstance(t, list):
        return [clean(v) for v in t]
    return t


def gen_envs(rnd):
    base = {v: [rnd.randint(-2, 3) for _ in range(n)] for v, n in VARS.items()}
    envs = [base]
    for _ in range(3):
        envs.append({v: [a + 2 * rnd.randint(-1, 1) for a in base[v]] for v in VARS})     # same parity: midpoints are integral
    return envs


# ---------------------------------------------------------------------------
def build(t, V, rec=None, top=True):
    """build the expression with the real operators; rec collects (object, is_function) of every intermediate result except the root and
    the left operands of in-place forms (those are the same object as the result)"""
    obj = _build(t, V, rec)
    if rec is not None and not top and t["op"] not in ("var", "const"):
        rec.append(obj)
    return obj


def _build(t, V, rec):
    from cvxopt import matrix, sparse, spmatrix
    import cvxopt.modeling as m
    op = t["op"]
    build = lambda u, V_, inplace_left=False: (_build(u, V_, rec) if inplace_left else globals()["build"](u, V_, rec, top=False))
    if op in ("iadd", "isub"):
        f = build(t["a"], V, True)
        g = build(t["b"], V)
        if op == "iadd":
            f += g
        else:
            f -= g
        return f
    if op in ("imul", "idiv", "div"):
        f = build(t["a"], V, op != "div")
        k = t["k"]
        kk = {"int": int(k), "float": float(k), "1x1": matrix([float(k)])}[t.get("form", "int")]
        if op == "imul":
            f *= kk
        elif op == "idiv":
            f /= kk
        else:
            f = f / kk
        return f
    if op == "var":
        return V[t["v"]]
    if op == "const":
        c = t["c"]
        if t.get("form") == "num" and len(c) == 1:
            return float(c[0]) if c[0] % 2 else int(c[0])
        M = matrix([float(v) for v in c], (len(c), 1), 'd')
        if t.get("form") == "sparse":
            return sparse(M)
        return M
    if op == "neg":
        return -build(t["a"], V)
    if op in ("add", "sub"):
        a, b = build(t["a"], V), build(t["b"], V)
        return (a + b) if op == "add" else (a - b)
    if op == "smul":
        a = build(t["a"], V)
        k = t["k"]
        kk = {"int": int(k), "float": float(k), "1x1": matrix([float(k)])}[t.get("form", "int")]
        return (a * kk) if t.get("right") else (kk * a)
    if op == "mmul":
        M = matrix([[float(v) for v in row] for row in t["M"]]).T       # rows given -> matrix (r x c)
        if t.get("sparse"):
            M = sparse(M)
        return M * build(t["a"], V)
    if op == "idx":
        ix = t["ix"]
        a = build(t["a"], V)
        if ix["t"] == "int":
            return a[ix["v"]]
        if ix["t"] == "slice":
            f = lambda v: None if v == NONEI else v
            return a[slice(f(ix["a"]), f(ix["b"]), f(ix["c"]))]
        if ix.get("asmatrix"):
            return a[matrix(ix["vs"], (len(ix["vs"]), 1), 'i')]
        return a[list(ix["vs"])]
    if op == "sum":
        return m.sum(build(t["a"], V))
    if op == "abs":
        return abs(build(t["a"], V))
    if op in ("max", "min"):
        args = [build(a, V) for a in t["args"]]
        return m.max(*args) if op == "max" else m.min(*args)
    if op == "max1":
        return m.max(build(t["a"], V))
    if op == "min1":
        return m.min(build(t["a"], V))
    raise ValueError(op)


def has_var(t):
    if t["op"] == "var":
        return True
    if t["op"] == "const":
        return False
    if "args" in t:
        return any(has_var(a) for a in t["args"])
    return has_var(t["a"]) or ("b" in t and has_var(t["b"]))


def _job(args):
    from harness import isolate
    seed, n, depth = args
    rnd = random.Random(seed)
    out = []
    batch = []
    while len(out) + len(batch) < n:
        t = gen_term(rnd, rnd.randint(1, depth))
        if not has_var(t):
            continue                      # pure constants are evaluated by Python / cvxopt.matrix, not by the modeling layer
        batch.append((t, gen_envs(rnd)))
        if len(batch) == 40 or len(out) + len(batch) >= n:
            st, res = isolate.run_isolated(_cases, batch, timeout=60)
            if st == "ok":
                out += res
            else:
                # find the culprit one by one
                for case in batch:
                    st1, res1 = isolate.run_isolated(_cases, [case], timeout=15)
                    if st1 == "ok":
                        out += res1
                    else:
                        out.append({"t": case[0], "envs": case[1], "obs": {"err": None, "crash": "%s:%s" % (st1, res1)}})
            batch = []
    return out


def _cases(batch):
    return [_one_case(t, envs) for t, envs in batch]


def _one_case(t, envs):
    import cvxopt.modeling as m
    from cvxopt import matrix
    if True:
        V = {v: m.variable(k, v) for v, k in VARS.items()}
        obs = {"err": None}
        try:
            rec = []
            f = build(t, V, rec)
            if not isinstance(f, (m._function, m.variable)):
                obs["err"] = "notfunction:" + type(f).__name__
            else:
                obs["len"] = len(f)
                # documented: "If any of the variables of f has value None, then f.value() returns None"
                v0 = f.value() if callable(getattr(f, "value", None)) else f.value
                obs["none_val"] = v0 is None
                vals = []
                for e in envs:
                    for v in VARS:
                        V[v].value = matrix([float(a) for a in e[v]], (VARS[v], 1), 'd')
                    val = f.value() if callable(getattr(f, "value", None)) else f.value
                    vals.append([float(a) for a in val])
                obs["vals"] = vals
                # acceptance according to curvature
                def ok(fn):
                    try:
                        fn()
                        return True
                    except Exception:
                        return False
                obs["le_ok"] = ok(lambda: f <= 0)
                obs["ge_ok"] = ok(lambda: f >= 0)
                obs["eq_ok"] = ok(lambda: f == 0)
                # aliasing.  (1) +f is a copy: an in-place update of the copy leaves f alone
                def valof(o):
                    if isinstance(o, (m._function, m.variable)):
                        w = o.value() if callable(getattr(o, "value", None)) else o.value
                        return None if w is None else [float(a) for a in w]
                    return [float(a) for a in o] if hasattr(o, "__iter__") else float(o)
                g = +f
                try:
                    g += 1.0
                    g *= 2.0
                except Exception:
                    pass
                noalias = valof(f) == vals[-1]
                # (2) the operators return new objects: updating the RESULT in place leaves every intermediate operand alone ...
                funcs = [o for o in rec if isinstance(o, m._function)]
                before = [valof(o) for o in funcs]
                if isinstance(f, m._function):
                    try:
                        f *= 2.0
                        f += 1.0
                    except Exception:
                        pass
                    noalias = noalias and [valof(o) for o in funcs] == before
                    # ... and (3) updating an operand in place afterwards leaves the result alone
                    after = valof(f)
                    for o in funcs:
                        try:
                            o *= 3.0
                            o += 1.0
                        except Exception:
                            pass
                    noalias = noalias and valof(f) == after
                obs["noalias"] = noalias
        except Exception as e:
            obs["err"] = type(e).__name__
        return {"t": t, "envs": envs, "obs": obs}


def shape_class(t):
    """coarse class of an expression for signatures / distinctness: multiset of operators + coefficient kinds"""
    ops = []
    def walk(u):
        ops.append(u["op"] + (":sp" if u.get("sparse") else "") + (":" + u["ix"]["t"] if u["op"] == "idx" else ""))
        for k in ("a", "b"):
            if k in u and isinstance(u[k], dict):
                walk(u[k])
        for a in u.get("args", []):
            walk(a)
    walk(t)
    return "+".join(sorted(set(ops)))


def coeff_pattern(t):
    """does one variable occur with coefficients of different shapes (scalar / row / matrix) - the merge cases of _addterm"""
    kinds = {}
    def walk(u, k):
        if u["op"] == "var":
            kinds.setdefault(u["v"], set()).add(k)
        elif u["op"] == "mmul":
            r, c = len(u["M"]), len(u["M"][0])
            walk(u["a"], ("spmat" if u.get("sparse") else "mat") + ("row" if r == 1 and c > 1 else ""))
        else:
            for key in ("a", "b"):
                if key in u and isinstance(u[key], dict):
                    walk(u[key], k)
            for a in u.get("args", []):
                walk(a, k)
    walk(t, "scalar")
    mixes = sorted("/".join(sorted(v)) for v in kinds.values() if len(v) > 1)
    return ",".join(mixes) or "-"


def run(tier, seed, replay=None):
    ck = Check("C11", tier, seed)
    ck.clean_replays()
    quick = tier == "quick"
    ck.rule = ("seeded random expression trees over variables of lengths 1, 2, 3 (depth <= 4; the same variable several times, scalar/row/matrix, "
               "dense/sparse coefficients) evaluated on 4 assignments each; distinct = distinct operator-set classes")
    ck.trusted = ["TLC (evaluates specs/ModelExpr.tla on every case)"]
    ck.assumptions = ["integer data, divisors are powers of two (values exact)"]
    n, depth = (3000, 3) if quick else (60000, 4)
    parts = pmap(ck, _job, [(seed * 100 + i, n // 16, depth) for i in range(16)], "c11", timeout=PMAP_TIMEOUT)
    cases = [c for p in parts for c in p]
    exp = []
    for c0 in range(0, len(cases), 4000):
        wd = tlc.workdir("c11/b%d" % (c0 // 4000))
        cf, of = os.path.join(wd, "cases.json"), os.path.join(wd, "out.json")
        json.dump([{"t": clean(c["t"]), "sz": VARS, "envs": c["envs"]} for c in cases[c0:c0 + 4000]], open(cf, "w"))
        r = tlc.run_tlc("MC_ModelExpr", "SPECIFICATION Spec\n", wd, workers=1, env={"CASE_FILE": cf, "OUT_FILE": of}, timeout=1500, heap="6g")
        if not ck.require_tlc_ok("MC_ModelExpr batch %d" % (c0 // 4000), r):
            ck.finish()
        exp += json.load(open(of))["res"]
    ck.states = max(ck.states, 1); ck.transitions = max(ck.transitions, 1)
    for c, e in zip(cases, exp):
        ck.evaluations += 1
        o = c["obs"]
        ck.nontrivial(shape_class(c["t"]))
        bad = None
        if o.get("crash"):
            ck.violation("modeling|hang-or-crash|%s" % o["crash"].split(":")[0], "building or evaluating the expression did not terminate / killed the interpreter (%s): %s" % (
                o["crash"], json.dumps(clean(c["t"]))[:300]), {"case": c})
            continue
        if e["defined"] and not e["really"]:
            ck.machinery_errors.append("specification: a term classified convex/concave violates the midpoint inequality: %r" % clean(c["t"]))
            continue
        if not e["defined"]:
            if o["err"] is None:
                bad = ("accepted-undefined", "an expression the documentation does not define (dimension mismatch or neither convex nor concave) was accepted")
        else:
            if o["err"] is not None:
                bad = ("refused-defined|" + o["err"], "a defined expression was refused with %s" % o["err"])
            elif o["len"] != e["len"]:
                bad = ("len", "len(f) = %d, specified %d" % (o["len"], e["len"]))
            elif [[int(a * e["den"]) if a * e["den"] == int(a * e["den"]) else a * e["den"] for a in v] for v in o["vals"]] != e["vals"]:
                bad = ("value", "f.value() = %s, specified %s / %d" % (o["vals"][0], e["vals"][0], e["den"]))
            elif not o.get("none_val", True):
                bad = ("value-none", "f.value() is not None although no variable has a value")
            elif not o["noalias"]:
                bad = ("alias", "the result shares state with a copy or an operand: an in-place update of one changed the value of the other")
            else:
                cv = e["curv"]
                want = {"le_ok": cv in (0, 1), "ge_ok": cv in (0, -1), "eq_ok": cv == 0}
                for k, w in want.items():
                    if o[k] != w:
                        bad = ("constraint-acceptance|%s|curv=%d" % (k, cv), "constraint %s: accepted=%s but the function is %s" % (
                            k, o[k], {0: "affine", 1: "convex", -1: "concave"}[cv]))
        if bad:
            sig = "modeling|%s|coeffs=%s" % (bad[0], coeff_pattern(c["t"]))
            ck.violation(sig, "%s; expression %s" % (bad[1], json.dumps(clean(c["t"]))[:300]), {"case": c, "expected": e})
    for c, e in list(zip(cases, exp))[:2]:
        ck.sample({"term": clean(c["t"]), "expected": e})
    ck.extra["defined_cases"] = sum(1 for e in exp if e["defined"])
    ck.extra["undefined_cases"] = sum(1 for e in exp if not e["defined"])
    ck.finish()
