"""C10 - numerical failures inside a solve are contained and reported as documented.

Specs: SolverContract (contract), ConeLP / ConeQP / CPL (faithful control models), SolverTrace.
 1. TLC checks the contract invariants on the faithful models for every position of a
    failing KKT call (exhaustively) and yields the set of fault classes.
 2. spec -> code (fault enumeration): for every planted instance the fault-free run is
    recorded (N_f factor calls, N_s solve calls), then the solve is repeated N_f + N_s times
    with ArithmeticError injected at each call index in turn.
 3. code -> spec: every run is a trace validated by TLC against the contract.
"""
import json, os, random, multiprocessing as mp
PMAP_TIMEOUT = int(__import__('os').environ.get('VERIF_PMAP_TIMEOUT', '300'))
from harness import tlc, plants, soltrace
from harness.core import Check

PROPS = ["Contained", "StartupFault", "LaterFault", "UnknownIsConsistent", "OnlyArgErrors"]
FAITHFUL_CFG = """CONSTANTS MaxIters = %d
Refinement = %d
MaxFaults = %d
F6Guarded = TRUE
SPECIFICATION Spec
INVARIANT PcOK
INVARIANT ItersBounded
INVARIANT Terminates
INVARIANT OptimalCert
INVARIANT OptimalDecision
INVARIANT PinfCert
INVARIANT DinfCert
INVARIANT IterBudget
INVARIANT Contained
INVARIANT StartupFault
INVARIANT LaterFault
INVARIANT UnknownIsConsistent
INVARIANT OnlyArgErrors
INVARIANT Iter0Rule
"""


def _job(args):
    from harness import solvedrv
    solver, I, cfgs = args
    out = []
    for cfg in cfgs:
        run = solvedrv.run_conelp if solver == "conelp" else solvedrv.run_coneqp
        kw = dict(cfg)
        try:
            tr0, info0 = run(I, truth=False, **kw)
        except Exception as e:
            out.append({"solver": solver, "id": I["id"], "cfg": cfg, "harness_error": repr(e)})
            continue
        out.append({"solver": solver, "id": I["id"], "cfg": cfg, "fault": None, "trace": tr0, "exc": info0["exc"], "status": info0["status"]})
        for kind, n in (("factor", info0["nf"]), ("solve", info0["ns"])):
            for idx in range(n):
                tr, info = run(I, truth=False, fault=(kind, idx), **kw)
                out.append({"solver": solver, "id": I["id"], "cfg": cfg, "fault": [kind, idx], "trace": tr, "exc": info["exc"],
                            "status": info["status"], "det": info["det"].get("fields")})
    return out


def model_fault_classes(ck, module, maxiters, refinement):
    wd = tlc.workdir("c10/" + module)
    cfg = FAITHFUL_CFG % (maxiters, refinement, 1)
    if module == "CPL":
        cfg = cfg.replace("SPECIFICATION Spec", "MaxRelaxed = 2\nMaxRefuse = 2\nSPECIFICATION Spec\nINVARIANT RelaxedRange\nINVARIANT SavedBeforeUse")
    r = tlc.run_tlc(module, cfg, wd, dump="graph", coverage=True)
    if not ck.require_tlc_ok("%s exhaustive MaxIters=%d Refinement=%d one fault anywhere" % (module, maxiters, refinement), r):
        return None
    if r.violated:
        ck.violation("spec|%s|%s" % (module, r.violated), "design-level: %s violates %s" % (module, r.violated), r.out[-3000:])
        return None
    nodes, edges, init = tlc.parse_dot(os.path.join(wd, "graph.dot"))
    classes = set()
    for st in nodes.values():
        fc = st.get("fclass")
        if fc and fc[0] != "none":
            classes.add((str(fc[0]), str(fc[1]), int(fc[2])))
    return classes


def run(tier, seed, replay=None):
    ck = Check("C10", tier, seed, level="fault_enumeration")
    ck.clean_replays()
    quick = tier == "quick"
    ck.rule = ("for each planted instance and configuration: the fault-free run, then one run per index of every KKT factor call and every "
               "KKT solve call with ArithmeticError injected there; distinct = distinct (solver, start configuration, phase, call kind, "
               "position within the iteration) classes of the first failing call")
    ck.trusted = ["TLC", "harness/solverrec.py (wraps cvxopt.misc.kkt_* from outside)", "harness/alpha.py for the consistency of 'unknown' results"]
    ck.assumptions = ["faults are injected as ArithmeticError raised by the KKT factor/solve routine, the documented failure signal of a KKT solver"]

    # 1. faithful models: contract invariants for every fault position; fault classes
    model_classes = {}
    for module, solver in (("ConeLP", "conelp"), ("ConeQP", "coneqp"), ("CPL", "cpl")):
        if not os.path.exists(os.path.join(tlc.SPECS, module + ".tla")):
            continue
        cl = set()
        for mi, rf in ((2, 0), (2, 1)) if quick else ((2, 0), (2, 1), (3, 1), (3, 2)):
            c = model_fault_classes(ck, module, mi, rf)
            if c is None:
                ck.finish()
            cl |= c
        model_classes[solver] = cl

    # 2. plants (truth verified by TLC) and the fault enumeration
    nlp, nqp = (40, 30) if quick else (400, 300)
    cands = plants.gen_candidates(seed, {"solvable": nlp, "pinf": nlp // 4, "dinf": nlp // 4})
    lp_inst = plants.tlc_accept(cands, "c10/plants_lp", ck)
    candq = plants.gen_candidates(seed + 1, {"solvable": nqp}, qp=True)
    qp_inst = plants.tlc_accept(candq, "c10/plants_qp", ck)
    rnd = random.Random(seed)
    jobs = []
    lp_cfgs = [dict(), dict(starts="both"), dict(starts="primal"), dict(kktsolver="ldl", options={"refinement": 1}),
               dict(kktsolver="qr", starts="dual"), dict(options={"maxiters": 3})]
    qp_cfgs = [dict(), dict(initvals=["x", "s", "y", "z"]), dict(kktsolver="ldl", options={"refinement": 1}), dict(options={"maxiters": 2})]
    for I in lp_inst:
        cfgs = [lp_cfgs[0]] + ([rnd.choice(lp_cfgs[1:])] if quick else lp_cfgs[1:])
        cfgs = [c for c in cfgs if not (c.get("starts") in ("both", "dual") and I["kind"] != "solvable")
                and not (c.get("starts") == "primal" and I["kind"] == "pinf")]
        jobs.append(("conelp", I, cfgs))
    for I in qp_inst:
        cfgs = [qp_cfgs[0]] + ([rnd.choice(qp_cfgs[1:])] if quick else qp_cfgs[1:])
        jobs.append(("coneqp", I, cfgs))
    from harness.core import pmap
    results = pmap(ck, _job, jobs, "c10", timeout=PMAP_TIMEOUT, chunksize=2)
    if results is None:
        ck.finish()
    runs = [r for rs in results for r in rs]
    # nonlinear solvers: cp / cpl / gp families, same enumeration
    from harness import nlsuite
    ncases = nlsuite.make_cases(lp_inst[:(16 if quick else 120)], rnd, per_inst=1)
    nl_cfgs = [dict(), dict(kktsolver="ldl", options={"refinement": 1}), dict(options={"maxiters": 4}), dict(sparse_F=True, storage="sparse")]
    njobs = []
    for cs in ncases:
        if cs["lin"] is not None and cs["lin"].get("kind") != "solvable":
            continue
        cf = [nl_cfgs[0]] + ([rnd.choice(nl_cfgs[1:])] if not quick else [])
        cf = [dict(c) for c in cf]
        for c in cf:
            if cs["entry"] == "gp":
                c.pop("sparse_F", None)
        njobs.append((cs, cf, True))
    # domain-restricted F that refuses trial points during the line search (fault-free runs; must backtrack, never raise)
    hard = nlsuite.hard_acent_cases(rnd, 40 if quick else 400)
    njobs += [(cs, [dict()], False) for cs in hard]
    from harness.core import pmap
    nres = pmap(ck, nlsuite._run, njobs, "c10", timeout=PMAP_TIMEOUT, chunksize=1)
    if nres is None:
        ck.finish()
    for rs in nres:
        for r in rs:
            r["cfg"] = {k: v for k, v in r["cfg"].items()}
            runs.append(r)
    for r in runs:
        if "harness_error" in r:
            ck.machinery_errors.append("driver failed: %r" % r)
    runs = [r for r in runs if "trace" in r]
    traces = [r["trace"] for r in runs]

    # 3. code -> spec
    verdict = soltrace.validate(ck, traces, "c10/traces")
    if verdict is None:
        ck.finish()
    seen_classes = {}
    refusal_runs = 0
    for i, r in enumerate(runs):
        v = verdict[i]
        ck.traces += 1
        if r["fault"] is not None:
            ck.evaluations += 1
        fc = soltrace.fault_class(r["trace"])
        if fc:
            bs = r["trace"][0]["cfg"]["bothstarts"]
            ck.nontrivial((r["solver"], bs) + fc)
            seen_classes.setdefault(r["solver"], set()).add(fc)
        if not v["accepted"]:
            ck.violation("%s|trace-rejected|%s" % (r["solver"], v["failed"][:1]), "trace not accepted by SolverTrace", r)
            continue
        if r.get("refused"):
            refusal_runs += 1
        for p in v["violated"]:
            if p not in PROPS and not (p == "NoRaiseOnWellPosed" and r["trace"][0]["cfg"]["truth"] == "solvable"):
                continue
            last = r["trace"][-1]
            outc = last["cls"] if last["ev"] == "Raise" else last["status"]
            cls = "%s@%s:pos%d" % (fc[1], fc[0], fc[2]) if fc else "nofault"
            sig = "%s|%s|%s|outcome=%s" % (r["solver"], p, cls, outc)
            ck.violation(sig, "%s with a failing KKT %s: %s violated (outcome %s)" % (r["solver"], cls, p, outc),
                         {"instance": r["id"], "cfg": r["cfg"], "fault": r["fault"], "trace": r["trace"], "det": r.get("det")})
    for r in runs[:2]:
        ck.sample({"solver": r["solver"], "cfg": r["cfg"], "fault": r["fault"], "trace": r["trace"][:12]})
    # coverage of the model's fault classes by the implementation runs (position capped by the model's refinement range)
    cov = {}
    for solver, mc in model_classes.items():
        sc = seen_classes.get(solver, set())
        cov[solver] = {"model_classes": len(mc), "exercised": len(mc & sc),
                       "model_only": sorted(mc - sc)[:20], "impl_only": sorted(sc - mc)[:20]}
        for c in sorted(sc - mc):
            ck.drift.append("fault class %s of %s not produced by the faithful model" % (c, solver))
    ck.extra["fault_classes"] = cov
    ck.extra["runs_with_domain_refusals"] = refusal_runs
    ck.extra["instances"] = {"conelp": len(lp_inst), "coneqp": len(qp_inst)}
    ck.finish()
