"""C12 - op.solve() solves the piecewise-linear problem that was written down.

Spec: ModelLP.tla (over ModelExpr.tla): the meaning of a problem (minimise Eval(obj) subject to Holds(c)), the linear program it
denotes by the epigraph construction (LP, formed independently of modeling.py), the epigraph lemma checked by TLC on grid
points, exact truth of the LP decided by TLC from rational certificates (Truth, PStar) and bound to the problem's semantics on
the grid (GridBound), and the contract of op.solve (Failed, SameResult).
Binding (spec -> code): every generated problem is built with the REAL operators and solved with the four format/solver
combinations in a crash-isolated child; alpha abstracts each call into the booleans of the contract (constraints evaluated
with an evaluator that must first reproduce every value TLC computed; optimal value compared with TLC's p*; multipliers
checked as a dual solution through the Lagrangian of the ORIGINAL piecewise-linear problem, minimised exactly over a box
around the returned solution); TLC judges."""
import json, os, random
from fractions import Fraction as Fr
from harness import tlc, exactlp
from harness.core import Check, pmap
from harness.checks import c11

PMAP_TIMEOUT = int(os.environ.get("VERIF_PMAP_TIMEOUT", "300"))
NONEI = 999
COMBOS = [("dense", "default"), ("sparse", "default"), ("dense", "glpk"), ("sparse", "glpk")]
SEQ_COMBOS = [("dense", "default"), ("sparse", "glpk")]
POOL = [("x", 1), ("y", 2), ("z", 3), ("w", 1), ("u", 2)]
BOX_R = 8


# ------------------------------------------------------------------ generator
class Gen(object):
    def __init__(self, rnd, sz):
        self.r, self.sz = rnd, sz
        self.names = list(sz)

    def const(self, L, lo=-3, hi=4):
        r = self.r
        if L == 1 or r.random() < 0.35:
            return {"op": "const", "c": [r.randint(lo, hi)], "form": r.choice(["num", "list"])}
        return {"op": "const", "c": [r.randint(lo, hi) for _ in range(L)], "form": r.choice(["list", "list", "sparse"])}

    def atom(self, L):
        """an affine term of length L (or of length 1 where broadcasting allows it) containing a variable"""
        r = self.r
        for _ in range(50):
            v = r.choice(self.names)
            s = self.sz[v]
            var = {"op": "var", "v": v}
            k = r.random()
            if s == 1 and L > 1 and k < 0.5:
                # a scalar variable in a vector expression is broadcast (scalar coefficient)
                return var if k < 0.25 else {"op": "smul", "k": r.choice([-2, -1, 2, 3]), "a": var, "right": r.random() < 0.3,
                                              "form": r.choice(["int", "float", "1x1"])}
            if k < 0.25 and s == L:
                return var if r.random() < 0.5 else {"op": "smul", "k": r.choice([-2, -1, 2, 3]), "a": var, "right": r.random() < 0.3,
                                                    "form": r.choice(["int", "float", "1x1"])}
            if k < 0.55:
                M = [[r.randint(-2, 3) for _ in range(s)] for _ in range(L)]
                if L == 1 and s == 1 and M[0][0] == 0:
                    M[0][0] = 1
                if all(a == 0 for row in M for a in row):
                    M[0][0] = 1
                return {"op": "mmul", "M": M, "a": var, "sparse": r.random() < 0.35}
            if k < 0.65 and L == 1:
                return {"op": "sum", "a": var}
            if k < 0.75 and L == 1:
                return {"op": "idx", "ix": {"t": "int", "v": r.randint(-s, s - 1)}, "a": var}
            if k < 0.85 and s > L >= 1:
                a = r.randint(0, s - L)
                if r.random() < 0.5:
                    return {"op": "idx", "ix": {"t": "slice", "a": a, "b": a + L, "c": NONEI}, "a": var}
                return {"op": "idx", "ix": {"t": "list", "vs": r.sample(range(s), L), "asmatrix": r.random() < 0.3}, "a": var}
            if k >= 0.85 and s == 1 and L > 1:
                return var                                  # a scalar variable is broadcast
        v = self.names[0]
        return {"op": "mmul", "M": [[1] * self.sz[v] for _ in range(L)], "a": {"op": "var", "v": v}, "sparse": False}

    def affine(self, L, withconst=True):
        r = self.r
        t = self.atom(L)
        for _ in range(r.choice([0, 0, 1, 1, 2])):
            t = {"op": r.choice(["add", "add", "sub"]), "a": t, "b": self.atom(L)}
        if withconst and r.random() < 0.6:
            t = {"op": r.choice(["add", "sub"]), "a": t, "b": self.const(L)}
        return self.fix_len(t, L)

    def fix_len(self, t, L):
        # broadcasting may have left a term of length 1 where L was wanted (all atoms scalar): acceptable operands of a vector
        return t

    def convex(self, L, depth=2):
        """convex (or affine) term of length L or 1"""
        r = self.r
        k = r.random()
        if depth == 0 or k < 0.25:
            return self.affine(L)
        if k < 0.45:
            return {"op": "abs", "a": self.affine(L)}
        if k < 0.65:
            args = [self.convex(L, depth - 1) for _ in range(r.randint(2, 3))]
            if r.random() < 0.4:
                args[r.randrange(len(args))] = self.const(L, 0, 2)
                if not any(c11.has_var(a) for a in args):
                    args[0] = self.affine(L)
            for a in args:
                if a["op"] == "const" and a.get("form") == "sparse":
                    a["form"] = "list"
            return {"op": "max", "args": args}
        if k < 0.75:
            return {"op": "smul", "k": r.choice([2, 3]), "a": self.convex(L, depth - 1), "right": r.random() < 0.3, "form": r.choice(["int", "float"])}
        if k < 0.82:
            return {"op": "add", "a": self.convex(L, depth - 1), "b": self.convex(L, depth - 1)}
        if k < 0.90:
            # single-argument max (a scalar) of vectors added to a vector expression: max(u) + max(v) + f
            t = {"op": "max1", "a": self.affine(r.choice([2, 3]))}
            if r.random() < 0.6:
                t = {"op": "add", "a": t, "b": {"op": "max1", "a": self.affine(r.choice([2, 3]))}}
            return {"op": "add", "a": t, "b": self.affine(L)} if r.random() < 0.7 else t
        # minus a concave function
        args = [self.affine(L) for _ in range(2)]
        return {"op": "neg", "a": {"op": "min", "args": args}}

    def convex_scalar(self):
        r = self.r
        k = r.random()
        L = r.choice([1, 2, 2, 3])
        if k < 0.25:
            return self.affine(1)
        if k < 0.45:
            return {"op": "sum", "a": self.convex(L)}
        if k < 0.6:
            return {"op": "max1", "a": self.convex(L, 1)}
        if k < 0.75:
            return {"op": "add", "a": self.convex_scalar_simple(), "b": self.convex_scalar_simple()}
        if k < 0.85:
            second = self.const(L, 0, 1) if r.random() < 0.7 else self.affine(L)
            if second.get("form") == "sparse":
                second["form"] = "list"
            return {"op": "sum", "a": {"op": "max", "args": [self.affine(L), second]}}
        return self.convex(1)

    def convex_scalar_simple(self):
        r = self.r
        L = r.choice([1, 2, 3])
        k = r.random()
        if k < 0.3:
            return self.affine(1)
        if k < 0.6:
            return {"op": "sum", "a": {"op": "abs", "a": self.affine(L)}}
        if k < 0.8:
            return {"op": "max1", "a": self.affine(L)}
        return {"op": "sum", "a": {"op": "max", "args": [self.affine(L), self.affine(L)]}}

    def constraint(self):
        r = self.r
        k = r.random()
        L = r.choice([1, 1, 2, 3])
        if k < 0.30:
            return {"a": self.affine(L), "rel": r.choice(["<=", ">="]), "b": self.const(L) if r.random() < 0.7 else self.affine(L)}
        if k < 0.55:
            return {"a": self.convex(L), "rel": "<=", "b": self.const(L, 0, 6) if r.random() < 0.7 else self.affine(L)}
        if k < 0.65:
            return {"a": self.affine(L), "rel": ">=", "b": self.convex(L, 1)}
        if k < 0.75:
            return {"a": {"op": "min", "args": [self.affine(L), self.affine(L)]}, "rel": ">=", "b": self.const(L, -4, 1)}
        if k < 0.90:
            return {"a": self.affine(L), "rel": "==", "b": self.const(L) if r.random() < 0.6 else self.affine(L)}
        if k < 0.95:
            return {"a": {"op": "sum", "a": {"op": "abs", "a": self.affine(L)}}, "rel": "<=", "b": self.const(1, 0, 8)}
        # constants-only constraint: 0*v + c1 <= c2
        v = r.choice(self.names)
        z = {"op": "smul", "k": 0, "a": {"op": "var", "v": v}, "form": "int"}
        return {"a": {"op": "add", "a": z, "b": self.const(self.sz[v], -1, 2)}, "rel": r.choice(["<=", ">="]), "b": self.const(1, -1, 2)}

    def box(self, v):
        r = self.r
        var = {"op": "var", "v": v}
        k = r.random()
        B = r.randint(1, 4)
        if k < 0.4:
            return [{"a": {"op": "abs", "a": var}, "rel": "<=", "b": {"op": "const", "c": [B], "form": "num"}}]
        if k < 0.8:
            lo = {"op": "const", "c": [r.randint(-3, 0)], "form": "num"}
            hi = {"op": "const", "c": [r.randint(1, 4)], "form": "num"}
            return [{"a": var, "rel": ">=", "b": lo}, {"a": var, "rel": "<=", "b": hi}]
        return [{"a": {"op": "max1", "a": {"op": "abs", "a": var}}, "rel": "<=", "b": {"op": "const", "c": [B], "form": "num"}}] if self.sz[v] > 1 \
            else [{"a": var, "rel": ">=", "b": {"op": "const", "c": [-B], "form": "num"}}, {"a": var, "rel": "<=", "b": {"op": "const", "c": [B], "form": "num"}}]


def label(t, counter):
    if isinstance(t, dict):
        if t.get("op") in ("max", "min", "abs", "max1", "min1"):
            counter[0] += 1
            t["nid"] = counter[0]
        for k in ("a", "b"):
            if isinstance(t.get(k), dict):
                label(t[k], counter)
        for a in t.get("args", []):
            label(a, counter)


def term_vars(t, out, live=None):
    """names of all variables in t (out) and of those that do not only occur under a multiplication by 0 (live)"""
    if t["op"] == "var":
        out.add(t["v"])
        if live is not None:
            live.add(t["v"])
    if t["op"] == "smul" and t["k"] == 0:
        live = None
    for k in ("a", "b"):
        if isinstance(t.get(k), dict):
            term_vars(t[k], out, live)
    for a in t.get("args", []):
        term_vars(a, out, live)
    return out


def gen_matrix_form(rnd, v, n, boxed):
    """objective c'x, one inequality A x <= b with a full matrix and a full right-hand side, optionally one equality: the form op.solve hands to
    solvers.lp without conversion (it then works directly on the user's variable and constraints)"""
    var = {"op": "var", "v": v}
    sparse = rnd.random() < 0.5
    rows = [[rnd.randint(-2, 3) for _ in range(n)] for _ in range(rnd.randint(1, 3))]
    rhs = [rnd.randint(-2, 5) for _ in rows]
    if boxed:
        for i in range(n):
            rows.append([1 if j == i else 0 for j in range(n)]); rhs.append(rnd.randint(1, 4))
            rows.append([-1 if j == i else 0 for j in range(n)]); rhs.append(rnd.randint(0, 3))
    cons = [{"a": {"op": "mmul", "M": rows, "a": var, "sparse": sparse}, "rel": "<=", "b": {"op": "const", "c": rhs, "form": "list"}}]
    if rnd.random() < 0.4 and n > 1:
        B = [[rnd.randint(-2, 2) for _ in range(n)]]
        if not any(B[0]):
            B[0][0] = 1
        cons.append({"a": {"op": "mmul", "M": B, "a": var, "sparse": sparse}, "rel": "==", "b": {"op": "const", "c": [rnd.randint(-2, 2)], "form": "list"}})
    c = [[rnd.randint(-3, 3) for _ in range(n)]]
    if not any(c[0]):
        c[0][0] = 1
    obj = {"op": "mmul", "M": c, "a": var, "sparse": False}
    envs = [{v: [rnd.randint(-3, 3) for _ in range(n)]} for _ in range(6)] + [{v: [0] * n}]
    return {"sz": {v: n}, "vo": [v], "obj": obj, "cons": cons, "envs": envs}


def gen_problem(rnd):
    if rnd.random() < 0.12:
        # two problems in matrix form that SHARE the variable: solve the first, then the second - nothing of the first may survive
        v, n = rnd.choice([("y", 2), ("z", 3), ("u", 2)])
        P = gen_matrix_form(rnd, v, n, True)
        P2 = gen_matrix_form(rnd, v, n, rnd.random() < 0.3)
        P2["envs"] = P["envs"]
        P["seq"] = {"kind": "share", "P2": P2}
        return P
    nv = rnd.choice([1, 2, 2, 3])
    chosen = rnd.sample(POOL, nv)
    sz = {v: s for v, s in chosen}
    g = Gen(rnd, sz)
    obj = g.convex_scalar()
    cons = []
    boxed = rnd.random() < 0.8
    for v in sz:
        if boxed or rnd.random() < 0.5:
            cons += g.box(v)
    for _ in range(rnd.choice([0, 1, 1, 2, 3])):
        cons.append(g.constraint())
    rnd.shuffle(cons)
    cnt = [0]
    label(obj, cnt)
    for c in cons:
        label(c["a"], cnt)
        label(c["b"], cnt)
    # only variables that occur are variables of the problem
    used, live = set(), set()
    term_vars(obj, used, live)
    for c in cons:
        term_vars(c["a"], used, live)
        term_vars(c["b"], used, live)
    sz = {v: s for v, s in sz.items() if v in used}
    envs = []
    for _ in range(6):
        envs.append({v: [rnd.randint(-3, 3) for _ in range(s)] for v, s in sz.items()})
    envs.append({v: [0] * s for v, s in sz.items()})
    P = {"sz": sz, "vo": sorted(live), "obj": obj, "cons": cons, "envs": envs}
    r = rnd.random()
    if r < 0.15 and live:
        # then add two contradictory constraints to the solved op: the problem becomes infeasible
        v = rnd.choice(sorted(live))
        t = {"op": "idx", "ix": {"t": "int", "v": 0}, "a": {"op": "var", "v": v}} if rnd.random() < 0.5 else {"op": "sum", "a": {"op": "var", "v": v}}
        P["seq"] = {"kind": "add", "extra": [{"a": t, "rel": ">=", "b": {"op": "const", "c": [50], "form": "num"}},
                                             {"a": t, "rel": "<=", "b": {"op": "const", "c": [40], "form": "num"}}]}
    elif r < 0.30 and len(cons) >= 2:
        # then delete some constraints and replace the objective: typically unbounded
        drop = sorted(rnd.sample(range(len(cons)), rnd.randint(1, len(cons) - 1)))
        P["seq"] = {"kind": "del", "drop": drop, "obj": Gen(rnd, sz).affine(1)}
    return P


def seq_problem(P):
    """the problem after the edit sequence"""
    q = P["seq"]
    if q["kind"] == "share":
        return dict(q["P2"])
    if q["kind"] == "add":
        P2 = dict(P, cons=P["cons"] + q["extra"])
    else:
        P2 = dict(P, cons=[c for i, c in enumerate(P["cons"]) if i not in q["drop"]], obj=q["obj"])
    used, live = set(), set()
    term_vars(P2["obj"], used, live)
    for c in P2["cons"]:
        term_vars(c["a"], used, live)
        term_vars(c["b"], used, live)
    P2 = dict(P2, vo=sorted(live), sz={v: s for v, s in P["sz"].items() if v in used}, envs=[{v: e[v] for v in used} for e in P["envs"]])
    P2.pop("seq")
    return P2


def clean_problem(P):
    return {"sz": P["sz"], "vo": P["vo"], "obj": c11.clean(P["obj"]), "envs": P["envs"],
            "cons": [{"a": c11.clean(c["a"]), "rel": c["rel"], "b": c11.clean(c["b"])} for c in P["cons"]]}


# ------------------------------------------------------------------ python evaluator (validated against TLC's Eval before use)
def positions(ix, n):
    if ix["t"] == "int":
        return [ix["v"] % n]
    if ix["t"] == "slice":
        f = lambda v: None if v == NONEI else v
        return list(range(n))[slice(f(ix["a"]), f(ix["b"]), f(ix["c"]))]
    return [v % n for v in ix["vs"]]


def pyeval(t, e):
    op = t["op"]
    if op == "var":
        return list(e[t["v"]])
    if op == "const":
        return [Fr(v) for v in t["c"]]
    if op == "neg":
        return [-a for a in pyeval(t["a"], e)]
    if op in ("add", "sub"):
        a, b = pyeval(t["a"], e), pyeval(t["b"], e)
        L = max(len(a), len(b))
        a = a * L if len(a) == 1 else a
        b = b * L if len(b) == 1 else b
        return [x + y if op == "add" else x - y for x, y in zip(a, b)]
    if op == "smul":
        return [t["k"] * a for a in pyeval(t["a"], e)]
    if op == "mmul":
        a = pyeval(t["a"], e)
        M = t["M"]
        if len(M[0]) == len(a):
            return [sum(M[r][j] * a[j] for j in range(len(a))) for r in range(len(M))]
        return [M[0][0] * v for v in a]
    if op == "idx":
        a = pyeval(t["a"], e)
        return [a[p] for p in positions(t["ix"], len(a))]
    if op == "sum":
        return [sum(pyeval(t["a"], e))]
    if op == "abs":
        return [abs(a) for a in pyeval(t["a"], e)]
    if op in ("max", "min"):
        vs = [pyeval(a, e) for a in t["args"]]
        L = max(len(v) for v in vs)
        vs = [v * L if len(v) == 1 else v for v in vs]
        f = max if op == "max" else min
        return [f(v[k] for v in vs) for k in range(L)]
    if op == "max1":
        return [max(pyeval(t["a"], e))]
    if op == "min1":
        return [min(pyeval(t["a"], e))]
    raise ValueError(op)


def cfun(c):
    return {"op": "sub", "a": c["b"], "b": c["a"]} if c["rel"] == ">=" else {"op": "sub", "a": c["a"], "b": c["b"]}


# ------------------------------------------------------------------ real code
def _observe(o, prob, V, cons, P):
    o["status"] = prob.status
    o["vars"] = {v: (None if V[v].value is None else [float(a) for a in V[v].value]) for v in P["vo"]}
    o["mults"] = [None if c.multiplier.value is None else [float(a) for a in c.multiplier.value] for c in cons]
    o["mlens"] = [len(c.multiplier) for c in cons]
    o["clens"] = [len(c) for c in cons]
    ov = prob.objective.value()          # documented: None when a variable has no value
    o["obj"] = None if ov is None else [float(a) for a in ov]
    o["nvars"] = len(prob.variables())


def _mkcons(c, V):
    a, b = c11.build(c["a"], V), c11.build(c["b"], V)
    return (a <= b) if c["rel"] == "<=" else (a >= b) if c["rel"] == ">=" else (a == b)


def _solve_real(P):
    """in a child: build with the real operators and solve with the four combinations (fresh objects each time); for an edit sequence:
    solve, edit the SAME op (addconstraint / delconstraint / objective), solve again"""
    import cvxopt.modeling as m
    from cvxopt import matrix, solvers
    solvers.options["show_progress"] = False
    solvers.options["glpk"] = {"msg_lev": "GLP_MSG_OFF"}
    out = []
    for fmt, solver in COMBOS:
        o = {"raised": None}
        try:
            V = {v: m.variable(s, v) for v, s in P["sz"].items()}
            obj = c11.build(P["obj"], V)
            cons = [_mkcons(c, V) for c in P["cons"]]
            prob = m.op(obj, cons)
            prob.solve(fmt, solver)
            _observe(o, prob, V, cons, P)
        except Exception as e:
            o["raised"] = "%s: %s" % (type(e).__name__, str(e)[:120])
        out.append(o)
    seq = []
    if "seq" in P:
        q = P["seq"]
        P2 = seq_problem(P)
        for fmt, solver in SEQ_COMBOS:
            o = {"raised": None}
            try:
                V = {v: m.variable(s, v) for v, s in P["sz"].items()}
                cons = [_mkcons(c, V) for c in P["cons"]]
                prob = m.op(c11.build(P["obj"], V), cons)
                try:
                    prob.solve(fmt, solver)
                    o["first"] = prob.status
                except Exception as e:
                    o["first"] = "raised " + type(e).__name__
                if q["kind"] == "share":
                    cons2 = [_mkcons(c, V) for c in P2["cons"]]
                    prob = m.op(c11.build(P2["obj"], V), cons2)
                elif q["kind"] == "add":
                    extra = [_mkcons(c, V) for c in q["extra"]]
                    for c in extra:
                        prob.addconstraint(c)
                    cons2 = cons + extra
                else:
                    for i in q["drop"]:
                        prob.delconstraint(cons[i])
                    prob.objective = c11.build(q["obj"], V)
                    cons2 = [c for i, c in enumerate(cons) if i not in q["drop"]]
                prob.solve(fmt, solver)
                _observe(o, prob, V, cons2, P2)
            except Exception as e:
                o["raised"] = "%s: %s" % (type(e).__name__, str(e)[:120])
            seq.append(o)
    return {"fresh": out, "seq": seq}


def _job(args):
    from harness import isolate
    seed, n = args
    rnd = random.Random(seed)
    out = []
    batch = [gen_problem(rnd) for _ in range(n)]
    for c0 in range(0, n, 10):
        chunk = batch[c0:c0 + 10]
        st, res = isolate.run_isolated(lambda ch: [_solve_real(P) for P in ch], chunk, timeout=120)
        if st != "ok":
            res = []
            for P in chunk:
                st1, res1 = isolate.run_isolated(_solve_real, P, timeout=40)
                res.append(res1 if st1 == "ok" else "%s:%s" % (st1, res1))
        for P, r in zip(chunk, res):
            if isinstance(r, str):
                out.append({"P": P, "crash": r, "combos": COMBOS})
                continue
            out.append({"P": {k: v for k, v in P.items() if k != "seq"}, "obs": r["fresh"], "combos": COMBOS})
            if r["seq"]:
                out.append({"P": seq_problem(P), "obs": r["seq"], "combos": SEQ_COMBOS, "seq": P["seq"]["kind"]})
    return out


# ------------------------------------------------------------------ alpha
def dyadic(v, bits=24):
    return Fr(round(v * (1 << bits)), 1 << bits)


def alpha(P, lp, truth, pstar, o, ref_obj, lenient):
    """abstract one observation into the booleans of ModelLP.Failed"""
    a = {"raised": o.get("raised") is not None, "status": o.get("status") or "none", "lenient": bool(lenient)}
    for k in ("vars_set", "vars_none", "mults_set", "mults_none", "cons_hold", "obj_is_pstar", "mult_len", "mult_nonneg", "dual_ok", "agree"):
        a[k] = False
    if a["raised"]:
        return a, {}
    vals, mults = o["vars"], o["mults"]
    a["vars_set"] = all(v is not None for v in vals.values())
    a["vars_none"] = all(v is None for v in vals.values())
    a["mults_set"] = all(m_ is not None for m_ in mults)
    a["mults_none"] = all(m_ is None for m_ in mults)
    a["mult_len"] = all(ml == lp["lens"][i] and cl == lp["lens"][i] and (mults[i] is None or len(mults[i]) == lp["lens"][i])
                        for i, (ml, cl) in enumerate(zip(o["mlens"], o["clens"])))
    info = {}
    if a["status"] != "optimal" or not (a["vars_set"] and a["mults_set"]) or pstar is None:
        a["agree"] = True
        return a, info
    ps = Fr(pstar[0], pstar[1])
    scale = 1 + abs(float(ps))
    e = {v: [Fr(x) for x in vals[v]] for v in vals}
    for v, n_ in P["sz"].items():
        e.setdefault(v, [Fr(0)] * n_)            # variables that only occur as 0*v
    worst = Fr(0)
    for c in P["cons"]:
        fv = pyeval(cfun(c), e)
        for x in fv:
            worst = max(worst, abs(x) if c["rel"] == "==" else x)
    info["worst_violation"] = float(worst)
    a["cons_hold"] = worst <= Fr(1, 10 ** 5) * 10
    objv = o["obj"][0] if o["obj"] else None
    obj_direct = pyeval(P["obj"], e)[0]
    info["obj"] = objv
    info["pstar"] = float(ps)
    a["obj_is_pstar"] = objv is not None and abs(Fr(objv) - ps) <= Fr(1, 10 ** 4) * Fr(scale) and abs(Fr(objv) - obj_direct) <= Fr(1, 10 ** 7) * Fr(scale)
    a["agree"] = objv is not None and (ref_obj is None or abs(objv - ref_obj) <= 2e-4 * scale)
    lam_all = [x for i, c in enumerate(P["cons"]) if c["rel"] != "==" for x in mults[i]]
    a["mult_nonneg"] = all(x >= -1e-6 * scale for x in lam_all)
    # dual solution: min over the box |x - x*| <= R of the Lagrangian of the original PWL problem >= p* - tol.
    # In LP(P): objective row c, main rows of inequalities (first nmain rows of G, in constraint order), rows of A, auxiliary rows.
    n, nx, nmain = lp["n"], lp["nx"], lp["nmain"]
    lam = [max(dyadic(x), Fr(0)) for x in lam_all]
    nu = [dyadic(x) for i, c in enumerate(P["cons"]) if c["rel"] == "==" for x in mults[i]]
    if len(lam) != nmain or len(nu) != len(lp["A"]):
        a["dual_ok"] = False
        return a, info
    cost = [Fr(lp["c"][j]) + sum(lam[i] * lp["G"][i][j] for i in range(nmain)) + sum(nu[i] * lp["A"][i][j] for i in range(len(nu))) for j in range(n)]
    const = Fr(lp["d"]) - sum(lam[i] * lp["h"][i] for i in range(nmain)) - sum(nu[i] * lp["b"][i] for i in range(len(nu)))
    xs = [dyadic(float(x)) for v in P["vo"] for x in e[v]]
    G2 = [list(r) for r in lp["G"][nmain:]]
    h2 = [Fr(v) for v in lp["h"][nmain:]]
    for j in range(nx):
        row = [0] * n
        row[j] = 1
        G2.append(row); h2.append(xs[j] + BOX_R)
        row = [0] * n
        row[j] = -1
        G2.append(row); h2.append(-xs[j] + BOX_R)
    s = exactlp.solve({"n": n, "c": cost, "d": const, "G": G2, "h": h2, "A": [], "b": []})
    if s["status"] == "optimal":
        info["lagrangian_box_min"] = float(s["value"])
        lamsum = float(sum(lam)) + float(sum(abs(x) for x in nu))
        a["dual_ok"] = s["value"] >= ps - Fr(1, 10 ** 4) * Fr(scale + lamsum)
    else:
        info["lagrangian_box_min"] = s["status"]
        a["dual_ok"] = False
    return a, info



def _stage2(items):
    """exact certificates, regularity and alpha for a slice of the cases (parallel stage)"""
    out = []
    for c, r in items:
        P = c["P"]
        for q, e in enumerate(P["envs"]):
            ef = {v: [Fr(x) for x in e[v]] for v in e}
            if [int(x) for x in pyeval(P["obj"], ef)] != [r["objvals"][q]] or \
               [[int(x) for x in pyeval(cfun(cc), ef)] for cc in P["cons"]] != r["convals"][q]:
                c["machinery"] = "python evaluator disagrees with TLC's Eval on %s" % json.dumps(clean_problem(P))[:300]
                break
        if c.get("machinery"):
            out.append(c); continue
        lp = r["lp"]
        w, sol = exactlp.classify(lp)
        if exactlp.max_abs(w) > 10 ** 6:
            c["skip"] = "big"; out.append(c); continue
        if not lp["G"] or (r["ocurv"] == 0 and not any(cc["rel"] != "==" for cc in P["cons"])):
            c["skip"] = "no_inequality"; out.append(c); continue        # refused on purpose: TypeError('lp must have at least one inequality')
        if not any(lp["c"]) and not any(v for row in lp["G"] + lp["A"] for v in row):
            c["skip"] = "no_inequality"; out.append(c); continue        # every coefficient cancels: refused on purpose ('lp must have at least one variable')
        rows = [list(g) for g in lp["G"]] + [list(a_) for a_ in lp["A"]]
        rankdef = exactlp.rank(rows, lp["n"]) < lp["n"] or exactlp.rank([list(a_) for a_ in lp["A"]], lp["n"]) < len(lp["A"])
        c["lp"], c["w"], c["rankdef"] = lp, w, rankdef
        c["g_rankdef"] = exactlp.rank([list(g) for g in lp["G"]], lp["n"]) < lp["n"]
        pstar = None
        if w["cls"] == "optimal":
            v = sol["value"]
            pstar = (v.numerator, v.denominator)
        c["pstar"] = pstar
        c["regular"] = exactlp.regular(lp, w["cls"])
        judged = [not (rankdef and solver == "default") for _, solver in c["combos"]]
        ref = None
        for o, jd in zip(c["obs"], judged):
            if jd and ref is None and o.get("raised") is None and o.get("status") == "optimal" and o.get("obj"):
                ref = o["obj"][0]
        obs, infos = [], []
        for o, (_, solver) in zip(c["obs"], c["combos"]):
            a, info = alpha(P, lp, w["cls"], pstar, o, ref, solver == "default")
            obs.append(a); infos.append(info)
        c["alpha"], c["infos"], c["judged"] = obs, infos, judged
        out.append(c)
    return out

# ------------------------------------------------------------------ run
def shape_class(P):
    ops = set()
    def walk(u):
        ops.add(u["op"])
        for k in ("a", "b"):
            if isinstance(u.get(k), dict):
                walk(u[k])
        for a_ in u.get("args", []):
            walk(a_)
    walk(P["obj"])
    oc = "+".join(sorted(ops - {"var", "const"})) or "affine"
    ops.clear()
    for c in P["cons"]:
        walk(c["a"]); walk(c["b"])
    cc = "+".join(sorted(ops - {"var", "const", "add", "sub", "smul", "mmul"})) or "affine"
    return "obj:%s|cons:%s|eq=%d" % (oc, cc, sum(1 for c in P["cons"] if c["rel"] == "=="))


def site_class(P):
    """coarse structure of a problem for signatures"""
    def pw(t):
        if t["op"] in ("max", "min", "abs", "max1", "min1"):
            return True
        return any(pw(t[k]) for k in ("a", "b") if isinstance(t.get(k), dict)) or any(pw(a_) for a_ in t.get("args", []))
    return "obj=%s|cons=%s" % ("pwl" if pw(P["obj"]) else "affine", "pwl" if any(pw(c["a"]) or pw(c["b"]) for c in P["cons"]) else "affine")


def tlc_batch(ck, module, name, payload, chunk=400, par=8):
    """evaluate a constant-level TLC module on the payload, in chunks, several TLC processes at a time"""
    from concurrent.futures import ThreadPoolExecutor
    chunks = list(range(0, len(payload), chunk))
    def one(c0):
        wd = tlc.workdir("c12/%s%d" % (name, c0 // chunk))
        cf, of = os.path.join(wd, "cases.json"), os.path.join(wd, "out.json")
        json.dump(payload[c0:c0 + chunk], open(cf, "w"))
        if os.path.exists(of):
            os.unlink(of)
        r = tlc.run_tlc(module, "SPECIFICATION Spec\n", wd, workers=1, env={"CASE_FILE": cf, "OUT_FILE": of}, timeout=3000, heap="3g")
        return r, of
    with ThreadPoolExecutor(max_workers=par) as ex:
        results = list(ex.map(one, chunks))
    outs = []
    for c0, (r, of) in zip(chunks, results):
        if not ck.require_tlc_ok("%s batch %d" % (module, c0 // chunk), r):
            ck.finish()
        outs += json.load(open(of))["res"]
    return outs


def run(tier, seed, replay=None):
    ck = Check("C12", tier, seed)
    ck.clean_replays()
    quick = tier == "quick"
    ck.rule = ("seeded random problems from the expression grammar (1-3 variables of lengths 1-3; affine / sum-abs / max / sum-max / nested objectives; "
               "affine, PWL, reversed, min>=, equality, box and constants-only constraints), each solved with format in {dense, sparse} x solver in "
               "{default, glpk}; distinct = distinct (objective operators, constraint operators, #equalities) classes")
    ck.trusted = ["TLC (ModelLP.tla: LP formation, epigraph lemma, truth from certificates, contract)",
                  "harness.exactlp (search for certificates; exact Lagrangian box minimum in alpha)",
                  "the Python term evaluator (must reproduce every value TLC computed on the grid before it is used)"]
    ck.assumptions = ["problems whose LP violates Rank([G; A]) = n or Rank(A) = p (the documented assumption of the default solver) are judged for the "
                      "GLPK combinations only",
                      "the default (interior-point) solver may end 'unknown' - its documented outcome of numerical difficulties (seen on the unchanged tree "
                      "for a problem with optimal value 0: 'Terminated (singular KKT matrix)' one iteration before the tolerances are met); any other status is "
                      "judged in full, and at most 10% of the regular problems (strictly feasible primal and dual, decided exactly on LP(P)) may end 'unknown'",
                      "problems with an affine objective and no inequality are refused on purpose (TypeError 'lp must have at least one inequality'): not judged", "dual solution: the Lagrangian of the original problem is minimised exactly over the box |x - x*| <= %d" % BOX_R]
    n = 320 if quick else 12000
    parts = pmap(ck, _job, [(seed * 1000 + i, n // 16) for i in range(16)], "c12", timeout=PMAP_TIMEOUT)
    cases = [c for p in parts for c in p]
    p1 = tlc_batch(ck, "MC_ModelLP", "a", [clean_problem(c["P"]) for c in cases])
    ck.states = max(ck.states, 1); ck.transitions = max(ck.transitions, 1)
    judged_cases, payload = [], []
    stats = {"not_ok": 0, "rankdef": 0, "big": 0, "nonregular": 0, "no_inequality": 0}
    todo = []
    for c, r in zip(cases, p1):
        P = c["P"]
        if not r["ok"]:
            stats["not_ok"] += 1
            ck.machinery_errors.append("generator produced a problem the specification does not define: %s" % json.dumps(clean_problem(P))[:400])
            continue
        if not r["lemma"]:
            ck.machinery_errors.append("specification: epigraph lemma fails for %s" % json.dumps(clean_problem(P))[:400])
            continue
        if "crash" in c:
            ck.violation("op.solve|hang-or-crash|%s" % site_class(P), "building or solving the problem did not terminate / killed the interpreter (%s): %s" % (
                c["crash"], json.dumps(clean_problem(P))[:300]), {"problem": P})
            continue
        todo.append((c, r))
    done = pmap(ck, _stage2, [todo[i::32] for i in range(32)], "c12-alpha", timeout=PMAP_TIMEOUT)
    for part in done:
        for c in part:
            if c.get("machinery"):
                ck.machinery_errors.append(c["machinery"])
                continue
            if c.get("skip"):
                stats[c["skip"]] += 1
                continue
            stats["rankdef"] += int(c["rankdef"])
            stats["nonregular"] += int(not c["regular"])
            judged_cases.append(c)
            payload.append({"P": clean_problem(c["P"]), "w": c["w"], "obs": c["alpha"], "judged": c["judged"]})
    p2 = tlc_batch(ck, "MC_ModelLPJudge", "j", payload)
    truths = {}
    for c, r in zip(judged_cases, p2):
        P = c["P"]
        ck.evaluations += len(c["combos"])
        if r["truth"] == "bad":
            ck.machinery_errors.append("TLC rejected the exact certificate proposed for %s" % json.dumps(clean_problem(P))[:300])
            continue
        truths[r["truth"]] = truths.get(r["truth"], 0) + 1
        if not r["grid"]:
            ck.machinery_errors.append("specification: the LP's truth contradicts the problem's semantics on the grid: %s" % json.dumps(clean_problem(P))[:300])
            continue
        ck.nontrivial(shape_class(P) + "|" + r["truth"] + ("|after-" + c["seq"] if c.get("seq") else ""))
        seqtag = ("|after-edit-%s" % c["seq"]) if c.get("seq") else ""
        for i, (fmt, solver) in enumerate(c["combos"]):
            if not c["judged"][i]:
                continue
            for clause in r["failed"][i]:
                o = c["obs"][i]
                sig = "op.solve|%s|truth=%s|%s|solver=%s%s" % (clause, r["truth"], site_class(P), solver, seqtag)
                if clause == "raised" and solver == "default" and c["g_rankdef"] and "Rank(A) < p or Rank([G; A]) < n" in (o.get("raised") or ""):
                    # the solver-level finding of C03/C05/C06 surfacing through op.solve: G alone is rank deficient ([G; A] has full rank),
                    # kkt_chol2's first Cholesky factorization of G'W^-2 G succeeds by rounding and the next one fails
                    sig = "kkt_chol2|rank(G)<n|first-cholesky-misses-singularity|via-op.solve"
                ck.violation(sig, "op.solve(%r, %r): clause %s fails (truth %s, status %r%s); %s; problem %s" % (
                    fmt, solver, clause, r["truth"], o.get("status"), (", raised " + o["raised"]) if o.get("raised") else "",
                    json.dumps(c["infos"][i]), json.dumps(clean_problem(P))[:600]),
                    {"problem": P, "combo": [fmt, solver], "observation": o, "alpha": c["alpha"][i], "info": c["infos"][i], "truth": r["truth"], "pstar": c["pstar"]})
        if not r["same"]:
            ck.violation("op.solve|formats-or-solvers-disagree|%s" % site_class(P), "the four format/solver combinations disagree: %s; problem %s" % (
                [(o.get("status"), o.get("obj")) for o in c["obs"]], json.dumps(clean_problem(P))[:600]), {"problem": P, "observations": c["obs"]})
    # the default solver must not give up on a substantial part of the regular problems
    reg_cases = [c for c in judged_cases if c["regular"] and not c["rankdef"]]
    unk = [c for c in reg_cases if any(o.get("status") == "unknown" for o, (_, sv) in zip(c["obs"], c["combos"]) if sv == "default")]
    ck.extra["default_unknown_on_regular"] = [len(unk), len(reg_cases)]
    if len(reg_cases) >= 50 and len(unk) > 0.10 * len(reg_cases):
        ck.violation("op.solve|default-solver-gives-up", "the default solver ended 'unknown' on %d of %d regular problems" % (len(unk), len(reg_cases)),
                     {"problem": unk[0]["P"], "observations": unk[0]["obs"]})
    for c in judged_cases[:2]:
        ck.sample({"problem": clean_problem(c["P"]), "lp": c["lp"], "certificate": c["w"], "alpha": c["alpha"]})
    ck.extra.update({"truth_classes": truths, "skipped": stats, "problems": len(cases)})
    ck.finish()
