"""C02 - infeasibility statuses carry valid Farkas certificates.
Contract invariants PinfCert / DinfCert of SolverContract on traces of conelp, lp, socp, sdp
(planted infeasible / unbounded / solvable instances; the invariant is conditional on the status, so every instance is a test)."""
from harness.checks import c01

PROPS = ["PinfCert", "DinfCert"]


def run(tier, seed, replay=None):
    n = 60 if tier == "quick" else 700
    c01.run(tier, seed + 2, replay, pid="C02", props=PROPS, kinds={"solvable": n // 2, "pinf": n, "dinf": n})
