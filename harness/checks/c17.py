"""C17 - BLAS wrappers compute the reference operation on exactly the addressed data.

Spec: Blas.tla - for each of the 34 routines of cvxopt.blas: the documented defaults of n/m/k/ld*, the accept / reject decision
(types, flags, increments, offsets, leading dimensions, and the footprint of every vector / general / band / symmetric /
triangular view against the buffer length), the early-return cases, and the reference result computed on the addressed views
(Gaussian integers for 'z', conjugation for 'C'/her*/dot), everything else unchanged.
Binding (spec -> code, TLC as oracle): seeded random calls per routine - dimensions 0..3 incl. the omitted (default) forms,
increments +-1, +-2 (0 rarely), offsets, leading dimensions at and around the minimum, every flag value (invalid ones rarely),
real and complex scalars (complex scalar on real data rarely), buffers sized exactly at / one short of / beyond the footprint
- are executed on real matrices in crash-isolated children; TLC evaluates Run(call) and the harness compares the exception /
no exception decision, the returned number and EVERY cell of EVERY argument buffer (slack cells act as canaries, inputs must
be unchanged)."""
import json, os, random
from harness import tlc
from harness.core import Check, pmap
from harness.checks import c12

PMAP_TIMEOUT = int(os.environ.get("VERIF_PMAP_TIMEOUT", "300"))
D = 999
L1TWO = ["swap", "copy", "axpy", "dot", "dotu"]
L1ONE = ["scal", "nrm2", "asum", "iamax"]
MV = ["gemv", "gbmv", "symv", "hemv", "sbmv", "hbmv"]
TV = ["trmv", "tbmv", "trsv", "tbsv"]
RK = ["ger", "geru", "syr", "her", "syr2", "her2"]
L3 = ["gemm", "symm", "hemm", "syrk", "herk", "syr2k", "her2k", "trmm", "trsm"]
ALL = L1TWO + L1ONE + MV + TV + RK + L3
REAL_ONLY = {"symv", "sbmv", "syr", "syr2"}
UNITS = [(1, 0), (-1, 0), (0, 1), (0, -1)]


def base_args():
    a = {k: D for k in ("n", "m", "k", "kl", "ku")}
    a.update({k: 1 for k in ("inc", "incx", "incy")})
    a.update({k: 0 for k in ("offset", "offsetx", "offsety", "offsetA", "offsetB", "offsetC", "ldA", "ldB", "ldC")})
    a.update({"trans": "N", "transA": "N", "transB": "N", "uplo": "L", "side": "L", "diag": "N", "alpha": [D, D], "beta": [D, D]})
    for k in ("n", "m", "k", "ku"):
        a[k] = -1                     # "If negative, the default value is used"
    return a


def rnd_val(rnd, tc):
    return [rnd.randint(-2, 2), rnd.randint(-2, 2) if tc == "z" else 0]


def rnd_scalar(rnd, tc, allow_default=True):
    r = rnd.random()
    if allow_default and r < 0.3:
        return [D, D]
    if tc == "d":
        return [rnd.choice([0, 1, -1, 2, 3]), 1 if rnd.random() < 0.04 else 0]      # complex scalar on real data: must be refused
    return [rnd.choice([0, 1, -1, 2]), rnd.choice([0, 0, 1, -1])]


def buf(rnd, tc, need, shape_hint=None, exact=None):
    """a buffer of about `need` cells; returns dict nr, nc, d"""
    r = rnd.random() if exact is None else exact
    n = need if r < 0.45 else need + rnd.randint(1, 3) if r < 0.8 else max(0, need - 1)
    if shape_hint:
        nr, nc = shape_hint
        if nr * nc != n:
            nr, nc = (n, 1) if rnd.random() < 0.5 or n == 0 else (1, n)
    else:
        nr, nc = (n, 1) if rnd.random() < 0.7 else (1, n)
    return {"nr": nr, "nc": nc, "d": [rnd_val(rnd, tc) for _ in range(nr * nc)]}


def pick_inc(rnd, positive=False):
    r = rnd.random()
    if r < 0.04:
        return 0
    v = rnd.choice([1, 1, 1, 2, 3])
    if not positive and rnd.random() < 0.35:
        v = -v
    if positive and rnd.random() < 0.04:
        v = -v
    return v


def pick_off(rnd):
    r = rnd.random()
    return -1 if r < 0.03 else rnd.choice([0, 0, 0, 1, 2])


DIMS = [0, 1, 2, 2, 3, 3]


def pick_dim(rnd):
    return rnd.choice(DIMS)


def flag(rnd, good, bad="X"):
    return bad if rnd.random() < 0.02 else rnd.choice(good)


def need_vec(off, inc, n):
    return 0 if n <= 0 else max(off, 0) + (n - 1) * abs(inc) + 1


def need_ge(off, ld, m, n):
    return 0 if m <= 0 or n <= 0 else max(off, 0) + (n - 1) * max(ld, 1) + m


def mat_buf(rnd, tc, rows, cols, a, ldkey, offkey, natural_rows=None, use_default_ld=True):
    """choose ld / offset for a rows x cols view and make a buffer around its footprint; the matrix object gets size (ld, cols+) when the
    default leading dimension is used (ld = max(1, A.size[0]))"""
    r = rnd.random()
    minld = max(1, rows) if natural_rows is None else natural_rows
    if use_default_ld and r < 0.4:
        # default ld: A.size[0] = the leading dimension
        nr = minld + (rnd.randint(1, 2) if rnd.random() < 0.3 else 0)
        if rnd.random() < 0.05 and nr > 1:
            nr -= 1                      # too small: must be refused
        ncols = cols + (1 if rnd.random() < 0.2 else 0)
        a[ldkey] = 0
        a[offkey] = 0 if rnd.random() < 0.8 else pick_off(rnd)
        if rnd.random() < 0.08 and ncols > 0:
            ncols -= 1
        return {"nr": nr, "nc": ncols, "d": [rnd_val(rnd, tc) for _ in range(nr * ncols)]}
    if r < 0.65:
        # a matrix whose number of rows is the natural one (so that omitted dimensions take the intended defaults) addressed with an
        # EXPLICIT leading dimension (every t-th column) and possibly an offset
        nr = minld if rows > 0 or natural_rows is not None else 1
        t = rnd.choice([1, 1, 2])
        ncols = max(0, (cols - 1) * t + 1) if cols > 0 else 0
        skip = rnd.choice([0, 0, 1])
        ncols += skip * t + (1 if rnd.random() < 0.15 else 0)
        a[ldkey] = nr * t if rnd.random() < 0.9 else max(0, nr * t - 1)
        a[offkey] = rnd.choice([0, 0, skip * t * nr, skip * t * nr, 1, 2, -1 if rnd.random() < 0.1 else 0])
        if t == 1 and skip == 0 and rnd.random() < 0.5:
            ncols = cols                      # exactly the natural shape
        return {"nr": nr, "nc": ncols, "d": [rnd_val(rnd, tc) for _ in range(nr * ncols)]}
    ld = minld + rnd.choice([0, 0, 1, 2]) if rnd.random() < 0.92 else max(0, minld - 1)
    a[ldkey] = ld
    a[offkey] = pick_off(rnd)
    need = need_ge(a[offkey], ld, minld if natural_rows is not None else rows, cols)
    return buf(rnd, tc, need)


def set_units_tri(A, a, n, ldkey, offkey, band_k=None):
    """make the diagonal of the addressed triangular matrix units (the specification's exact inverse)"""
    ld = a[ldkey] if a[ldkey] else (A["nr"] if band_k is not None else max(1, A["nr"]))
    off = a[offkey]
    for j in range(n):
        if band_k is None:
            p = off + j + j * ld
        else:
            p = off + (0 if a["uplo"] == "L" else band_k) + j * ld
        if 0 <= p < len(A["d"]):
            u = UNITS[(j + len(A["d"])) % (4 if any(v[1] for v in A["d"]) else 2)]
            A["d"][p] = [u[0], u[1]]


def set_real_diag(A, a, n, ldkey, offkey, band_k=None):
    """Hermitian matrices have a real diagonal (BLAS: the imaginary parts 'are assumed to be zero')"""
    ld = a[ldkey] if a[ldkey] else (A["nr"] if band_k is not None else max(1, A["nr"]))
    off = a[offkey]
    for j in range(n):
        p = off + j + j * ld if band_k is None else off + (0 if a["uplo"] == "L" else band_k) + j * ld
        if 0 <= p < len(A["d"]):
            A["d"][p][1] = 0


def gen_call(rnd, f):
    tc = "d" if f in REAL_ONLY or rnd.random() < 0.5 else "z"
    a = base_args()
    b = {}
    if f in L1TWO:
        n = pick_dim(rnd)
        a["incx"], a["incy"] = pick_inc(rnd), pick_inc(rnd)
        a["offsetx"], a["offsety"] = pick_off(rnd), pick_off(rnd)
        explicit = rnd.random() < 0.6
        a["n"] = n if explicit else -1
        for nm, inc, off in (("x", a["incx"], a["offsetx"]), ("y", a["incy"], a["offsety"])):
            need = need_vec(off, inc or 1, n)
            b[nm] = buf(rnd, tc, need, exact=(0.0 if not explicit and rnd.random() < 0.8 else None))
        if f == "axpy":
            a["alpha"] = rnd_scalar(rnd, tc)
    elif f in L1ONE:
        n = pick_dim(rnd)
        a["inc"], a["offset"] = pick_inc(rnd, positive=True), pick_off(rnd)
        explicit = rnd.random() < 0.6
        a["n"] = n if explicit else -1
        b["x"] = buf(rnd, tc, need_vec(a["offset"], a["inc"] or 1, n))
        if f == "scal":
            a["alpha"] = rnd_scalar(rnd, tc, allow_default=False)
    elif f in MV:
        band = f in ("gbmv", "sbmv", "hbmv")
        sym = f != "gemv" and f != "gbmv"
        n = pick_dim(rnd)
        m = n if sym else pick_dim(rnd)
        a["incx"], a["incy"] = pick_inc(rnd), pick_inc(rnd)
        a["offsetx"], a["offsety"] = pick_off(rnd), pick_off(rnd)
        a["alpha"], a["beta"] = rnd_scalar(rnd, tc), rnd_scalar(rnd, tc)
        if sym:
            a["uplo"] = flag(rnd, ["L", "U"])
        else:
            a["trans"] = flag(rnd, ["N", "T", "C"])
        if f == "gemv":
            b["A"] = mat_buf(rnd, tc, m, n, a, "ldA", "offsetA")
            if rnd.random() < 0.7 and b["A"]["nr"] == max(1, m) and (m > 0):
                a["m"], a["n"] = -1, (-1 if b["A"]["nc"] == n else n)
            else:
                a["m"], a["n"] = m, n
        elif f in ("symv", "hemv"):
            b["A"] = mat_buf(rnd, tc, n, n, a, "ldA", "offsetA")
            a["n"] = -1 if (b["A"]["nr"] == b["A"]["nc"] == n and rnd.random() < 0.7) else n
            if rnd.random() < 0.03:
                a["n"] = -1
        else:
            if f == "gbmv":
                kl, ku = rnd.randint(0, 2), rnd.randint(0, 2)
                rows = kl + ku + 1
                a["m"], a["kl"] = (m if rnd.random() < 0.97 else -1), (kl if rnd.random() < 0.97 else -1)
            else:
                k = rnd.randint(0, 2)
                rows = k + 1
            b["A"] = mat_buf(rnd, tc, rows, n, a, "ldA", "offsetA", natural_rows=rows)
            dflt = b["A"]["nr"] == rows and rnd.random() < 0.7
            if f == "gbmv":
                a["ku"] = -1 if dflt else ku
            else:
                a["k"] = -1 if dflt else k
            a["n"] = -1 if (b["A"]["nc"] == n and rnd.random() < 0.5) else n
        if f == "hemv":
            set_real_diag(b["A"], a, n, "ldA", "offsetA")
        if f == "hbmv":
            set_real_diag(b["A"], a, n, "ldA", "offsetA", band_k=k)
        trans = a["trans"] if not sym else "N"
        lx, ly = (n, m) if trans == "N" else (m, n)
        b["x"] = buf(rnd, tc, need_vec(a["offsetx"], a["incx"] or 1, lx))
        b["y"] = buf(rnd, tc, need_vec(a["offsety"], a["incy"] or 1, ly))
    elif f in TV:
        band = f in ("tbmv", "tbsv")
        n = pick_dim(rnd)
        a["incx"], a["offsetx"] = pick_inc(rnd), pick_off(rnd)
        a["uplo"], a["trans"], a["diag"] = flag(rnd, ["L", "U"]), flag(rnd, ["N", "T", "C"]), flag(rnd, ["N", "U"])
        if band:
            k = rnd.randint(0, 2)
            b["A"] = mat_buf(rnd, tc, k + 1, n, a, "ldA", "offsetA", natural_rows=k + 1)
            a["k"] = -1 if (b["A"]["nr"] == k + 1 and rnd.random() < 0.7) else k
            a["n"] = -1 if (b["A"]["nc"] == n and rnd.random() < 0.5) else n
            set_units_tri(b["A"], a, n, "ldA", "offsetA", band_k=k)
        else:
            b["A"] = mat_buf(rnd, tc, n, n, a, "ldA", "offsetA")
            a["n"] = -1 if (b["A"]["nr"] == b["A"]["nc"] == n and rnd.random() < 0.7) else n
            if rnd.random() < 0.03:
                a["n"] = -1
            # (the diagonal that the call will actually use: with an omitted n that is the whole of A)
            set_units_tri(b["A"], a, max(n, b["A"]["nr"]) if a["n"] == -1 else n, "ldA", "offsetA")
        b["x"] = buf(rnd, tc, need_vec(a["offsetx"], a["incx"] or 1, n))
    elif f in RK:
        gen = f in ("ger", "geru")
        two = f in ("syr2", "her2")
        n = pick_dim(rnd)
        m = pick_dim(rnd) if gen else n
        a["incx"], a["offsetx"] = pick_inc(rnd), pick_off(rnd)
        a["alpha"] = rnd_scalar(rnd, tc) if f not in ("syr", "her") else [rnd.choice([D, 1, -1, 2]), 1 if rnd.random() < 0.03 else 0]
        if a["alpha"][0] == D:
            a["alpha"] = [D, D]
        if not gen:
            a["uplo"] = flag(rnd, ["L", "U"])
        b["A"] = mat_buf(rnd, tc, m, n, a, "ldA", "offsetA")
        dflt = b["A"]["nr"] == max(1, m) and m > 0 and b["A"]["nc"] == n and rnd.random() < 0.7
        if gen:
            a["m"], a["n"] = (-1, -1) if dflt else (m, n)
        else:
            a["n"] = -1 if (dflt or rnd.random() < 0.03) else n
        if f in ("her", "her2"):
            set_real_diag(b["A"], a, n, "ldA", "offsetA")
        b["x"] = buf(rnd, tc, need_vec(a["offsetx"], a["incx"] or 1, m))
        if gen or two:
            a["incy"], a["offsety"] = pick_inc(rnd), pick_off(rnd)
            b["y"] = buf(rnd, tc, need_vec(a["offsety"], a["incy"] or 1, n))
    else:
        m, n, k = pick_dim(rnd), pick_dim(rnd), pick_dim(rnd)
        a["alpha"] = rnd_scalar(rnd, tc)
        if f == "gemm":
            a["transA"], a["transB"] = flag(rnd, ["N", "T", "C"]), flag(rnd, ["N", "T", "C"])
            a["beta"] = rnd_scalar(rnd, tc)
            rA, cA = (m, k) if a["transA"] == "N" else (k, m)
            rB, cB = (k, n) if a["transB"] == "N" else (n, k)
            b["A"] = mat_buf(rnd, tc, rA, cA, a, "ldA", "offsetA")
            b["B"] = mat_buf(rnd, tc, rB, cB, a, "ldB", "offsetB")
            b["C"] = mat_buf(rnd, tc, m, n, a, "ldC", "offsetC")
            dflt = (b["A"]["nr"], b["A"]["nc"]) == (max(1, rA) if rA else b["A"]["nr"], cA) \
                and (b["B"]["nr"], b["B"]["nc"]) == (max(1, rB) if rB else b["B"]["nr"], cB) and rA > 0 and rB > 0
            a["m"], a["n"], a["k"] = (-1, -1, -1) if (dflt and rnd.random() < 0.7) else (m, n, k)
            if rnd.random() < 0.03:
                a["k"] = -1
        elif f in ("symm", "hemm"):
            a["side"], a["uplo"] = flag(rnd, ["L", "R"]), flag(rnd, ["L", "U"])
            a["beta"] = rnd_scalar(rnd, tc)
            na = m if a["side"] == "L" else n
            b["A"] = mat_buf(rnd, tc, na, na, a, "ldA", "offsetA")
            b["B"] = mat_buf(rnd, tc, m, n, a, "ldB", "offsetB")
            b["C"] = mat_buf(rnd, tc, m, n, a, "ldC", "offsetC")
            if f == "hemm":
                set_real_diag(b["A"], a, na, "ldA", "offsetA")
            dflt = (b["B"]["nr"], b["B"]["nc"]) == (m, n) and m > 0 and (b["A"]["nr"], b["A"]["nc"]) == (na, na)
            a["m"], a["n"] = (-1, -1) if (dflt and rnd.random() < 0.7) else (m, n)
        elif f in ("syrk", "herk", "syr2k", "her2k"):
            herm = f in ("herk", "her2k")
            two = f in ("syr2k", "her2k")
            good = ["N", "T", "C"] if tc == "d" else (["N", "C"] if herm else ["N", "T"])
            a["uplo"] = flag(rnd, ["L", "U"])
            a["trans"] = flag(rnd, good, bad=("T" if herm else "C") if tc == "z" else "X")
            a["beta"] = rnd_scalar(rnd, tc)
            if f == "herk":
                a["alpha"] = [rnd.choice([D, 1, -1, 2]), 1 if rnd.random() < 0.03 else 0]
                if a["alpha"][0] == D:
                    a["alpha"] = [D, D]
            if herm and a["beta"] != [D, D]:
                a["beta"] = [a["beta"][0], 1 if rnd.random() < 0.03 else 0]
            rA, cA = (n, k) if a["trans"] == "N" else (k, n)
            b["A"] = mat_buf(rnd, tc, rA, cA, a, "ldA", "offsetA")
            if two:
                b["B"] = mat_buf(rnd, tc, rA, cA, a, "ldB", "offsetB")
            b["C"] = mat_buf(rnd, tc, n, n, a, "ldC", "offsetC")
            if herm:
                set_real_diag(b["C"], a, n, "ldC", "offsetC")
            dflt = (b["A"]["nr"], b["A"]["nc"]) == (rA, cA) and rA > 0 and \
                (not two or ((b["B"]["nr"], b["B"]["nc"]) == (rA, cA)))
            a["n"], a["k"] = (-1, -1) if (dflt and rnd.random() < 0.7) else (n, k)
        else:
            a["side"], a["uplo"] = flag(rnd, ["L", "R"]), flag(rnd, ["L", "U"])
            a["transA"], a["diag"] = flag(rnd, ["N", "T", "C"]), flag(rnd, ["N", "U"])
            na = m if a["side"] == "L" else n
            b["A"] = mat_buf(rnd, tc, na, na, a, "ldA", "offsetA")
            b["B"] = mat_buf(rnd, tc, m, n, a, "ldB", "offsetB")
            dflt = (b["A"]["nr"], b["A"]["nc"]) == (na, na) and (b["B"]["nr"], b["B"]["nc"]) == (m, n) and m > 0 and n > 0
            a["m"], a["n"] = (-1, -1) if (dflt and rnd.random() < 0.7) else (m, n)
            set_units_tri(b["A"], a, na, "ldA", "offsetA")
    # conflicting typecodes: rarely make one buffer of the other type
    conflict = None
    if len(b) > 1 and rnd.random() < 0.02:
        conflict = rnd.choice(sorted(b))
    return {"f": f, "tc": tc, "b": b, "a": a, "conflict": conflict}


# ------------------------------------------------------------------ real code
KW = {"swap": ["n", "incx", "incy", "offsetx", "offsety"], "copy": ["n", "incx", "incy", "offsetx", "offsety"],
      "axpy": ["alpha", "n", "incx", "incy", "offsetx", "offsety"], "dot": ["n", "incx", "incy", "offsetx", "offsety"],
      "dotu": ["n", "incx", "incy", "offsetx", "offsety"], "scal": ["n", "inc", "offset"], "nrm2": ["n", "inc", "offset"],
      "asum": ["n", "inc", "offset"], "iamax": ["n", "inc", "offset"],
      "gemv": ["trans", "alpha", "beta", "m", "n", "ldA", "incx", "incy", "offsetA", "offsetx", "offsety"],
      "gbmv": ["trans", "alpha", "beta", "n", "ku", "ldA", "incx", "incy", "offsetA", "offsetx", "offsety"],
      "symv": ["uplo", "alpha", "beta", "n", "ldA", "incx", "incy", "offsetA", "offsetx", "offsety"],
      "hemv": ["uplo", "alpha", "beta", "n", "ldA", "incx", "incy", "offsetA", "offsetx", "offsety"],
      "sbmv": ["uplo", "alpha", "beta", "n", "k", "ldA", "incx", "incy", "offsetA", "offsetx", "offsety"],
      "hbmv": ["uplo", "alpha", "beta", "n", "k", "ldA", "incx", "incy", "offsetA", "offsetx", "offsety"],
      "trmv": ["uplo", "trans", "diag", "n", "ldA", "incx", "offsetA", "offsetx"], "trsv": ["uplo", "trans", "diag", "n", "ldA", "incx", "offsetA", "offsetx"],
      "tbmv": ["uplo", "trans", "diag", "n", "k", "ldA", "incx", "offsetA", "offsetx"], "tbsv": ["uplo", "trans", "diag", "n", "k", "ldA", "incx", "offsetA", "offsetx"],
      "ger": ["alpha", "m", "n", "incx", "incy", "ldA", "offsetx", "offsety", "offsetA"], "geru": ["alpha", "m", "n", "incx", "incy", "ldA", "offsetx", "offsety", "offsetA"],
      "syr": ["uplo", "alpha", "n", "incx", "ldA", "offsetx", "offsetA"], "her": ["uplo", "alpha", "n", "incx", "ldA", "offsetx", "offsetA"],
      "syr2": ["uplo", "alpha", "n", "incx", "incy", "ldA", "offsetx", "offsety", "offsetA"], "her2": ["uplo", "alpha", "n", "incx", "incy", "ldA", "offsetx", "offsety", "offsetA"],
      "gemm": ["transA", "transB", "alpha", "beta", "m", "n", "k", "ldA", "ldB", "ldC", "offsetA", "offsetB", "offsetC"],
      "symm": ["side", "uplo", "alpha", "beta", "m", "n", "ldA", "ldB", "ldC", "offsetA", "offsetB", "offsetC"],
      "hemm": ["side", "uplo", "alpha", "beta", "m", "n", "ldA", "ldB", "ldC", "offsetA", "offsetB", "offsetC"],
      "syrk": ["uplo", "trans", "alpha", "beta", "n", "k", "ldA", "ldC", "offsetA", "offsetC"], "herk": ["uplo", "trans", "alpha", "beta", "n", "k", "ldA", "ldC", "offsetA", "offsetC"],
      "syr2k": ["uplo", "trans", "alpha", "beta", "n", "k", "ldA", "ldB", "ldC", "offsetA", "offsetB", "offsetC"],
      "her2k": ["uplo", "trans", "alpha", "beta", "n", "k", "ldA", "ldB", "ldC", "offsetA", "offsetB", "offsetC"],
      "trmm": ["side", "uplo", "transA", "diag", "alpha", "m", "n", "ldA", "ldB", "offsetA", "offsetB"],
      "trsm": ["side", "uplo", "transA", "diag", "alpha", "m", "n", "ldA", "ldB", "offsetA", "offsetB"]}
POS = {"swap": ["x", "y"], "copy": ["x", "y"], "axpy": ["x", "y"], "dot": ["x", "y"], "dotu": ["x", "y"], "scal": ["@alpha", "x"], "nrm2": ["x"], "asum": ["x"], "iamax": ["x"],
       "gemv": ["A", "x", "y"], "gbmv": ["A", "@m", "@kl", "x", "y"], "symv": ["A", "x", "y"], "hemv": ["A", "x", "y"], "sbmv": ["A", "x", "y"], "hbmv": ["A", "x", "y"],
       "trmv": ["A", "x"], "tbmv": ["A", "x"], "trsv": ["A", "x"], "tbsv": ["A", "x"], "ger": ["x", "y", "A"], "geru": ["x", "y", "A"], "syr": ["x", "A"], "her": ["x", "A"],
       "syr2": ["x", "y", "A"], "her2": ["x", "y", "A"], "gemm": ["A", "B", "C"], "symm": ["A", "B", "C"], "hemm": ["A", "B", "C"], "syrk": ["A", "C"], "herk": ["A", "C"],
       "syr2k": ["A", "B", "C"], "her2k": ["A", "B", "C"], "trmm": ["A", "B"], "trsm": ["A", "B"]}
INT_DEFAULT = {"n": -1, "m": -1, "k": -1, "ku": -1, "ldA": 0, "ldB": 0, "ldC": 0, "inc": 1, "incx": 1, "incy": 1,
               "offset": 0, "offsetx": 0, "offsety": 0, "offsetA": 0, "offsetB": 0, "offsetC": 0}
FLAG_DEFAULT = {"trans": "N", "transA": "N", "transB": "N", "uplo": "L", "side": "L", "diag": "N"}


def _scalar(v, tc):
    if v[1] != 0:
        return complex(v[0], v[1])
    return float(v[0]) if v[0] % 2 else int(v[0])


def _run_calls(calls):
    from cvxopt import matrix, blas
    out = []
    for c in calls:
        tc = c["tc"]
        M = {}
        for nm, bb in c["b"].items():
            t = tc if c.get("conflict") != nm else ("z" if tc == "d" else "d")
            vals = [complex(v[0], v[1]) if t == "z" else float(v[0]) for v in bb["d"]]
            M[nm] = matrix(vals, (bb["nr"], bb["nc"]), t)
        a = c["a"]
        pos = []
        for p in POS[c["f"]]:
            if p == "@alpha":
                pos.append(_scalar(a["alpha"], tc))
            elif p.startswith("@"):
                pos.append(a[p[1:]])
            else:
                pos.append(M[p])
        kw = {}
        for k in KW[c["f"]]:
            v = a[k]
            if k in ("alpha", "beta"):
                if v != [D, D]:
                    kw[k] = _scalar(v, tc)
            elif k in FLAG_DEFAULT:
                if v != FLAG_DEFAULT[k] or c.get("explicit_flags"):
                    kw[k] = v
            elif v != INT_DEFAULT[k] or c.get("explicit_ints"):
                kw[k] = v
        o = {}
        try:
            r = getattr(blas, c["f"])(*pos, **kw)
            o["ret"] = None if r is None else ([r.real, r.imag] if isinstance(r, complex) else [float(r), 0.0])
        except Exception as e:
            o["raised"] = type(e).__name__
        o["bufs"] = {nm: [[complex(v).real, complex(v).imag] for v in M[nm]] for nm in M}
        o["tcs"] = {nm: M[nm].typecode for nm in M}
        out.append(o)
    return out


def _job(args):
    from harness import isolate
    seed, per = args
    rnd = random.Random(seed)
    calls = []
    for f in ALL:
        for _ in range(per):
            c = gen_call(rnd, f)
            c["explicit_ints"] = rnd.random() < 0.15
            c["explicit_flags"] = rnd.random() < 0.15
            calls.append(c)
    res = []
    for c0 in range(0, len(calls), 100):
        chunk = calls[c0:c0 + 100]
        st, r = isolate.run_isolated(_run_calls, chunk, timeout=120)
        if st == "ok":
            res += r
        else:
            for c in chunk:
                st1, r1 = isolate.run_isolated(_run_calls, [c], timeout=20)
                res += r1 if st1 == "ok" else [{"crash": "%s:%s" % (st1, r1)}]
    return [{"call": c, "obs": o} for c, o in zip(calls, res)]


# ---------------------------------------------------------------------------------------------------------------------------------------
# products of module base with sparse (and dense) operands: base.gemv / base.symv / base.gemm / base.syrk   (Blas.tla: SPGEMV .. SPSYRK)
SP = ["sp_gemv", "sp_symv", "sp_gemm", "sp_syrk", "sp_axpy"]
SP_KW = {"sp_gemv": ["trans", "alpha", "beta", "m", "n", "incx", "incy", "offsetA", "offsetx", "offsety"],
         "sp_symv": ["uplo", "alpha", "beta", "n", "incx", "incy", "offsetA", "offsetx", "offsety"],
         "sp_gemm": ["transA", "transB", "alpha", "beta", "partial"], "sp_syrk": ["uplo", "trans", "alpha", "beta", "partial"], "sp_axpy": ["alpha", "partial"]}
SP_POS = {"sp_gemv": ["A", "x", "y"], "sp_symv": ["A", "x", "y"], "sp_gemm": ["A", "B", "C"], "sp_syrk": ["A", "C"], "sp_axpy": ["x", "y"]}


def sp_mat(rnd, tc, nr, nc, sp):
    """an nr x nc operand given by its dense image; a sparse one stores the cells of `pat` (which may hold explicit zeros)"""
    dens = rnd.choice([0.3, 0.6, 1.0])
    pat = [1 if (not sp or rnd.random() < dens) else 0 for _ in range(nr * nc)]
    d = [rnd_val(rnd, tc) if q else [0, 0] for q in pat]
    return {"nr": nr, "nc": nc, "d": d, "sp": 1 if sp else 0, "pat": pat}


def gen_sp_call(rnd, f):
    a = base_args()
    a["partial"] = False
    b = {}
    tc = rnd.choice(["d", "z"])
    if f in ("sp_gemv", "sp_symv"):
        if f == "sp_symv":
            tc = "d"
        nr = pick_dim(rnd)
        nc = nr if (f == "sp_symv" and rnd.random() < 0.9) else pick_dim(rnd)
        sp = rnd.random() < 0.7
        b["A"] = sp_mat(rnd, tc, nr, nc, sp)
        r = rnd.random()
        oi = oj = 0
        m, n = nr, nc
        if r < 0.5:
            pass                                           # whole matrix, default dimensions
        elif r < 0.9 and nr > 0 and nc > 0:
            oi, oj = rnd.randrange(nr), rnd.randrange(nc)  # a block inside the matrix
            m, n = rnd.randint(0, nr - oi), rnd.randint(0, nc - oj)
            if f == "sp_symv":
                m = n = min(m, n)
            a["offsetA"] = oj * nr + oi
            a["m"], a["n"] = m, n
            if rnd.random() < 0.3:
                a["m" if rnd.random() < 0.5 else "n"] += 1  # may leave the matrix: refused, or (sparse, row wrap) outside the documented requirement
        else:
            m, n = rnd.randint(0, nr + 1), rnd.randint(0, nc + 1)
            if f == "sp_symv":
                m = n
            a["m"], a["n"] = m, n
            a["offsetA"] = rnd.choice([0, 1, -1, nr, nr * nc])
        if f == "sp_symv":
            del_m = a.pop("m"); a["m"] = -1
            a["uplo"] = flag(rnd, ["L", "U"])
            lx = ly = (nr if a["n"] < 0 else a["n"])
        else:
            a["trans"] = flag(rnd, ["N", "T", "C"])
            mm = nr if a["m"] < 0 else a["m"]
            nn = nc if a["n"] < 0 else a["n"]
            lx, ly = (nn, mm) if a["trans"] == "N" else (mm, nn)
        a["incx"], a["incy"] = pick_inc(rnd), pick_inc(rnd)
        a["offsetx"], a["offsety"] = pick_off(rnd), pick_off(rnd)
        for nm, l, ik, ok in (("x", lx, "incx", "offsetx"), ("y", ly, "incy", "offsety")):
            bb = buf(rnd, tc, need_vec(a[ok], a[ik] or 1, l))
            bb["sp"] = 0
            b[nm] = bb
    elif f == "sp_axpy":
        nr, nc = pick_dim(rnd), pick_dim(rnd)
        sx, sy = rnd.random() < 0.6, rnd.random() < 0.6
        b["x"] = sp_mat(rnd, tc, nr, nc, sx)
        r = rnd.random()
        b["y"] = sp_mat(rnd, tc, nr + (1 if r < 0.04 else 0), nc + (1 if 0.04 <= r < 0.08 else 0), sy)
        if 0.08 <= r < 0.1:
            b["y"] = sp_mat(rnd, tc, nc, nr, sy)
        a["partial"] = bool(sy and rnd.random() < 0.5) or rnd.random() < 0.05
        b["Cmask"] = {"nr": b["y"]["nr"], "nc": b["y"]["nc"], "d": [[q, 0] for q in b["y"]["pat"]], "sp": 0}
    else:
        sA, sB, sC = (rnd.random() < 0.6 for _ in range(3))
        if f == "sp_gemm":
            a["transA"], a["transB"] = flag(rnd, ["N", "T", "C"]), flag(rnd, ["N", "T", "C"])
            m, k, n = pick_dim(rnd), pick_dim(rnd), pick_dim(rnd)
            kb, mc, ncc = k, m, n
            r = rnd.random()
            if r < 0.04:
                kb = k + 1
            elif r < 0.08:
                mc = m + 1
            elif r < 0.12:
                ncc = max(0, n - 1)
            b["A"] = sp_mat(rnd, tc, *((m, k) if a["transA"] == "N" else (k, m)), sp=sA)
            b["B"] = sp_mat(rnd, tc, *((kb, n) if a["transB"] == "N" else (n, kb)), sp=sB)
            b["C"] = sp_mat(rnd, tc, mc, ncc, sp=sC)
        else:
            if sA or sC:
                tc = "d"                                   # base.syrk: not implemented for complex sparse operands
            a["uplo"] = flag(rnd, ["L", "U"])
            a["trans"] = flag(rnd, ["N", "T", "C"] if tc == "d" else ["N", "T"], bad=("X" if tc == "d" or rnd.random() < 0.5 else "C"))
            n, k = pick_dim(rnd), pick_dim(rnd)
            nn = n + 1 if rnd.random() < 0.06 else n
            b["A"] = sp_mat(rnd, tc, *((n, k) if a["trans"] == "N" else (k, n)), sp=sA)
            b["C"] = sp_mat(rnd, tc, nn, n if rnd.random() < 0.97 else n + 1, sp=sC)
        a["partial"] = bool(sC and rnd.random() < 0.5) or rnd.random() < 0.05
        b["Cmask"] = {"nr": b["C"]["nr"], "nc": b["C"]["nc"], "d": [[q, 0] for q in b["C"]["pat"]], "sp": 0}
    a["alpha"], a["beta"] = rnd_scalar(rnd, tc), rnd_scalar(rnd, tc)
    return {"f": f, "tc": tc, "a": a, "b": b}


def _run_sp_calls(calls):
    from cvxopt import matrix, spmatrix, base
    fn = {"sp_gemv": base.gemv, "sp_symv": base.symv, "sp_gemm": base.gemm, "sp_syrk": base.syrk, "sp_axpy": base.axpy}
    out = []
    for c in calls:
        tc = c["tc"]
        M = {}
        for nm, bb in c["b"].items():
            if nm == "Cmask":
                continue
            vals = [complex(v[0], v[1]) if tc == "z" else float(v[0]) for v in bb["d"]]
            if bb["sp"]:
                idx = [i for i, q in enumerate(bb["pat"]) if q]
                M[nm] = spmatrix([vals[i] for i in idx], [i % bb["nr"] for i in idx], [i // bb["nr"] for i in idx], (bb["nr"], bb["nc"]), tc)
            else:
                M[nm] = matrix(vals, (bb["nr"], bb["nc"]), tc)
        a = c["a"]
        kw = {}
        for k in SP_KW[c["f"]]:
            v = a[k]
            if k in ("alpha", "beta"):
                if v != [D, D]:
                    kw[k] = _scalar(v, tc)
            elif k == "partial":
                if v or c.get("explicit_flags"):
                    kw[k] = v
            elif k in FLAG_DEFAULT:
                if v != FLAG_DEFAULT[k] or c.get("explicit_flags"):
                    kw[k] = v
            elif v != INT_DEFAULT[k] or c.get("explicit_ints"):
                kw[k] = v
        o = {}
        try:
            r = fn[c["f"]](*[M[p] for p in SP_POS[c["f"]]], **kw)
            if r is not None:
                o["ret"] = repr(r)
        except Exception as e:
            o["raised"] = type(e).__name__
        o["bufs"] = {}
        o["pat"] = {}
        o["ccs"] = {}
        for nm in M:
            X = M[nm]
            o["tcs"] = X.typecode
            dn = matrix(X) if isinstance(X, spmatrix) else X
            o["bufs"][nm] = [[complex(v).real, complex(v).imag] for v in dn]
            if isinstance(X, spmatrix):
                I, J = list(X.I), list(X.J)
                cells = [j * X.size[0] + i for i, j in zip(I, J)]
                o["pat"][nm] = cells
                o["ccs"][nm] = cells == sorted(set(cells)) and all(0 <= i < X.size[0] for i in I) and all(0 <= j < X.size[1] for j in J) \
                    and X.size == (c["b"][nm]["nr"], c["b"][nm]["nc"]) and X.typecode == tc
            elif X.size != (c["b"][nm]["nr"], c["b"][nm]["nc"]) or X.typecode != tc:
                o["ccs"][nm] = False
        out.append(o)
    return out


def _job_sp(args):
    from harness import isolate
    seed, per = args
    rnd = random.Random(seed)
    calls = []
    for f in SP:
        for _ in range(per):
            c = gen_sp_call(rnd, f)
            c["explicit_ints"] = rnd.random() < 0.15
            c["explicit_flags"] = rnd.random() < 0.15
            calls.append(c)
    res = []
    for c0 in range(0, len(calls), 100):
        chunk = calls[c0:c0 + 100]
        st, r = isolate.run_isolated(_run_sp_calls, chunk, timeout=120)
        if st == "ok":
            res += r
        else:
            for c in chunk:
                st1, r1 = isolate.run_isolated(_run_sp_calls, [c], timeout=20)
                res += r1 if st1 == "ok" else [{"crash": "%s:%s" % (st1, r1)}]
    return [{"call": c, "obs": o} for c, o in zip(calls, res)]


def describe_sp(c):
    a = c["a"]
    shown = {k: a[k] for k in SP_KW[c["f"]] if not (k in INT_DEFAULT and a[k] == INT_DEFAULT[k]) and not (k in FLAG_DEFAULT and a[k] == FLAG_DEFAULT[k])
             and a[k] != [D, D] and a[k] is not False}
    return "base.%s(%s; %s) tc=%s" % (c["f"][3:], ", ".join("%s %s %dx%d" % (nm, "sparse" if bb["sp"] else "dense", bb["nr"], bb["nc"])
                                                          for nm, bb in c["b"].items() if nm != "Cmask"), shown, c["tc"])


def judge_sp(ck, items, exp, stats):
    for x, e in zip(items, exp):
        c, o = x["call"], x["obs"]
        f = c["f"][3:]
        ck.evaluations += 1
        if "crash" in o:
            ck.violation("base|%s|hang-or-crash" % f, "%s killed the interpreter (%s)" % (describe_sp(c), o["crash"]), {"call": c})
            continue
        names = [nm for nm in c["b"] if nm != "Cmask"]
        before = {nm: [[float(v[0]), float(v[1])] for v in c["b"][nm]["d"]] for nm in names}
        patb = {nm: [i for i, q in enumerate(c["b"][nm]["pat"]) if q] for nm in names if c["b"][nm]["sp"]}
        stats[e["v"]] = stats.get(e["v"], 0) + 1
        kind = "".join("s" if c["b"][nm]["sp"] else "d" for nm in names)
        ck.nontrivial("base.%s|%s|%s|%s|%s%s" % (f, c["tc"], kind, "".join(str(c["a"][k]) for k in ("trans", "transA", "transB", "uplo") if k in SP_KW[c["f"]]),
                                                  e["v"], "|partial" if c["a"]["partial"] else ""))
        if e["v"] == "unspecified":
            continue                                        # outside the documented requirement of the sparse version: nothing is promised
        bad_ccs = [nm for nm, ok in o.get("ccs", {}).items() if ok is False]
        if bad_ccs:
            ck.violation("base|%s|invalid-matrix-after-call" % f, "%s left %s with a different size / typecode or an invalid compressed-column structure" % (describe_sp(c), bad_ccs),
                         {"call": c, "obs": o})
            continue
        unchanged = all(o["bufs"][nm] == before[nm] for nm in names) and all(o["pat"].get(nm) == patb[nm] for nm in patb)
        if e["v"] == "err":
            if "raised" not in o:
                ck.violation("base|%s|accepts-invalid-arguments" % f, "%s was accepted; the arguments are inconsistent (dimensions / footprint / flags / types)" % describe_sp(c), {"call": c, "obs": o})
            elif o["raised"] not in ("TypeError", "ValueError"):
                ck.violation("base|%s|wrong-exception|%s" % (f, o["raised"]), "%s raised %s" % (describe_sp(c), o["raised"]), {"call": c, "obs": o})
            elif not unchanged:
                ck.violation("base|%s|rejected-call-modified-arguments" % f, "%s raised %s but changed an argument" % (describe_sp(c), o["raised"]), {"call": c, "obs": o})
            continue
        if e["v"] == "either":
            if not unchanged:
                ck.violation("base|%s|empty-call-modified-arguments" % f, "%s addresses nothing but changed an argument" % describe_sp(c), {"call": c, "obs": o})
            continue
        if "raised" in o:
            ck.violation("base|%s|rejects-valid-arguments|%s" % (f, o["raised"]), "%s raised %s; the arguments are consistent" % (describe_sp(c), o["raised"]), {"call": c, "obs": o})
            continue
        want = {nm: [[float(v[0]), float(v[1])] for v in e["out"][nm]] for nm in names}
        if c["f"] == "sp_syrk" and c["b"]["C"]["sp"] and not c["a"]["partial"]:
            # a sparse C is REPLACED by the updated triangle: what happens to stored entries of the other triangle is not documented
            # (Blas.tla, SPSYRK) - only the uplo triangle is compared
            n_ = c["b"]["C"]["nr"]
            for i in range(n_ * n_):
                r_, c_ = i % n_, i // n_
                if (r_ < c_) if c["a"]["uplo"] == "L" else (r_ > c_):
                    want["C"][i] = o["bufs"]["C"][i]
        if o["bufs"] != want:
            nm = [n for n in want if o["bufs"][n] != want[n]][0]
            diff = [i for i, (p, q) in enumerate(zip(o["bufs"][nm], want[nm])) if p != q]
            ck.violation("base|%s|wrong-result" % f, "%s: cells %s of %s are %s, specified %s" % (
                describe_sp(c), diff[:6], nm, [o["bufs"][nm][i] for i in diff[:6]], [want[nm][i] for i in diff[:6]]), {"call": c, "obs": o, "expected": e})
            continue
        outn = "y" if c["f"] == "sp_axpy" else "C"
        for nm in patb:
            if nm != outn and o["pat"].get(nm) != patb[nm]:
                ck.violation("base|%s|input-pattern-changed" % f, "%s changed the sparsity pattern of %s" % (describe_sp(c), nm), {"call": c, "obs": o})
        if outn in patb and c["a"]["partial"] and o["pat"].get(outn) != patb[outn]:
            ck.violation("base|%s|partial-changed-pattern" % f, "%s (partial=True) changed the sparsity pattern of %s" % (describe_sp(c), outn), {"call": c, "obs": o})
        if "ret" in o:
            ck.violation("base|%s|returns-a-value" % f, "%s returned %s" % (describe_sp(c), o["ret"]), {"call": c, "obs": o})


def run_base_products(ck, seed, sper):
    """the family above, judged by TLC (MC_Blas); used by C16 (the mixed sparse/dense products are part of that property)"""
    sparts = pmap(ck, _job_sp, [(seed * 1000 + 500 + i, sper) for i in range(16)], "baseprod", timeout=PMAP_TIMEOUT, ctx="spawn")
    sitems = [x for p in sparts for x in p]
    spay = [{"f": x["call"]["f"], "tc": x["call"]["tc"], "a": x["call"]["a"],
             "b": {nm: {k: v for k, v in bb.items() if k != "pat"} for nm, bb in x["call"]["b"].items()}} for x in sitems]
    sexp = c12.tlc_batch(ck, "MC_Blas", "sp", spay, chunk=600, par=14)
    spstats = {}
    judge_sp(ck, sitems, sexp, spstats)
    ck.extra["base_products"] = spstats
    return len(sitems)


def cls(c):
    a = c["a"]
    dims = ",".join("%s=%s" % (k, "dflt" if a[k] == -1 else min(a[k], 2)) for k in ("m", "n", "k") if k in KW[c["f"]] or k in [p[1:] for p in POS[c["f"]]])
    fl = "".join(str(a[k]) for k in ("trans", "transA", "transB", "uplo", "side", "diag") if k in KW[c["f"]])
    return "%s|%s|%s|%s" % (c["f"], c["tc"], dims, fl)


def describe(c):
    a = c["a"]
    shown = {k: a[k] for k in KW[c["f"]] + [p[1:] for p in POS[c["f"]] if p.startswith("@")] if not (k in INT_DEFAULT and a[k] == INT_DEFAULT[k]) and not (k in FLAG_DEFAULT and a[k] == FLAG_DEFAULT[k]) and a[k] != [D, D]}
    return "blas.%s(%s; %s) tc=%s" % (c["f"], ", ".join("%s %dx%d" % (nm, bb["nr"], bb["nc"]) for nm, bb in c["b"].items()), shown, c["tc"])


def run(tier, seed, replay=None):
    ck = Check("C17", tier, seed)
    ck.clean_replays()
    quick = tier == "quick"
    per = 40 if quick else 600
    ck.rule = ("%d seeded random calls of each of the 34 routines x 16 workers (dimensions 0..3 and default forms, increments, offsets, leading "
               "dimensions, flags, scalars, buffers at / beyond / one short of the footprint); distinct = distinct (routine, typecode, dims, flags) classes" % per)
    ck.trusted = ["TLC (Blas.tla: defaults, accept/reject, footprints, reference results)"]
    ck.assumptions = ["integer / Gaussian-integer data (exact); triangular solves use unit diagonals so the exact inverse stays in the lattice",
                      "calls that address nothing (a zero dimension) but carry another invalid argument are 'either': only 'buffers unchanged' is required"]
    parts = pmap(ck, _job, [(seed * 1000 + i, per) for i in range(16)], "c17", timeout=PMAP_TIMEOUT, ctx="spawn")
    items = [x for p in parts for x in p]
    payload = []
    for x in items:
        c = x["call"]
        payload.append({"f": c["f"], "tc": c["tc"], "b": c["b"], "a": c["a"]})
    exp = c12.tlc_batch(ck, "MC_Blas", "b", payload, chunk=600, par=14)
    ck.states = max(ck.states, 1); ck.transitions = max(ck.transitions, 1)
    stats = {"ok": 0, "err": 0, "either": 0, "conflict": 0}
    for x, e in zip(items, exp):
        c, o = x["call"], x["obs"]
        ck.evaluations += 1
        if "crash" in o:
            ck.violation("blas|%s|hang-or-crash" % c["f"], "%s killed the interpreter (%s)" % (describe(c), o["crash"]), {"call": c})
            continue
        before = {nm: [[float(v[0]), float(v[1])] for v in bb["d"]] for nm, bb in c["b"].items()}
        if c.get("conflict"):
            # conflicting typecodes: must be rejected, nothing changes (the converted buffer keeps its values: real part for z -> d)
            stats["conflict"] += 1
            ck.nontrivial(c["f"] + "|conflicting-typecodes")
            unchanged = all(o["bufs"][nm] == (before[nm] if nm != c["conflict"] or c["tc"] == "d" else [[v[0], 0.0] for v in before[nm]]) for nm in before)
            if "raised" not in o or o["raised"] != "TypeError":
                ck.violation("blas|%s|accepts-conflicting-types" % c["f"], "%s with %s of the other typecode: %s" % (describe(c), c["conflict"], o.get("raised", "accepted")), {"call": c, "obs": o})
            elif not unchanged:
                ck.violation("blas|%s|rejected-call-modified-arguments" % c["f"], "%s" % describe(c), {"call": c, "obs": o})
            continue
        stats[e["v"]] += 1
        ck.nontrivial(cls(c) + "|" + e["v"])
        want = {nm: [[float(v[0]), float(v[1])] for v in e["out"][nm]] for nm in e["out"]}
        if e["v"] == "err":
            if "raised" not in o:
                ck.violation("blas|%s|accepts-invalid-arguments" % c["f"], "%s was accepted; the arguments are inconsistent (footprint / flags / types)" % describe(c), {"call": c, "obs": o})
            elif o["raised"] not in ("TypeError", "ValueError"):
                ck.violation("blas|%s|wrong-exception|%s" % (c["f"], o["raised"]), "%s raised %s" % (describe(c), o["raised"]), {"call": c, "obs": o})
            elif o["bufs"] != before:
                ck.violation("blas|%s|rejected-call-modified-arguments" % c["f"], "%s raised %s but changed an argument" % (describe(c), o["raised"]), {"call": c, "obs": o})
            continue
        if e["v"] == "either":
            if o["bufs"] != before:
                ck.violation("blas|%s|empty-call-modified-arguments" % c["f"], "%s addresses nothing but changed an argument" % describe(c), {"call": c, "obs": o})
            continue
        if "raised" in o:
            ck.violation("blas|%s|rejects-valid-arguments|%s" % (c["f"], o["raised"]), "%s raised %s; the arguments are consistent" % (describe(c), o["raised"]), {"call": c, "obs": o})
            continue
        if o["bufs"] != want:
            nm = [n for n in want if o["bufs"][n] != want[n]][0]
            diff = [i for i, (p, q) in enumerate(zip(o["bufs"][nm], want[nm])) if p != q]
            ck.violation("blas|%s|wrong-result-or-footprint" % c["f"], "%s: cells %s of %s are %s, specified %s" % (
                describe(c), diff[:6], nm, [o["bufs"][nm][i] for i in diff[:6]], [want[nm][i] for i in diff[:6]]), {"call": c, "obs": o, "expected": e})
            continue
        r = o.get("ret")
        if c["f"] in ("dot", "dotu", "asum", "iamax"):
            if r is None or [r[0], r[1]] != [float(e["ret"][0]), float(e["ret"][1])]:
                ck.violation("blas|%s|wrong-return-value" % c["f"], "%s returned %s, specified %s" % (describe(c), r, e["ret"]), {"call": c, "obs": o, "expected": e})
        elif c["f"] == "nrm2":
            if r is None or abs(r[0] * r[0] - e["ret"][0]) > 1e-12 * max(1, e["ret"][0]):
                ck.violation("blas|nrm2|wrong-return-value", "%s returned %s, the square of the norm is %s" % (describe(c), r, e["ret"][0]), {"call": c, "obs": o, "expected": e})
        elif r is not None:
            ck.violation("blas|%s|returns-a-value" % c["f"], "%s returned %s" % (describe(c), r), {"call": c, "obs": o})
    ck.extra.update(stats)
    for x, e in list(zip(items, exp))[:2]:
        ck.sample({"call": describe(x["call"]), "verdict": e["v"]})
    ck.finish()
