"""C15 - dense matrices behave like the column-major arrays the manual describes.

Spec: DenseMatrix.tla (reference model: heap of objects + environment of names; constructors, one/two-argument indexing and
indexed assignment with ints / slices / lists / integer matrices, + - * with the promotion and scalar/1x1 rules, in-place
operators, transposes, real/imag, size reassignment, len/sum, aliasing).  TLC explores a box of operations on a small heap
(MC_DenseMatrix) for the design-level invariants; seeded random programs are run on real cvxopt.matrix objects and every
step (operation, result, all named objects, identity relations) is validated by TLC against the model (DenseMatrixTrace)."""
import json, os, random, multiprocessing as mp
PMAP_TIMEOUT = int(__import__('os').environ.get('VERIF_PMAP_TIMEOUT', '300'))
from harness import tlc
from harness.core import Check

NONEI = 999
NAMES = ["A", "B", "C", "D"]
MC_CFG = """CONSTANT MaxDepth = %d
SPECIFICATION Spec
CONSTRAINT Depth
INVARIANT WellFormed
PROPERTY TcStable
PROPERTY ErrNoEffect
PROPERTY FreshResults
"""


def num(rnd, tcs="id"):
    tc = rnd.choice(tcs)
    re = rnd.randint(-3, 4)
    im = rnd.randint(-2, 2) if tc == "z" else 0
    return {"tc": tc, "v": [re, im]}


def rand_index(rnd, n):
    r = rnd.random()
    if r < 0.35:
        return {"t": "int", "v": rnd.randint(-n - 2, n + 1)}
    if r < 0.7:
        def part():
            return NONEI if rnd.random() < 0.4 else rnd.randint(-n - 2, n + 2)
        c = rnd.choice([NONEI, NONEI, 1, -1, 2, -2, 3])
        return {"t": "slice", "a": part(), "b": part(), "c": c}
    k = rnd.randint(0, 3)
    return {"t": "list", "vs": [rnd.randint(-n - 1, n) for _ in range(k)], "asmatrix": rnd.random() < 0.4}


def gen_program(rnd, length):
    """a random program; shapes are tracked only roughly (the model decides validity)"""
    prog = []
    shapes = {}
    for step in range(length):
        bound = [n for n in NAMES if n in shapes]
        r = rnd.random()
        if not bound or r < 0.12:
            dst = rnd.choice(NAMES)
            k = rnd.choice([0, 1, 2, 3, 4, 6])
            tcs = rnd.choice(["i", "id", "idz", "d"])
            s = [num(rnd, tcs) for _ in range(k)]
            size = [NONEI, NONEI]
            if rnd.random() < 0.6 and k:
                d = [x for x in range(1, k + 1) if k % x == 0]
                a = rnd.choice(d)
                size = [a, k // a]
                if rnd.random() < 0.1:
                    size = [a, k // a + 1]
            elif k == 0:
                size = rnd.choice([[NONEI, NONEI], [0, 2], [3, 0], [0, 0]])
            tc = rnd.choice(["None", "None", "i", "d", "z"])
            op = {"k": "new_list", "s": s, "size": size, "tc": tc, "dst": dst}
            shapes[dst] = k
        elif r < 0.17:
            dst = rnd.choice(NAMES)
            size = rnd.choice([[NONEI, NONEI], [2, 2], [1, 3], [0, 2], [2, 1]])
            op = {"k": "new_num", "x": num(rnd, "idz"), "size": size, "tc": rnd.choice(["None", "None", "i", "d", "z"]), "dst": dst}
            shapes[dst] = 4
        elif r < 0.22:
            src = rnd.choice(bound); dst = rnd.choice(NAMES)
            n = shapes[src]
            size = [NONEI, NONEI]
            if rnd.random() < 0.5:
                size = rnd.choice([[n, 1], [1, n], [2, max(n // 2, 0)], [n + 1, 1]])
            op = {"k": "new_mat", "src": src, "size": size, "tc": rnd.choice(["None", "None", "i", "d", "z"]), "dst": dst}
            shapes[dst] = n
        elif r < 0.34:
            src = rnd.choice(bound)
            op = {"k": "get1", "src": src, "ix": rand_index(rnd, shapes[src]), "dst": rnd.choice(NAMES)}
            shapes[op["dst"]] = 3
        elif r < 0.44:
            src = rnd.choice(bound)
            op = {"k": "get2", "src": src, "ix": rand_index(rnd, 2), "jx": rand_index(rnd, 2), "dst": rnd.choice(NAMES)}
            shapes[op["dst"]] = 3
        elif r < 0.58:
            src = rnd.choice(bound)
            rr = rnd.random()
            if rr < 0.4:
                rhs = {"t": "num", "x": num(rnd, "idz")}
            elif rr < 0.7:
                rhs = {"t": "name", "n": rnd.choice(bound)}
            else:
                rhs = {"t": "list", "s": [num(rnd, rnd.choice(["i", "id"])) for _ in range(rnd.randint(0, 4))]}
            if rnd.random() < 0.5:
                op = {"k": "set1", "src": src, "ix": rand_index(rnd, shapes[src]), "rhs": rhs}
            else:
                op = {"k": "set2", "src": src, "ix": rand_index(rnd, 2), "jx": rand_index(rnd, 2), "rhs": rhs}
        elif r < 0.72:
            def operand():
                return {"t": "name", "n": rnd.choice(bound)} if rnd.random() < 0.7 else {"t": "num", "x": num(rnd, "idz")}
            a, b = operand(), operand()
            if a["t"] == "num" and b["t"] == "num":
                a = {"t": "name", "n": rnd.choice(bound)}
            o = rnd.choice(["+", "-", "*", "+", "-", "*", "/", "%", "**", "mul", "div", "max", "min"])
            if o in ("/", "%", "**") and rnd.random() < 0.85:
                a = {"t": "name", "n": rnd.choice(bound)}
                if rnd.random() < 0.75 or o == "**":
                    b = {"t": "num", "x": num(rnd, "idz" if rnd.random() < 0.25 else "id")}
                    if o == "**":
                        b["x"]["v"][0] = rnd.choice([0, 1, 2, 2, 3, -1])
                if o == "/" and b["t"] == "num" and rnd.random() < 0.5 and len(prog) < length - 1:
                    # (A * c) / c is exact: multiply first, then divide the product
                    mid = rnd.choice(NAMES)
                    prog.append({"k": "binop", "o": "*", "a": a, "b": b, "dst": mid})
                    shapes[mid] = 4
                    a = {"t": "name", "n": mid}
            op = {"k": "binop", "o": o, "a": a, "b": b, "dst": rnd.choice(NAMES)}
            shapes[op["dst"]] = 4
        elif r < 0.84:
            src = rnd.choice(bound)
            b = {"t": "name", "n": rnd.choice(bound)} if rnd.random() < 0.5 else {"t": "num", "x": num(rnd, "idz")}
            op = {"k": "ibinop", "o": rnd.choice(["+", "-", "*", "+", "-", "*", "/", "%"]), "src": src, "b": b}
            if op["o"] in ("/", "%") and rnd.random() < 0.7:
                op["b"] = {"t": "num", "x": num(rnd, "id")}
        elif r < 0.91:
            src = rnd.choice(bound)
            u = rnd.choice(["neg", "pos", "copy", "trans", "ctrans", "real", "imag", "abs", "abs"])
            if u == "abs" and rnd.random() < 0.5:
                # one-argument forms of the elementwise functions: mul(A), mul([A]), max([A]), min((A,)) are copies of A (new objects)
                op = {"k": "ew1", "f": rnd.choice(["mul", "mul", "max", "min"]), "form": rnd.choice(["plain", "list"]), "src": src, "dst": rnd.choice(NAMES)}
                if op["f"] != "mul":
                    op["form"] = "list"
            elif u == "abs":
                op = {"k": "abs", "src": src, "dst": rnd.choice(NAMES)}
            else:
                op = {"k": "unary", "u": u, "src": src, "dst": rnd.choice(NAMES)}
            shapes[op["dst"]] = shapes[src]
        elif r < 0.95:
            src = rnd.choice(bound)
            n = shapes[src]
            op = {"k": "setsize", "src": src, "size": rnd.choice([[n, 1], [1, n], [2, n // 2 if n else 0], [n, 2], [0, 0]])}
        elif r < 0.975:
            src = rnd.choice(bound); dst = rnd.choice(NAMES)
            op = {"k": "alias", "src": src, "dst": dst}
            shapes[dst] = shapes[src]
        else:
            op = {"k": rnd.choice(["len", "sum", "max1", "min1", "bool", "in", "list"]), "src": rnd.choice(bound)}
            if op["k"] == "in":
                op["x"] = num(rnd, "idz")
        prog.append(op)
    return prog


# ---------------------------------------------------------------------------
def _pynum(x):
    re, im = x["v"]
    if x["tc"] == "i":
        return int(re)
    if x["tc"] == "d":
        return float(re)
    return complex(re, im)


_IDX_LOG = []


def _pyindex(ix):
    from cvxopt import matrix
    if ix["t"] == "int":
        return ix["v"]
    if ix["t"] == "list" and ix.get("asmatrix") and ix["vs"]:
        M = matrix(ix["vs"], (len(ix["vs"]), 1), 'i')
        _IDX_LOG.append((M, list(ix["vs"])))      # the caller's index matrix must not be modified by the operation
        return M
    if ix["t"] == "slice":
        f = lambda v: None if v == NONEI else v
        return slice(f(ix["a"]), f(ix["b"]), f(ix["c"]))
    if ix.get("asmatrix") and ix["vs"]:
        return matrix(ix["vs"], (len(ix["vs"]), 1), 'i')
    return list(ix["vs"])


def _size(sz):
    return None if sz[0] == NONEI else (sz[0], sz[1])


def _obsnum(v):
    if isinstance(v, bool):
        return None
    if isinstance(v, int):
        return {"k": "num", "tc": "i", "v": [v, 0]}
    if isinstance(v, float):
        if not _isint(v):
            return {"k": "num", "tc": "d", "v": ["nonint", repr(v)]}
        return {"k": "num", "tc": "d", "v": [int(v), 0]}
    if isinstance(v, complex):
        if not (_isint(v.real) and _isint(v.imag)):
            return {"k": "num", "tc": "z", "v": ["nonint", repr(v)]}
        return {"k": "num", "tc": "z", "v": [int(v.real), int(v.imag)]}
    return None


def _isint(x):
    import math
    return math.isfinite(x) and x == int(x)


def _snap(M):
    buf = []
    for v in M:
        if M.typecode == "z":
            buf.append([int(v.real), int(v.imag)] if _isint(v.real) and _isint(v.imag) else ["nonint", repr(v)])
        else:
            buf.append([int(v), 0] if _isint(v) else ["nonint", repr(v)])
    return {"tc": M.typecode, "nr": M.size[0], "nc": M.size[1], "buf": buf}


def run_program(prog):
    """execute on real cvxopt.matrix objects; returns the trace"""
    import copy
    from cvxopt import matrix
    env = {}
    trace = []
    for op in prog:
        k = op["k"]
        out = {"k": "none"}
        del _IDX_LOG[:]
        try:
            for key in ("src",):
                if key in op and op[key] not in env:
                    raise KeyError("unbound")
            def operand(o):
                return env[o["n"]] if o["t"] == "name" else _pynum(o["x"])
            for key in ("a", "b", "rhs"):
                if key in op and op[key]["t"] == "name" and op[key]["n"] not in env:
                    raise KeyError("unbound")
            res = None
            if k == "new_list":
                args = [[_pynum(x) for x in op["s"]]]
                kw = {}
                if _size(op["size"]) is not None:
                    kw["size"] = _size(op["size"])
                if op["tc"] != "None":
                    kw["tc"] = op["tc"]
                res = matrix(*args, **kw)
            elif k == "new_num":
                kw = {}
                if _size(op["size"]) is not None:
                    kw["size"] = _size(op["size"])
                if op["tc"] != "None":
                    kw["tc"] = op["tc"]
                res = matrix(_pynum(op["x"]), **kw)
            elif k == "new_mat":
                kw = {}
                if _size(op["size"]) is not None:
                    kw["size"] = _size(op["size"])
                if op["tc"] != "None":
                    kw["tc"] = op["tc"]
                res = matrix(env[op["src"]], **kw)
            elif k == "get1":
                res = env[op["src"]][_pyindex(op["ix"])]
            elif k == "get2":
                res = env[op["src"]][_pyindex(op["ix"]), _pyindex(op["jx"])]
            elif k in ("set1", "set2"):
                r = op["rhs"]
                if r["t"] == "name" and env[r["n"]] is env[op["src"]]:
                    break      # reading and writing the same object through overlapping index sets: order of evaluation unspecified
                val = env[r["n"]] if r["t"] == "name" else (_pynum(r["x"]) if r["t"] == "num" else [_pynum(x) for x in r["s"]])
                if k == "set1":
                    env[op["src"]][_pyindex(op["ix"])] = val
                else:
                    env[op["src"]][_pyindex(op["ix"]), _pyindex(op["jx"])] = val
            elif k == "binop":
                a, b = operand(op["a"]), operand(op["b"])
                import cvxopt
                res = {"+": lambda: a + b, "-": lambda: a - b, "*": lambda: a * b, "/": lambda: a / b, "%": lambda: a % b, "**": lambda: a ** b,
                       "mul": lambda: cvxopt.mul(a, b), "div": lambda: cvxopt.div(a, b), "max": lambda: cvxopt.max(a, b),
                       "min": lambda: cvxopt.min(a, b)}[op["o"]]()
            elif k == "ibinop":
                A = env[op["src"]]
                b = operand(op["b"])
                if hasattr(b, "size") and (len(b) == 0 or len(A) == 0):
                    break      # in-place operations between empty matrices: unspecified (nothing to modify)
                A0 = A
                if op["o"] == "+":
                    A += b
                elif op["o"] == "-":
                    A -= b
                elif op["o"] == "/":
                    A /= b
                elif op["o"] == "%":
                    A %= b
                else:
                    A *= b
                if A is not A0:
                    out = {"k": "err", "cls": "in-place-created-new-object"}
                env[op["src"]] = A0
            elif k == "unary":
                A = env[op["src"]]
                u = op["u"]
                res = {"neg": lambda: -A, "pos": lambda: +A, "copy": lambda: copy.copy(A), "trans": lambda: A.T,
                       "ctrans": lambda: A.H, "real": lambda: A.real(), "imag": lambda: A.imag()}[u]()
            elif k == "setsize":
                env[op["src"]].size = (op["size"][0], op["size"][1])
            elif k == "alias":
                env[op["dst"]] = env[op["src"]]
            elif k == "abs":
                res = abs(env[op["src"]])
            elif k == "ew1":
                import cvxopt
                A = env[op["src"]]
                res = getattr(cvxopt, op["f"])(A if op["form"] == "plain" else [A])
            elif k in ("max1", "min1"):
                res = (max if k == "max1" else min)(env[op["src"]])
            elif k == "bool":
                out = {"k": "bool", "v": bool(env[op["src"]])}
            elif k == "in":
                out = {"k": "bool", "v": (_pynum(op["x"]) in env[op["src"]])}
            elif k == "list":
                A = env[op["src"]]
                vs = [_obsnum(v) for v in list(A)]
                out = {"k": "seq", "tc": A.typecode, "vs": [v["v"] for v in vs]} if all(v is not None and v["tc"] == A.typecode for v in vs) \
                    else {"k": "err", "cls": "iteration-yields-wrong-types"}
            elif k == "len":
                res = len(env[op["src"]])
            elif k == "sum":
                res = sum(env[op["src"]])
                A = env[op["src"]]
                # documented: sum of the elements; Python's sum() starts from int 0, so an empty matrix gives 0
                if len(A) == 0:
                    res = {"i": 0, "d": 0.0, "z": 0j}[A.typecode]
                elif A.typecode == "d":
                    res = float(res)
                elif A.typecode == "z":
                    res = complex(res)
            if res is not None:
                if hasattr(res, "typecode") and hasattr(res, "size"):
                    env[op["dst"]] = res
                    out = {"k": "mat"}
                else:
                    o = _obsnum(res)
                    out = o if o is not None else {"k": "err", "cls": "unexpected-result-type:" + type(res).__name__}
        except KeyError as e:
            if "unbound" in str(e):
                break          # the generator referenced a name that is not bound: stop the program here
            out = {"k": "err", "cls": "KeyError"}
        except IndexError:
            out = {"k": "err", "cls": "IndexError"}
        except (TypeError, ValueError, NotImplementedError, ArithmeticError, OverflowError) as e:
            out = {"k": "err", "cls": "TypeError" if isinstance(e, TypeError) else "ValueError" if isinstance(e, ValueError) else type(e).__name__}
        except Exception as e:
            out = {"k": "err", "cls": type(e).__name__}
        heap = {n: _snap(M) for n, M in env.items()}
        same = [[a, b] for a in env for b in env if env[a] is env[b]]
        idxok = all(list(M) == orig and M.size == (len(orig), 1) for M, orig in _IDX_LOG)
        del _IDX_LOG[:]
        trace.append({"op": _clean(op), "out": out, "heap": heap, "same": same, "idxok": idxok,
                      "nonint": '"nonint"' in json.dumps(heap) or '"nonint"' in json.dumps(out)})
    return trace


def _clean(op):
    def c(v):
        if isinstance(v, dict):
            return {k: c(x) for k, x in v.items() if k != "asmatrix"}
        if isinstance(v, list):
            return [c(x) for x in v]
        return v
    return c(op)


def _run_many(progs):
    return [run_program(p) for p in progs]


def _job(args):
    """programs run in forked children: the death of the interpreter is an observation attributed to the shortest crashing prefix"""
    from harness import isolate
    seed, n, length = args
    rnd = random.Random(seed)
    progs = [gen_program(rnd, rnd.randint(3, length)) for _ in range(n)]
    out = []
    for c0 in range(0, n, 50):
        chunk = progs[c0:c0 + 50]
        st, r = isolate.run_isolated(_run_many, chunk, timeout=300)
        if st == "ok":
            out += r
            continue
        for p in chunk:
            st1, r1 = isolate.run_isolated(run_program, p, timeout=60)
            if st1 == "ok":
                out.append(r1)
                continue
            k = len(p)
            for j in range(1, len(p) + 1):
                st2, r2 = isolate.run_isolated(run_program, p[:j], timeout=60)
                if st2 != "ok":
                    k = j
                    break
            out.append({"crash": "%s:%s" % (st1, r1), "prog": p[:k]})
    return out


def classify(ev, clause):
    op = ev["op"]
    k = op["k"]
    d = k
    if k in ("get1", "get2", "set1", "set2"):
        d += ":" + op["ix"]["t"] + ("," + op["jx"]["t"] if "jx" in op else "")
        if k.startswith("set"):
            d += ":rhs=" + op["rhs"]["t"]
    elif k in ("binop", "ibinop"):
        d += ":" + op["o"] + ":" + (op["a"]["t"] if "a" in op else "mat") + "," + op["b"]["t"]
    elif k == "unary":
        d += ":" + op["u"]
    elif k.startswith("new"):
        d += ":tc=" + op["tc"] + (":size" if op["size"][0] != NONEI else "")
    o = ev["out"]
    return "matrix|%s|%s|observed=%s" % (d, clause, o.get("cls", o["k"]))


def run(tier, seed, replay=None):
    ck = Check("C15", tier, seed)
    ck.clean_replays()
    quick = tier == "quick"
    ck.rule = ("seeded random programs over 4 names (constructors, indexing, indexed assignment, arithmetic, in-place operators, unary ops, "
               "reshape, aliasing) executed on real cvxopt.matrix objects; every step validated by TLC; distinct = distinct operation "
               "classes (operation kind, index kinds, operand kinds, outcome)")
    ck.trusted = ["TLC", "harness snapshot of a matrix (typecode, size, list(M)) and `is` for identity"]
    ck.assumptions = ["integer-valued data (arithmetic exact); division, remainder, power and the elementwise functions are not modelled yet"]
    r = tlc.run_tlc("MC_DenseMatrix", MC_CFG % (3 if quick else 4), tlc.workdir("c15/design"), timeout=900)
    if not ck.require_tlc_ok("MC_DenseMatrix box exploration", r):
        ck.finish()
    if r.violated:
        ck.violation("spec|DenseMatrix|" + r.violated, "design-level violation", r.out[-2000:])
        ck.finish()
    nprog, length = (4800, 14) if quick else (60000, 25)
    from harness.core import pmap
    parts = pmap(ck, _job, [(seed * 100 + i, nprog // 16, length) for i in range(16)], "c15", timeout=PMAP_TIMEOUT, chunksize=1)
    if parts is None:
        ck.finish()
    traces = []
    for tr_ in [t for p in parts for t in p if t]:
        if isinstance(tr_, dict):
            last = tr_["prog"][-1]
            ck.violation(classify({"op": _clean(last), "out": {"k": "interpreter-died"}}, "interpreter-died"),
                         "the interpreter died (%s) executing the last operation of %s" % (tr_["crash"], json.dumps(tr_["prog"])[:600]), tr_)
            continue
        for k_, ev_ in enumerate(tr_):
            if '"nonint"' in json.dumps(ev_["heap"]) or '"nonint"' in json.dumps(ev_["out"]):
                # a value outside the integers: legitimate for division / powers / moduli (the model answers "cut" there and the trace ends);
                # anywhere else the model's exact result differs and the step is rejected
                tr_ = tr_[:k_ + 1]
                break
        if tr_:
            traces.append(tr_)
    for c0 in range(0, len(traces), 2500):
        part = traces[c0:c0 + 2500]
        wd = tlc.workdir("c15/tr%d" % (c0 // 2500))
        tf = os.path.join(wd, "traces.json")
        json.dump(part, open(tf, "w"))
        rr = tlc.run_tlc("DenseMatrixTrace", "SPECIFICATION TSpec\n", wd, workers=1, env={"TRACE_FILE": tf}, timeout=1500, heap="6g")
        if not ck.require_tlc_ok("DenseMatrixTrace batch %d" % (c0 // 2500), rr):
            ck.finish()
        acc, failed = set(), {}
        for v in tlc.printed_values(rr.out):
            if v and v[0] == "ACCEPT":
                acc.add(v[1] - 1)
            elif v and v[0] == "FAILED":
                failed.setdefault(v[1] - 1, (v[2], str(v[3])))
        for i, tr in enumerate(part):
            ck.traces += 1
            for ev in tr:
                ck.evaluations += 1
                ck.nontrivial(classify(ev, "")[:80])
            if i not in acc:
                l, clause = failed.get(i, (len(tr), "?"))
                ev = tr[l - 1] if 0 < l <= len(tr) else tr[-1]
                ck.violation(classify(ev, clause), "step %d (%s) of a program on dense matrices: the implementation's %s differ from the reference model" % (
                    l, json.dumps(ev["op"])[:160], clause), {"trace": tr[:l], "failed": [l, clause]})
    ck.sample({"trace": traces[0][:4]})
    ck.finish()
