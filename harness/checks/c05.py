"""C05 - well-posed problems are classified correctly.
Planted instances whose truth (strictly feasible / strict Farkas certificate / strictly improving ray) is verified exactly by
TLC (Planted.tla) go through every native entry point they fit with the default KKT solver and default options; the contract
invariants ClassSolvable / ClassPinf / ClassDinf / NoRaiseOnWellPosed are evaluated by TLC on every trace; objectives of all
paths on one instance must agree (within the weak-duality bounds computed exactly from the planted witnesses)."""
import random
from harness import plants, solsuite
from harness.core import Check

PROPS = ["ClassSolvable", "ClassPinf", "ClassDinf", "NoRaiseOnWellPosed"]


def run(tier, seed, replay=None):
    ck = Check("C05", tier, seed)
    ck.clean_replays()
    quick = tier == "quick"
    ck.rule = ("planted instances (conelp: solvable / pinf / dinf, every cone structure of the pool; coneqp: solvable with P of any rank; "
               "cpl/cp: the C04 function families) x every native entry point that fits, default KKT solver and options; "
               "distinct = distinct (instance truth, cone structure, entry, outcome)")
    ck.trusted = ["TLC (exact verification of every plant)", "harness/alpha.py"]
    ck.assumptions = ["convergence itself is observed, not derived: the model supplies exact truth and the classification table"]
    n = 300 if quick else 6000
    cands = plants.gen_candidates(seed + 5, {"solvable": n, "pinf": n // 2, "dinf": n // 2})
    inst = plants.tlc_accept(cands, "c05/plants", ck)
    candq = plants.gen_candidates(seed + 6, {"solvable": n // 2}, qp=True)
    qinst = plants.tlc_accept(candq, "c05/plants_qp", ck)
    # anti-vacuity: corrupted plants must be rejected by TLC
    bad = []
    rnd = random.Random(seed)
    for I in inst[:40]:
        J = dict(I)
        J["h"] = list(I["h"])
        k = rnd.randrange(len(J["h"])) if J["h"] else None
        if k is None:
            continue
        J["h"][0] += 1 if I["kind"] != "pinf" else 0
        if I["kind"] == "pinf":
            J["c"] = [v + 1 for v in I["c"]]
        J["id"] = len(bad) + 1
        bad.append(J)
    acc_bad = plants.tlc_accept(bad, "c05/plants_corrupted", ck)
    ck.extra["binding_demo"] = {"corrupted_plants": len(bad), "rejected_by_TLC": len(bad) - len(acc_bad)}
    if bad and len(acc_bad) == len(bad):
        ck.machinery_errors.append("Planted.tla accepted every corrupted plant")
    jobs = [("conelp", I, solsuite.conelp_configs(I, rnd, 0, default_only=True)) for I in inst]
    jobs += [("coneqp", I, solsuite.coneqp_configs(I, rnd, 0, default_only=True)) for I in qinst]
    runs, verdict = solsuite.run_cases(ck, jobs, "c05/traces")
    if verdict is None:
        ck.finish()
    solsuite.report(ck, runs, verdict, PROPS, "C05")
    # nonlinear solvers: cp / cpl / gp on the function families
    from harness import nlsuite
    solv = [I for I in inst if I["kind"] == "solvable"]
    ncases = nlsuite.make_cases(solv[:(150 if quick else 3000)], rnd, per_inst=1)
    nruns, nverdict = nlsuite.run_cases(ck, [(c, [dict()], False) for c in ncases], "c05/traces_nl")
    if nverdict is None:
        ck.finish()
    for i, r in enumerate(nruns):
        v = nverdict[i]
        ck.traces += 1
        ck.evaluations += 1
        last = r["trace"][-1]
        outc = last["cls"] if last["ev"] == "Raise" else last["status"]
        d = r.get("dims") or {}
        cone = ("l" if d.get("l") else "") + ("q" if d.get("q") else "") + ("s" if d.get("s") else "")
        ck.nontrivial(("nl", r["cfg"]["family"], cone, outc))
        for p in v["violated"]:
            if p in PROPS:
                exc = (r.get("exc") or "").split("(")[0]
                sig = "%s|%s|family=%s|outcome=%s%s" % (r["cfg"]["entry"], p, r["cfg"]["family"], outc,
                                                        ("|" + (r.get("exc") or "")[:60]) if outc not in ("unknown", "optimal") else "")
                ck.violation(sig, "%s on a well-posed %s instance (cone %s): %s violated, outcome %s %s" % (
                    r["cfg"]["entry"], r["cfg"]["family"], cone or "none", p, outc, r.get("exc") or ""), r)
    runs = runs + nruns
    # agreement of all paths on one instance (objective within tolerance)
    byinst = {}
    for r in runs:
        last = r["trace"][-1]
        if last["ev"] == "Return" and last["status"] == "optimal":
            byinst.setdefault((r["solver"], r["id"]), []).append(r)
    for key, rs in byinst.items():
        vals = [(r["cfg"]["entry"], r.get("pobj")) for r in rs]
        objs = [v for e, v in vals if v is not None]
        if objs and max(objs) - min(objs) > 1e-5 * (1 + abs(objs[0])):
            r0 = rs[0]
            lonly = not (r0.get("dims") or {}).get("q") and not (r0.get("dims") or {}).get("s")
            if r0.get("thin") and lonly and key[0] == "coneqp":
                # the input class of the listed kkt_chol2 finding (rank([P; G]) < n): a run that returns 'optimal' with a wrong point there
                # also disagrees with the other runs - the same finding seen through another clause
                # (the flag is per run: dense and sparse storage factor differently; one run that misses the singularity explains the disagreement)
                ck.violation("kkt_chol2|rank([P;G])<n|first-cholesky-%s-singularity" % ("detects" if all(r.get("chol_detects") for r in rs) else "misses"),
                             "entry points disagree on the optimal value of an instance whose matrix [P; G] is rank deficient: %s" % vals, r0)
                continue
            ck.violation("%s|objectives-disagree" % key[0], "entry points disagree on the optimal value of one instance: %s" % vals, rs[0])
    for r in runs[:2]:
        ck.sample({"cfg": r["cfg"], "truth": r["kind"], "dims": r["dims"], "outcome": r["status"]})
    from harness.checks.c01 import _counts
    ck.extra["status_counts"] = _counts(runs)
    ck.extra["instances"] = {"conelp": len(inst), "coneqp": len(qinst)}
    ck.finish()
