"""C19 - no argument values make the C extension access memory outside its matrices.

Three bindings of the footprint model to the code, all on a GUARD build of the four C modules (harness/build.py --guard: every malloc'ed
block ends exactly at an inaccessible page and is preceded by one, freed blocks become inaccessible, so an access outside a matrix buffer or
after its release kills the process instead of going unnoticed):
 (1) accept / reject = footprint: the calls of C17's generator, and the same calls with one or two integer arguments replaced by values
     near 2^31, 2^16, 46341 (the square root of 2^31) and their negatives, are executed; TLC evaluates Blas.tla (MC_BlasClamp) and the
     decision and the unchanged buffers are compared - an accepted call whose footprint exceeds a buffer is a violation even when the
     guard page was not hit;
 (2) the interpreter survives: the operation generators of C15 (dense programs), C16 (sparse programs), C18 (LAPACK instances) and C20
     (buffer imports), LAPACK calls with huge integer arguments and constructors / indexing / sparse products / reshapes with huge
     integers run in crash-isolated forks of the guard build; death by signal (SIGSEGV, SIGBUS, SIGABRT from the allocator's header check)
     or a hang is a violation attributed to the single call that caused it;
 (3) every call either raises a Python exception or returns."""
import json, os, random, subprocess, sys
from concurrent.futures import ThreadPoolExecutor
from harness import tlc, build
from harness.core import Check
from harness.checks import c12, c17

PMAP_TIMEOUT = int(os.environ.get("VERIF_PMAP_TIMEOUT", "300"))
VERIF = os.path.dirname(os.path.dirname(os.path.dirname(os.path.abspath(__file__))))
C_INT = 2147483647


def run_family(gpkg, fam, seed, n):
    env = dict(os.environ)
    env["PYTHONPATH"] = os.pathsep.join([gpkg, VERIF, os.path.join(VERIF, ".deps")])
    env["OPENBLAS_NUM_THREADS"] = "1"
    # the AVX kernels of the system's OpenBLAS read a few bytes past the end of their operands (harmless, but fatal next to a guard page):
    # the SSE2 kernel set does not
    env["OPENBLAS_CORETYPE"] = "Prescott"
    # families whose code under test contains no external kernel (index arithmetic, sparse products) get no slack retry: one element past
    # the end is already a violation there
    env["VERIF_EXACT_GUARD"] = "1" if fam in ("index", "gemvbox", "base-large", "baseprod", "allocfail") else "0"
    outf = os.path.join(tlc.workdir("c19"), "%s_%d.json" % (fam, seed))
    if os.path.exists(outf):
        os.unlink(outf)
    try:
        p = subprocess.run([sys.executable, "-m", "harness.guardrun", fam, str(seed), str(n), outf], env=env, cwd=VERIF, capture_output=True, text=True, timeout=PMAP_TIMEOUT * 3)
    except subprocess.TimeoutExpired:
        return {"family": fam, "seed": seed, "error": "timeout"}
    if p.returncode != 0:
        return {"family": fam, "seed": seed, "error": "exit %d: %s" % (p.returncode, p.stderr[-600:])}
    try:
        d = json.load(open(outf))
    except Exception as e:
        return {"family": fam, "seed": seed, "error": "bad output: %s" % e}
    d["seed"] = seed
    return d


def clampint(v):
    return max(-C_INT, min(C_INT, v))


def run(tier, seed, replay=None):
    ck = Check("C19", tier, seed)
    ck.clean_replays()
    quick = tier == "quick"
    scale = 1 if quick else 12
    plan = {"blas": 40 * scale, "blas-large": 450 * scale, "index": 400 * scale, "gemvbox": 120 * scale, "baseprod": 200 * scale, "allocfail": 10 * scale, "lapack-shapes": 80 * scale, "lapack": 5 * scale, "lapack-large": 50 * scale, "base-large": 50 * scale,
            "dense": 12 * scale, "sparse": 6 * scale, "import": 10 * scale, "shapes": 60 * scale, "misc": 24 * scale}
    ck.rule = ("guard build; per worker x 16: " + ", ".join("%s %d" % kv for kv in plan.items()) + " generated calls / programs; BLAS calls judged by TLC "
               "(accept/reject = footprint, arguments near 2^31 clamped in the model); distinct = distinct (family, routine / operation, outcome) classes")
    ck.trusted = ["TLC (Blas.tla via MC_BlasClamp)", "build/guard_alloc.h (mmap allocator with guard pages, included at compile time in base, blas, lapack, misc_solvers)",
                  "fork isolation (harness/isolate.py): death by signal is attributed to one call"]
    ck.assumptions = ["the external BLAS/LAPACK libraries and the optional modules from the wheel are not rebuilt: only accesses relative to buffers allocated by the "
                      "rebuilt modules are guarded (their own work space is theirs)",
                      "an address-space limit of 8 GB makes huge allocations fail with MemoryError instead of exhausting the machine",
                      "OPENBLAS_CORETYPE=Prescott during guard runs: the AVX2/AVX512 kernels of the system's OpenBLAS over-read their operands by design",
                      "a crash that disappears when 64 accessible bytes are left between every block and its guard page is attributed to the external BLAS kernels "
                      "(over-read of at most one vector register) and only counted; exact footprints are decided by the model comparisons (1) and by C15-C18"]
    gpkg = build.ensure_build(guard=True)
    jobs = []
    for fam, n in plan.items():
        for i in range(16):
            jobs.append((fam, seed * 1000 + i, n))
    with ThreadPoolExecutor(max_workers=16) as ex:
        results = list(ex.map(lambda j: run_family(gpkg, *j), jobs))
    blas_items = []
    stats = {}
    for (fam, sd, n), d in zip(jobs, results):
        if "error" in d:
            ck.machinery_errors.append("guard run %s seed %d failed: %s" % (fam, sd, d["error"]))
            continue
        for c, r in zip(d["cases"], d["results"]):
            ck.evaluations += 1
            stats[fam] = stats.get(fam, 0) + 1
            if fam == "allocfail":
                # EXPLORATION BEYOND THE PROPERTY (C19 quantifies over argument values, not over the success of malloc): the k-th allocation of
                # the rebuilt modules is made to fail, k = 1, 2, ...  Outcomes are recorded in the evidence, not reported as violations: the
                # sparse kernels are known not to check every allocation (DESIGN.md II.5).
                af = ck.extra.setdefault("allocation_failure_enumeration", {"cases": 0, "injected_failures": 0, "interpreter_died": {}, "invalid_matrix_after_failure": 0,
                                                                          "note": "not part of the verdict: outside the quantifier of C19"})
                af["cases"] += 1
                what = c[0] + (":" + c[1]["f"] if c[0] == "sp" else "")
                if "crash" in r:
                    af["interpreter_died"][what] = af["interpreter_died"].get(what, 0) + 1
                else:
                    af["injected_failures"] += r.get("kmax", 0)
                    af["invalid_matrix_after_failure"] += len(r.get("bad", []))
                ck.nontrivial("allocfail|%s|%s" % (what, "died" if "crash" in r else "survived"))
                continue
            if "crash" in r and fam == "misc" and not c["valid"]:
                # cvxopt.misc_solvers validates nothing (see known_findings.json): one signature per function
                ck.violation("memory|misc_solvers|%s|unchecked-arguments" % c["f"], "guard build: misc_solvers.%s with a vector shorter than dims requires died (%s)" % (c["f"], r["crash"]),
                             {"family": fam, "seed": sd, "case": c, "crash": r["crash"]})
                ck.nontrivial("misc|%s|invalid|crash" % c["f"])
                continue
            if "crash" in r:
                what = c.get("f") if isinstance(c, dict) and "f" in c else fam
                desc = (c17.describe(c) if fam.startswith("blas") else c17.describe_sp(c) if fam == "baseprod" else json.dumps(c)[:400])
                ck.violation("memory|%s|%s|killed-the-interpreter" % (fam, what), "guard build: %s died (%s): %s" % (fam, r["crash"], desc), {"family": fam, "seed": sd, "case": c, "crash": r["crash"]})
                continue
            if fam == "baseprod" and r.get("ccs"):
                ck.violation("memory|baseprod|%s|invalid-matrix-after-call" % c["f"], "guard build: %s left %s with an invalid compressed-column structure" % (c17.describe_sp(c), r["ccs"]),
                             {"family": fam, "seed": sd, "case": c})
                continue
            if "overread_le_64" in r:
                stats["overread_le_64"] = stats.get("overread_le_64", 0) + 1
            if fam.startswith("blas"):
                blas_items.append((c, r))
            else:
                key = (c.get("f") if isinstance(c, dict) and "f" in c else str(c.get("k")) if isinstance(c, dict) and "k" in c else "") if isinstance(c, dict) else ""
                ck.nontrivial("%s|%s|%s" % (fam, key, r.get("raised", "ran")))
    # accept / reject against the footprint model
    payload, judged = [], []
    for c, r in blas_items:
        ints = [c["a"][k] for k in c["a"] if isinstance(c["a"][k], int)]
        if any(abs(v) > C_INT + 1 or v == C_INT + 1 for v in ints):
            # does not fit a C int: the argument parser must refuse it
            ck.nontrivial("blas|%s|not-a-C-int" % c["f"])
            if r.get("raised") not in ("OverflowError", "TypeError", "ValueError"):
                ck.violation("memory|blas|%s|accepts-integer-beyond-C-int" % c["f"], "%s was not refused (%s)" % (c17.describe(c), r.get("raised", "accepted")), {"call": c, "obs": r})
            continue
        payload.append({"f": c["f"], "tc": c["tc"], "b": c["b"], "a": {k: (clampint(v) if isinstance(v, int) else v) for k, v in c["a"].items()}})
        judged.append((c, r))
    exp = c12.tlc_batch(ck, "MC_BlasClamp", "g", payload, chunk=600, par=14)
    ck.states = max(ck.states, 1); ck.transitions = max(ck.transitions, 1)
    for (c, o), e in zip(judged, exp):
        big = any(isinstance(v, int) and abs(v) > 10000 for v in c["a"].values())
        ck.nontrivial("blas|%s|%s|%s" % (c["f"], "large" if big else "small", e["v"]))
        before = {nm: [[float(v[0]), float(v[1])] for v in bb["d"]] for nm, bb in c["b"].items()}
        if e["v"] == "err":
            if "raised" not in o:
                ck.violation("memory|blas|%s|accepts-footprint-beyond-buffer%s" % (c["f"], "|large-values" if big else ""),
                             "%s was accepted although its arguments are inconsistent with the buffers (the check of the footprint must not overflow)" % c17.describe(c), {"call": c, "obs": o})
            elif o["bufs"] is not None and o["bufs"] != before:
                ck.violation("memory|blas|%s|rejected-call-modified-arguments" % c["f"], c17.describe(c), {"call": c, "obs": o})
        elif e["v"] == "ok" and "raised" in o and not big:
            ck.violation("memory|blas|%s|rejects-valid-arguments|%s" % (c["f"], o["raised"]), "%s raised %s" % (c17.describe(c), o["raised"]), {"call": c, "obs": o})
    ck.extra["cases_per_family"] = stats
    ck.finish()
