"""C20 - matrices survive serialisation, copying and buffer exchange unchanged.

Spec: BufferProtocol.tla - names bound to matrix objects, objects owning storage, views (exported buffers) that keep their source alive;
actions New / Alias / CopyOf(copy-like operation) / Export / WriteMat / WriteView / IOp / Reshape / Release / Drop.  TLC checks
ValidWhileHeld, NoLeakNoDangling and the action properties CopyIsFresh and WriteFrame on the full state graph of every template family
(dense i/d/z incl. empty shapes, sparse d/z incl. explicit zeros and empty patterns) and dumps the graph.
Binding (spec -> code): every edge of every dumped graph is replayed on real objects (path from the initial state, then the edge) and the
COMPLETE abstract state is compared after it: for every bound name kind, typecode, size, values and compressed-column structure, object
identity between names, and for every live view the values seen through the exported buffer in the shape it was exported with.  A
CopyOf edge executes EVERY concrete copy-like operation of its class (+m, m[:, :], copy.copy, copy.deepcopy, pickle protocols 0-5 /
matrix(m), matrix(memoryview(m)), matrix(numpy.asarray(m)), tofile+fromfile through a real file and through io.BytesIO / spmatrix(V, I, J)),
compares each result and checks its independence by mutating it; views are memoryviews and numpy arrays made by numpy.asarray.
BufferImport (second part of the module MC_BufferImport): the dense matrix that matrix(obj) must build from an object exporting the
buffer protocol - formats 'i','l','d','Zd' x requested typecode, 1 and 2 dimensions, C / Fortran / stepped / negative strides,
offsets, unsupported formats and dimensions refused - evaluated by TLC on harness-generated buffer descriptions."""
import io, json, os, random, sys, tempfile
from harness import tlc
from harness.core import Check, pmap

PMAP_TIMEOUT = int(os.environ.get("VERIF_PMAP_TIMEOUT", "300"))
sys.path.insert(0, os.path.join(os.path.dirname(os.path.dirname(os.path.dirname(os.path.abspath(__file__)))), ".deps"))

FAMILIES = ["TA", "TB", "TC", "TD", "TE"]
CFG = """CONSTANTS
Names <- N2
Views <- %s
Templates <- %s
Hows <- HowSet
MaxDepth = %d
WriteVal = 5
SPECIFICATION Spec
INVARIANT ValidWhileHeld
INVARIANT NoLeakNoDangling
PROPERTY CopyIsFresh
PROPERTY WriteFrame
"""


# ------------------------------------------------------------------ concrete world
def cval(tc, c):
    return int(c) if tc == "i" else float(c) if tc == "d" else complex(c, -c)


def cell_of(tc, x):
    """inverse of cval, None if x is not the image of an integer cell"""
    if tc == "z":
        x = complex(x)
        return int(x.real) if x.real == int(x.real) and x.imag == -x.real else None
    return int(x) if x == int(x) else None


def make(t):
    from cvxopt import matrix, spmatrix
    if t["kind"] == "dense":
        return matrix([cval(t["tc"], c) for c in t["cells"]], (t["nr"], t["nc"]), t["tc"])
    I, J = [], []
    for j in range(t["nc"]):
        for k in range(t["colptr"][j], t["colptr"][j + 1]):
            I.append(t["rowind"][k]); J.append(j)
    return spmatrix([cval(t["tc"], c) for c in t["cells"]], I, J, (t["nr"], t["nc"]), t["tc"])


def project(o):
    from cvxopt import matrix, spmatrix
    if isinstance(o, matrix):
        return {"kind": "dense", "tc": o.typecode, "nr": o.size[0], "nc": o.size[1], "cells": [cell_of(o.typecode, x) for x in o], "colptr": [], "rowind": []}
    if isinstance(o, spmatrix):
        cp, ri, v = o.CCS
        return {"kind": "sparse", "tc": o.typecode, "nr": o.size[0], "nc": o.size[1], "cells": [cell_of(o.typecode, x) for x in v],
                "colptr": [int(a) for a in cp], "rowind": [int(a) for a in ri]}
    return {"kind": "other:" + type(o).__name__}


class World(object):
    def __init__(self, templates, rot):
        self.env, self.views, self.T, self.rot = {}, {}, templates, rot
        self.problems = []

    def view_cells(self, v):
        import numpy as np
        obj, tc = self.views[v]
        a = np.asarray(obj)
        out = [cell_of(tc, x) for x in a.flatten(order="F").tolist()]
        shape = tuple(a.shape)
        del a
        return shape, out

    def state(self):
        names = sorted(self.env)
        st = {"env": {n: project(self.env[n]) for n in names},
              "same": [[a, b] for i, a in enumerate(names) for b in names[i + 1:] if self.env[a] is self.env[b]],
              "views": {}}
        for v in sorted(self.views):
            shape, cells = self.view_cells(v)
            st["views"][v] = {"shape": list(shape), "cells": cells}
        return st

    # ---- copy-like operations
    def copies(self, o, cls):
        """list of (name, thunk) of the concrete operations of class cls"""
        import copy, pickle
        import numpy as np
        from cvxopt import matrix, spmatrix
        ops = []
        if cls == "copy":
            ops += [("+m", lambda: +o), ("m[:, :]", lambda: o[:, :]), ("copy.copy", lambda: copy.copy(o)), ("copy.deepcopy", lambda: copy.deepcopy(o))]
            ops += [("pickle%d" % p, (lambda p=p: pickle.loads(pickle.dumps(o, p)))) for p in range(pickle.HIGHEST_PROTOCOL + 1)]
        elif cls == "buffer":
            def viafile():
                fd, path = tempfile.mkstemp(prefix="c20_")
                try:
                    with os.fdopen(fd, "wb") as f:
                        o.tofile(f)
                    n = matrix(0, o.size, o.typecode)
                    with open(path, "rb") as f:
                        n.fromfile(f)
                    return n
                finally:
                    os.unlink(path)
            def viabytesio():
                b = io.BytesIO()
                o.tofile(b)
                b.seek(0)
                n = matrix(0, o.size, o.typecode)
                n.fromfile(b)
                return n
            ops += [("matrix(m)", lambda: matrix(o)), ("matrix(memoryview(m))", lambda: matrix(memoryview(o))),
                    ("matrix(numpy.asarray(m))", lambda: matrix(np.asarray(o))), ("matrix(m, tc=m.typecode)", lambda: matrix(o, tc=o.typecode)),
                    ("tofile/fromfile", viafile), ("tofile/fromfile BytesIO", viabytesio)]
        elif cls == "triplets":
            ops += [("spmatrix(V, I, J, size)", lambda: spmatrix(o.V, o.I, o.J, o.size, o.typecode))]
        return ops

    def refusals(self, o, cls):
        """operations of a class that does not exist for this kind of matrix: each must raise"""
        from cvxopt import spmatrix
        if cls == "buffer":
            return [("memoryview(m)", lambda: memoryview(o)), ("m.tofile", lambda: o.tofile(io.BytesIO()))]
        if cls == "triplets":
            return [("m.V, m.I, m.J", lambda: (o.V, o.I, o.J))]
        return []

    def step(self, a, final=True):
        """execute one model action on the real objects; returns ok (bool).  On the way to the edge under test (final = False) a CopyOf
        executes only one concrete operation of its class; the edge under test executes all of them"""
        import numpy as np
        from cvxopt import matrix, spmatrix
        k = a["a"]
        if k == "New":
            self.env[a["n"]] = make(self.T[a["t"] - 1])
            return True
        if k == "Alias":
            self.env[a["n"]] = self.env[a["m"]]
            return True
        if k == "CopyOf":
            src = self.env[a["m"]]
            want = project(src)
            if not a["ok"]:
                for nm, th in self.refusals(src, a["how"]):
                    try:
                        th()
                        self.problems.append(("accepts", "%s on a %s matrix did not raise" % (nm, want["kind"])))
                    except Exception:
                        pass
                return False
            res = []
            allops = self.copies(src, a["how"])
            if not final:
                allops = [allops[self.rot % len(allops)]]
            for nm, th in allops:
                try:
                    r = th()
                except Exception as e:
                    self.problems.append(("copy-raises|" + nm, "%s raised %s: %s" % (nm, type(e).__name__, e)))
                    continue
                if project(r) != want:
                    self.problems.append(("copy-differs|" + nm, "%s gives %s for %s" % (nm, project(r), want)))
                    continue
                if r is src:
                    self.problems.append(("copy-is-alias|" + nm, "%s returned the same object" % nm))
                    continue
                res.append((nm, r))
            if not res:
                return True
            keep = res[self.rot % len(res)]
            # independence of the discarded copies: mutate them, the source must not change
            for nm, r in res:
                if r is keep[1]:
                    continue
                try:
                    if len(r) > 0:
                        if isinstance(r, matrix):
                            r[0] = cval(r.typecode, 9)
                        else:
                            r *= -3
                except Exception as e:
                    self.problems.append(("copy-immutable|" + nm, "cannot mutate the result of %s: %s" % (nm, e)))
                if project(src) != want:
                    self.problems.append(("copy-shares-storage|" + nm, "mutating the result of %s changed the source" % nm))
                    break
            self.env[a["n"]] = keep[1]
            return True
        if k == "Export":
            src = self.env[a["m"]]
            if not a["ok"]:
                for nm, th in [("memoryview(m)", lambda: memoryview(src))]:
                    try:
                        th()
                        self.problems.append(("accepts", "%s on a sparse matrix did not raise" % nm))
                    except Exception:
                        pass
                return False
            obj = memoryview(src) if (a["v"] == "v") == (self.rot % 2 == 0) else np.asarray(src)
            self.views[a["v"]] = (obj, src.typecode)
            return True
        if k == "WriteMat":
            o = self.env[a["m"]]
            x = cval(o.typecode, 5)
            if isinstance(o, matrix):
                o[a["k"] - 1] = x
            else:
                I, J = o.I, o.J
                o[int(I[a["k"] - 1]), int(J[a["k"] - 1])] = x
            return True
        if k == "WriteView":
            obj, tc = self.views[a["v"]]
            arr = np.asarray(obj)
            nr = arr.shape[0]
            kk = a["k"] - 1
            arr[kk % nr, kk // nr] = cval(tc, 6)
            del arr
            return True
        if k == "IOp":
            o = self.env[a["m"]]
            o *= -1
            if o is not self.env[a["m"]]:
                self.problems.append(("inplace-new-object", "m *= -1 created a new object"))
                self.env[a["m"]] = o
            return True
        if k == "IOpWiden":
            o = self.env[a["m"]]
            before = project(o)
            ops = ["o += 1.5", "o -= 1.5", "o *= 2.0", "o /= 2.0", "o %= 2.0"] if o.typecode == "i" else ["o += 1j", "o -= 1j", "o *= 1j", "o /= 1j"]
            for op in ops:
                try:
                    exec(op, {"o": o})
                    self.problems.append(("inplace-widens|" + op.split()[1], "%s on a '%s' matrix was accepted" % (op, before["tc"])))
                except Exception:
                    pass
                if project(o) != before:
                    self.problems.append(("inplace-widens|" + op.split()[1], "%s on a '%s' matrix changed it to %s" % (op, before["tc"], project(o))))
                    break
            return False
        if k == "Reshape":
            o = self.env[a["m"]]
            o.size = (o.size[1], o.size[0])
            return True
        if k == "Release":
            obj, tc = self.views.pop(a["v"])
            if isinstance(obj, memoryview):
                obj.release()
            del obj
            return True
        if k == "Drop":
            del self.env[a["n"]]
            return True
        raise ValueError(k)


def expected_state(st):
    """abstract state of a graph node in the vocabulary of World.state()"""
    env, heap, views = st["env"], st["heap"], st["views"]
    names = sorted(n for n in env if env[n] != 0)
    def obj(i):
        h = heap[i - 1]
        return {"kind": h["kind"], "tc": h["tc"], "nr": h["nr"], "nc": h["nc"], "cells": list(h["cells"]), "colptr": list(h["colptr"]), "rowind": list(h["rowind"])}
    out = {"env": {n: obj(env[n]) for n in names},
           "same": [[a, b] for i, a in enumerate(names) for b in names[i + 1:] if env[a] == env[b]], "views": {}}
    for v in sorted(views):
        if views[v]["live"]:
            out["views"][v] = {"shape": [views[v]["nr"], views[v]["nc"]], "cells": list(heap[views[v]["src"] - 1]["cells"])}
    return out


def _replay(args):
    """replay a list of (path actions, final node state) in a child process"""
    templates, jobs, rot0 = args
    import gc
    out = []
    for i, (path, exp, key) in enumerate(jobs):
        w = World(templates, rot0 + i)
        try:
            for a in path[:-1]:
                w.step(a, final=False)
            w.step(path[-1], final=True)
            got = w.state()
        except Exception as e:
            out.append({"key": key, "path": path, "error": "%s: %s" % (type(e).__name__, e)})
            continue
        if w.problems:
            out.append({"key": key, "path": path, "problems": w.problems[:3]})
        elif got != exp:
            out.append({"key": key, "path": path, "got": got, "exp": exp})
        # drop everything in a safe order
        for v in list(w.views):
            obj, _ = w.views.pop(v)
            if isinstance(obj, memoryview):
                obj.release()
        w.env.clear()
        if i % 200 == 0:
            gc.collect()
    return out


def _replay_isolated(args):
    from harness import isolate
    st, res = isolate.run_isolated(_replay, args, timeout=240)
    if st == "ok":
        return res
    # find the culprit one by one
    templates, jobs, rot0 = args
    out = []
    for i, j in enumerate(jobs):
        st1, r1 = isolate.run_isolated(_replay, (templates, [j], rot0 + i), timeout=20)
        if st1 == "ok":
            out += r1
        else:
            out.append({"key": j[2], "path": j[0], "crash": "%s:%s" % (st1, r1)})
    return out


def action_class(path):
    a = path[-1]
    return a["a"] + ("|" + a["how"] if "how" in a else "") + ("|refused" if not a.get("ok", True) else "")


# ------------------------------------------------------------------ buffer import (functional part)
def gen_import_case(rnd):
    """an object exporting the buffer protocol, described by (format, shape, strides in items, offset, base items)"""
    fmt = rnd.choice(["d", "d", "l", "i", "Zd", "f", "q", "B", "h"])
    ndim = rnd.choice([1, 2, 2, 2, 3, 0])
    base_shape = [rnd.randint(0, 4) for _ in range(max(ndim, 1))] if ndim else []
    order = rnd.choice(["C", "F"])
    slices = []
    for n in base_shape:
        step = rnd.choice([1, 1, 2, -1, -2])
        slices.append([None, None, step])
    req = rnd.choice([None, None, "i", "d", "z"])
    return {"fmt": fmt, "ndim": ndim, "base_shape": base_shape, "order": order, "slices": slices, "req": req, "via": rnd.choice(["numpy", "numpy", "array", "memoryview"])}


NP_DTYPE = {"d": "float64", "l": "int64", "i": "int32", "Zd": "complex128", "f": "float32", "q": "longlong", "B": "uint8", "h": "int16"}


def _import_cases(cases):
    import numpy as np, array
    from cvxopt import matrix
    out = []
    for c in cases:
        n = 1
        for s in c["base_shape"]:
            n *= s
        vals = list(range(1, n + 1))
        base = np.array(vals, dtype=NP_DTYPE[c["fmt"]])
        if c["fmt"] == "Zd":
            base = base - 1j * base
        if c["ndim"] == 0:
            src = np.array(3, dtype=NP_DTYPE[c["fmt"]])
        else:
            src = base.reshape(c["base_shape"], order=c["order"])
            src = src[tuple(slice(*s) for s in c["slices"])]
        if c["via"] == "array" and c["ndim"] == 1 and c["fmt"] in ("d", "l", "i", "f", "q", "B", "h") and c["slices"][0][2] == 1:
            src = array.array(c["fmt"], [int(v) if c["fmt"] != "d" and c["fmt"] != "f" else float(v) for v in vals])
        elif c["via"] == "memoryview":
            src = memoryview(src)
        mv = memoryview(src)
        desc = {"fmt": mv.format, "ndim": mv.ndim, "shape": list(mv.shape), "itemsize": mv.itemsize,
                "strides": [int(s) // mv.itemsize for s in (mv.strides or ())],
                "items": [int(v) for v in (np.asarray(src).real.flatten(order="C").tolist() if mv.ndim else [3])], "req": c["req"] or "none"}
        o = {"desc": desc}
        try:
            m = matrix(src) if c["req"] is None else matrix(src, tc=c["req"])
            o["res"] = {"tc": m.typecode, "nr": m.size[0], "nc": m.size[1], "cells": [cell_of(m.typecode, x) if m.typecode != "z" or c["fmt"] == "Zd" else
                                                                                      (int(complex(x).real) if complex(x).imag == 0 else None) for x in m]}
            # independence
            if len(m) and mv.ndim and not mv.readonly:
                before = list(m)
                a = np.asarray(src)
                a[...] = 0
                o["independent"] = list(m) == before
        except Exception as e:
            o["raised"] = type(e).__name__
        out.append(o)
    return out


def run(tier, seed, replay=None):
    ck = Check("C20", tier, seed)
    ck.clean_replays()
    quick = tier == "quick"
    depth = 4 if quick else 5
    ck.rule = ("every edge of the state graph of BufferProtocol.tla (2 names, 1-2 views, 5 template families, histories of <= %d actions) replayed on real "
               "objects with the complete abstract state compared after it; plus random buffer-import cases; distinct = distinct (family, action class) pairs" % depth)
    ck.trusted = ["TLC", "numpy (only as a consumer / producer of the buffer protocol and to read views)", "harness projection (cells <-> values)"]
    ck.assumptions = ["values are small integers (complex: c - c*1j); sparse writes go to stored entries only (C16 covers pattern changes)"]
    rnd = random.Random(seed)
    jobs_all = []
    for fam in FAMILIES:
        for vs in (["V1"] if quick else ["V1", "V2"]):
            d = depth if vs == "V1" else depth - 1
            wd = tlc.workdir("c20/%s_%s" % (fam, vs))
            r = tlc.run_tlc("MC_BufferProtocol", CFG % (vs, fam, d), wd, dump="graph", timeout=1800, heap="8g")
            if not ck.require_tlc_ok("MC_BufferProtocol %s %s depth %d" % (fam, vs, d), r):
                ck.finish()
            if r.violated:
                ck.violation("spec|BufferProtocol|" + r.violated, "design-level violation of %s" % r.violated, r.out[-2000:])
                ck.finish()
            nodes, edges, init = tlc.parse_dot(os.path.join(wd, "graph.dot"))
            # templates of this family from the initial New edges: read from the module text instead (constants), via a New successor
            # BFS tree
            succ = {}
            for s, t, _ in edges:
                succ.setdefault(s, []).append(t)
            parent = {init[0]: None}
            order = [init[0]]
            for u in order:
                for v_ in succ.get(u, []):
                    if v_ not in parent:
                        parent[v_] = u
                        order.append(v_)
            def path_to(u):
                p = []
                while parent[u] is not None:
                    p.append(nodes[u]["last"])
                    u = parent[u]
                return p[::-1]
            paths = {u: path_to(u) for u in order}
            templates = family_templates(fam)
            jobs = []
            seen_edges = set()
            for s, t, _ in edges:
                if (s, t) in seen_edges or s == t:
                    continue
                seen_edges.add((s, t))
                p = paths[s] + [nodes[t]["last"]]
                jobs.append((p, expected_state(nodes[t]), "%s/%s" % (fam, vs)))
            ck.transitions_replayed = getattr(ck, "transitions_replayed", 0) + len(jobs)
            rnd.shuffle(jobs)
            for c0 in range(0, len(jobs), 400):
                jobs_all.append((templates, jobs[c0:c0 + 400], rnd.randrange(1000)))
    res = pmap(ck, _replay_isolated, jobs_all, "c20-replay", timeout=PMAP_TIMEOUT, ctx="spawn")     # small workers: forking the parent (which holds the parsed graphs) is slow
    nrep = 0
    for (templates, jobs, _), part in zip(jobs_all, res):
        nrep += len(jobs)
        for p, exp, key in jobs:
            ck.nontrivial(key + "|" + action_class(p))
        for bad in part:
            act = action_class(bad["path"])
            if "crash" in bad:
                ck.violation("buffer|hang-or-crash|" + act, "replaying %s killed the interpreter (%s)" % (bad["path"], bad["crash"]), bad)
            elif "error" in bad:
                ck.violation("buffer|raises|" + act + "|" + bad["error"].split(":")[0], "history %s: %s" % (bad["path"], bad["error"]), bad)
            elif "problems" in bad:
                ck.violation("buffer|" + bad["problems"][0][0], "history %s: %s" % (bad["path"], bad["problems"][0][1]), bad)
            else:
                ck.violation("buffer|state-differs|" + act, "after history %s the objects are %s, specified %s" % (bad["path"], json.dumps(bad["got"])[:400], json.dumps(bad["exp"])[:400]), bad)
    ck.evaluations += nrep
    ck.traces += nrep
    # ---- buffer import
    ncase = 600 if quick else 20000
    cases = [gen_import_case(rnd) for _ in range(ncase)]
    from harness import isolate
    obs = []
    for c0 in range(0, ncase, 200):
        st, r = isolate.run_isolated(_import_cases, cases[c0:c0 + 200], timeout=120)
        if st != "ok":
            ck.violation("buffer-import|hang-or-crash", "matrix(buffer) killed the interpreter (%s)" % (r,), {"cases": cases[c0:c0 + 200]})
            r = []
        obs += r
    wd = tlc.workdir("c20/import")
    cf, of = os.path.join(wd, "cases.json"), os.path.join(wd, "out.json")
    json.dump([o["desc"] for o in obs], open(cf, "w"))
    r = tlc.run_tlc("MC_BufferImport", "SPECIFICATION Spec\n", wd, workers=1, env={"CASE_FILE": cf, "OUT_FILE": of}, timeout=900)
    if not ck.require_tlc_ok("MC_BufferImport", r):
        ck.finish()
    exp = json.load(open(of))["res"]
    for o, e in zip(obs, exp):
        ck.evaluations += 1
        d = o["desc"]
        ck.nontrivial("import|%s|ndim=%d|req=%s|%s" % (d["fmt"], d["ndim"], d["req"], "err" if e["err"] else "ok"))
        if e["err"]:
            if "raised" not in o:
                ck.violation("buffer-import|accepts-unsupported|fmt=%s|ndim=%d|req=%s" % (d["fmt"], d["ndim"], d["req"]), "matrix(obj) accepted %s and returned %s" % (d, o.get("res")), {"case": o})
            continue
        if "raised" in o:
            ck.violation("buffer-import|refuses-supported|fmt=%s|ndim=%d|req=%s" % (d["fmt"], d["ndim"], d["req"]), "matrix(obj) raised %s for %s" % (o["raised"], d), {"case": o})
        elif o["res"] != {k: e[k] for k in ("tc", "nr", "nc", "cells")}:
            ck.violation("buffer-import|wrong-matrix|fmt=%s|ndim=%d" % (d["fmt"], d["ndim"]), "matrix(obj) = %s, the buffer describes %s (%s)" % (o["res"], e, d), {"case": o, "expected": e})
        elif o.get("independent") is False:
            ck.violation("buffer-import|shares-storage", "matrix(obj) changed when the source buffer was overwritten (%s)" % d, {"case": o})
    ck.finish()


def family_templates(fam):
    D = lambda tc, nr, nc, cells: {"kind": "dense", "tc": tc, "nr": nr, "nc": nc, "cells": cells, "colptr": [], "rowind": []}
    Sp = lambda tc, nr, nc, cells, cp, ri: {"kind": "sparse", "tc": tc, "nr": nr, "nc": nc, "cells": cells, "colptr": cp, "rowind": ri}
    return {"TA": [D("d", 2, 1, [1, 2]), D("i", 1, 2, [1, 2])],
            "TB": [D("z", 1, 1, [1]), D("d", 0, 2, [])],
            "TC": [Sp("d", 2, 2, [1, 0, 2], [0, 2, 3], [0, 1, 1]), D("d", 1, 2, [1, 2])],
            "TD": [Sp("d", 2, 1, [], [0, 0], []), Sp("z", 1, 2, [1], [0, 0, 1], [0])],
            "TE": [D("d", 2, 2, [1, 2, 3, 4]), D("i", 2, 0, [])]}[fam]
