"""C08 - cone-algebra kernels match their mathematical definition in both implementations.

Spec: specs/ConeAlgebra.tla (+ MC_ConeAlgebra): every kernel defined from its mathematical definition in exact rational
arithmetic; TLC also checks the identities (scale/inverse involution, adjointness, sinv o sprod = id, triusc o trisc = id...)
on every generated case, which guards the specification itself.
Binding (spec -> code): the harness enumerates argument cases (dims incl. empty / order-0/1 blocks, mnl, flags, offsets,
multi-column arguments, lattice vectors, interior points where required), TLC computes the expected result of each, and both
implementations - the compiled cvxopt.misc_solvers and the in-tree Python fallbacks (src/python/misc.py loaded with
use_C = False) - are run on canary-padded buffers: referenced cells must equal the specified rational (exactly when dyadic,
to 8 ulp otherwise), every cell outside the addressed blocks must be untouched."""
import json, math, os, random, sys, types
from fractions import Fraction as Fr
from harness import tlc
from harness.core import Check

CANARY = 777.25
DIMS = [
    {"l": 2, "q": [], "s": []}, {"l": 0, "q": [2], "s": []}, {"l": 1, "q": [3], "s": []}, {"l": 0, "q": [1], "s": []},
    {"l": 1, "q": [2, 3], "s": []}, {"l": 0, "q": [], "s": [2]}, {"l": 1, "q": [], "s": [1]}, {"l": 0, "q": [], "s": [0, 2]},
    {"l": 1, "q": [2], "s": [2, 1]}, {"l": 2, "q": [1, 2], "s": [2]}, {"l": 0, "q": [], "s": [3]}, {"l": 0, "q": [], "s": []},
    {"l": 1, "q": [], "s": [2, 2]}, {"l": 0, "q": [3], "s": [3, 2]},
]
HYP = [[Fr(5, 4), Fr(3, 4)], [Fr(13, 12), Fr(5, 12)], [Fr(5, 3), Fr(4, 3)], [Fr(1), Fr(0)], [Fr(17, 8), Fr(15, 8)]]   # v0^2 - v1^2 = 1
UNIMOD2 = [[[1, 0], [0, 1]], [[1, 1], [0, 1]], [[1, 0], [-1, 1]], [[2, 1], [1, 1]], [[0, 1], [-1, 0]]]
UNIMOD3 = [[[1, 0, 0], [0, 1, 0], [0, 0, 1]], [[1, 1, 0], [0, 1, 1], [0, 0, 1]], [[1, 0, 0], [1, 1, 0], [0, -1, 1]]]


def cdim(d, mnl=0):
    return mnl + d["l"] + sum(d["q"]) + sum(m * m for m in d["s"])


def ddim(d, mnl=0):
    return mnl + d["l"] + sum(d["q"]) + sum(d["s"])


def rj(v):
    v = Fr(v)
    return [v.numerator, v.denominator]


def rvec(v):
    return [rj(a) for a in v]


def inv_mat(M):
    n = len(M)
    A = [[Fr(M[i][j]) for j in range(n)] + [Fr(1 if i == j else 0) for j in range(n)] for i in range(n)]
    for c in range(n):
        p = next(i for i in range(c, n) if A[i][c] != 0)
        A[c], A[p] = A[p], A[c]
        A[c] = [a / A[c][c] for a in A[c]]
        for i in range(n):
            if i != c and A[i][c] != 0:
                f = A[i][c]
                A[i] = [a - f * b for a, b in zip(A[i], A[c])]
    return [row[n:] for row in A]


def rand_vec(rnd, d, mnl, sym=True, vals=(-2, -1, 0, 1, 2, 3), half=True):
    """lattice cone vector; 's' blocks symmetric (sym) or with independent junk above the diagonal"""
    def val():
        v = Fr(rnd.choice(vals))
        if half and rnd.random() < 0.3:
            v = v / 2
        return v
    x = [val() for _ in range(mnl + d["l"] + sum(d["q"]))]
    for m in d["s"]:
        M = [[None] * m for _ in range(m)]
        for j in range(m):
            for i in range(j, m):
                M[i][j] = val()
                M[j][i] = M[i][j] if sym else val()
        for j in range(m):
            for i in range(m):
                x.append(M[i][j])
    return x


def rand_W(rnd, d, mnl):
    W = {"dnl": [Fr(rnd.choice([1, 2, 4, Fr(1, 2)])) for _ in range(mnl)], "d": [Fr(rnd.choice([1, 2, 4, Fr(1, 2)])) for _ in range(d["l"])],
         "beta": [], "v": [], "r": [], "rti": []}
    for m in d["q"]:
        W["beta"].append(Fr(rnd.choice([1, 2, Fr(1, 2)])))
        h = rnd.choice(HYP)
        v = [h[0]] + [Fr(0)] * (m - 1)
        if m > 1:
            v[rnd.randrange(1, m)] = h[1] * rnd.choice([1, -1])
        else:
            v = [Fr(1)]
        W["v"].append(v)
    for m in d["s"]:
        if m == 0:
            M = []
        elif m == 1:
            M = [[rnd.choice([1, 2, -2])]]
        elif m == 2:
            M = [row[:] for row in rnd.choice(UNIMOD2)]
        else:
            M = [row[:] for row in rnd.choice(UNIMOD3)]
        sc = Fr(rnd.choice([1, 2, Fr(1, 2)]))
        M = [[Fr(a) * sc for a in row] for row in M]
        Mi = inv_mat(M) if m else []
        W["r"].append([M[i][j] for j in range(m) for i in range(m)])                 # column-major
        W["rti"].append([Mi[j][i] for j in range(m) for i in range(m)])              # (M^-1)^T column-major: entry (i,j) = Mi[j][i]
    return W


def W_json(W):
    return {"dnl": rvec(W["dnl"]), "d": rvec(W["d"]), "beta": rvec(W["beta"]), "v": [rvec(v) for v in W["v"]],
            "r": [rvec(r) for r in W["r"]], "rti": [rvec(r) for r in W["rti"]]}


def interior_diag(rnd, d, mnl, squares=False):
    """point in the interior with diagonal 's' part in diagonal storage; squares: rational square roots exist"""
    sq = [Fr(1), Fr(4), Fr(9), Fr(1, 4), Fr(16)]
    y = [rnd.choice(sq) if squares else Fr(rnd.choice([1, 2, 3, Fr(1, 2)])) for _ in range(mnl + d["l"])]
    trip = [(5, 3), (5, 4), (13, 12), (13, 5), (3, 0), (1, 0), (17, 8), (17, 15), (10, 6)]     # a0^2 - a1^2 a perfect square
    for m in d["q"]:
        a0, a1 = rnd.choice(trip)
        v = [Fr(a0)] + [Fr(0)] * (m - 1)
        if m > 1:
            v[rnd.randrange(1, m)] = Fr(a1) * rnd.choice([1, -1])
        elif m == 1:
            v = [Fr(rnd.choice([1, 2, 3]))]
        y += v
    for m in d["s"]:
        y += [rnd.choice(sq) if squares else Fr(rnd.choice([1, 2, 3])) for _ in range(m)]
    return y


def gen_cases(seed, n):
    rnd = random.Random(seed)
    cases = []
    kinds = ["scale"] * 6 + ["scale2"] * 3 + ["sdot", "snrm2", "jdot", "jnrm2", "trisc", "triusc", "symm", "sprod", "sprod", "ssqr",
                                              "sinv", "sinv", "pack", "pack", "sgemv", "sgemv", "maxstep", "maxstep"]
    while len(cases) < n:
        k = rnd.choice(kinds)
        d = rnd.choice(DIMS)
        mnl = rnd.choice([0, 0, 1, 2])
        c = {"k": k, "d": d, "mnl": mnl}
        if k == "scale":
            c.update(x=rvec(rand_vec(rnd, d, mnl)), y=rvec(rand_vec(rnd, d, mnl)), W=W_json(rand_W(rnd, d, mnl)),
                     trans=rnd.random() < 0.5, inv=rnd.random() < 0.5, ncols=rnd.choice([1, 1, 2]))
        elif k == "scale2":
            c.update(lmbda=rvec(interior_diag(rnd, d, mnl, squares=True)), x=rvec(rand_vec(rnd, d, mnl, sym=False)), inv=rnd.random() < 0.5)
        elif k in ("sdot", "sprod"):
            c.update(x=rvec(rand_vec(rnd, d, mnl)), y=rvec(rand_vec(rnd, d, mnl)))
            if k == "sprod":
                c["diag"] = rnd.random() < 0.5
                if c["diag"]:
                    c["y"] = rvec(interior_diag(rnd, d, mnl))
        elif k == "snrm2":
            c.update(x=rvec(rand_vec(rnd, d, mnl)))
        elif k in ("jdot", "jnrm2"):
            m = rnd.randint(1, 4)
            c.update(x=rvec([Fr(rnd.randint(-3, 3)) for _ in range(m)]), y=rvec([Fr(rnd.randint(-3, 3)) for _ in range(m)]),
                     offx=rnd.randint(0, 2), offy=rnd.randint(0, 2))
            c["d"], c["mnl"] = {"l": 0, "q": [m], "s": []}, 0
        elif k in ("trisc", "triusc"):
            c["mnl"] = 0
            c.update(x=rvec(rand_vec(rnd, d, 0, sym=False)), off=rnd.randint(0, 2))
        elif k == "symm":
            m = rnd.randint(0, 3)
            c.update(m=m, x=rvec([Fr(rnd.randint(-3, 3)) for _ in range(m * m)]), off=rnd.randint(0, 2))
            c["d"], c["mnl"] = {"l": 0, "q": [], "s": [m]}, 0
        elif k == "ssqr":
            c.update(y=rvec([Fr(rnd.randint(-3, 3)) / rnd.choice([1, 2]) for _ in range(ddim(d, mnl))]))
        elif k == "sinv":
            c.update(x=rvec(rand_vec(rnd, d, mnl)), y=rvec(interior_diag(rnd, d, mnl)))
        elif k == "pack":
            c.update(x=rvec(rand_vec(rnd, d, mnl)), offx=rnd.randint(0, 2), offy=rnd.randint(0, 2), variant=rnd.choice(["pack", "pack2", "unpack"]))
        elif k == "sgemv":
            c["mnl"] = 0
            n_ = rnd.randint(1, 3)
            c.update(G=[rvec(rand_vec(rnd, d, 0, half=False)) for _ in range(n_)], trans=rnd.random() < 0.5,
                     alpha=rj(rnd.choice([1, -1, 2, Fr(1, 2)])), beta=rj(rnd.choice([0, 1, -1, 2])), n=n_)
            if c["trans"]:
                c.update(x=rvec(rand_vec(rnd, d, 0)), y=rvec([Fr(rnd.randint(-2, 2)) for _ in range(n_)]))
            else:
                c.update(x=rvec([Fr(rnd.randint(-2, 2)) for _ in range(n_)]), y=rvec(rand_vec(rnd, d, 0)))
        elif k == "maxstep":
            # blocks with rational answers: 'q' tails with Pythagorean norms, 's' blocks of order <= 2 of the form [[a, b], [b, a]] or diagonal
            d = rnd.choice([dd for dd in DIMS if all(m <= 2 for m in dd["s"]) and cdim(dd, 0) - dd["s"].count(0) * 0 > 0
                            and (dd["l"] + sum(dd["q"]) + sum(dd["s"])) > 0])
            if mnl + d["l"] + sum(d["q"]) + sum(d["s"]) == 0:
                continue
            c["d"] = d
            x = [Fr(rnd.randint(-3, 3)) for _ in range(mnl + d["l"])]
            for m in d["q"]:
                a0, a1 = rnd.choice([(5, 3), (1, 4), (-2, 0), (0, 5), (3, 4), (2, 12)])
                v = [Fr(a0)] + [Fr(0)] * (m - 1)
                if m >= 3:
                    v[1], v[2] = Fr(a1) * 3 / 5, Fr(a1) * 4 / 5
                elif m == 2:
                    v[1] = Fr(a1)
                x += v
            for m in d["s"]:
                if m == 1:
                    x += [Fr(rnd.randint(-3, 3))]
                elif m == 2:
                    a, b = rnd.randint(-3, 3), rnd.randint(-2, 2)
                    x += [Fr(a), Fr(b), Fr(b), Fr(a)]
            c.update(x=rvec(x), sigma=rnd.random() < 0.5)
        cases.append(c)
    return cases


# ---------------------------------------------------------------------------
def load_py_misc(pkg):
    """the in-tree Python fallbacks: src/python/misc.py with use_C = False"""
    src = open(os.path.join(pkg, "cvxopt", "misc.py")).read()
    assert "use_C = True" in src
    src = src.replace("use_C = True", "use_C = False", 1)
    mod = types.ModuleType("cvxopt_misc_py")
    mod.__file__ = "misc_py"
    exec(compile(src, "misc_py(use_C=False)", "exec"), mod.__dict__)
    return mod


def fl(v):
    return float(Fr(v[0], v[1]))


def run_impl(misc, c):
    """run one case on one implementation; returns dict(out=list of floats or None, untouched=bool, exc=...)"""
    from cvxopt import matrix
    d = {"l": c["d"]["l"], "q": list(c["d"]["q"]), "s": list(c["d"]["s"])}
    mnl = c["mnl"]
    k = c["k"]
    N = cdim(d, mnl)

    def buf(vals, pre=0, post=2):
        return matrix([CANARY] * pre + [fl(v) for v in vals] + [CANARY] * post, (pre + len(vals) + post, 1), 'd')


    def Wd():
        W = {"d": matrix([fl(v) for v in c["W"]["d"]], (d["l"], 1), 'd'),
             "di": matrix([1.0 / fl(v) for v in c["W"]["d"]], (d["l"], 1), 'd'),
             "beta": [fl(b) for b in c["W"]["beta"]], "v": [matrix([fl(a) for a in v]) for v in c["W"]["v"]],
             "r": [matrix([fl(a) for a in r], (m, m), 'd') for r, m in zip(c["W"]["r"], d["s"])],
             "rti": [matrix([fl(a) for a in r], (m, m), 'd') for r, m in zip(c["W"]["rti"], d["s"])]}
        if mnl:
            W["dnl"] = matrix([fl(v) for v in c["W"]["dnl"]], (mnl, 1), 'd')
            W["dnli"] = matrix([1.0 / fl(v) for v in c["W"]["dnl"]], (mnl, 1), 'd')
        return W
    res = {"out": None, "untouched": True, "exc": None, "ret": None}
    try:
        if k == "scale":
            nc = c.get("ncols", 1)
            x = matrix(0.0, (N, nc))
            for j in range(nc):
                for i in range(N):
                    x[i, j] = fl(c["x"][i]) * (j + 1)
            misc.scale(x, Wd(), trans="T" if c["trans"] else "N", inverse="I" if c["inv"] else "N")
            res["out"] = [x[i, 0] for i in range(N)]
            if nc == 2:
                res["col2"] = [x[i, 1] / 2.0 for i in range(N)]
        elif k == "scale2":
            x = buf(c["x"])
            misc.scale2(matrix([fl(v) for v in c["lmbda"]] + [CANARY]), x, d, mnl, inverse="I" if c["inv"] else "N")
            res["out"] = list(x[:N]); res["untouched"] = list(x[N:]) == [CANARY] * 2
        elif k == "sdot":
            res["ret"] = misc.sdot(buf(c["x"]), buf(c["y"]), d, mnl)
        elif k == "snrm2":
            res["ret"] = misc.snrm2(buf(c["x"]), d, mnl) ** 2
        elif k == "jdot":
            m = d["q"][0]
            res["ret"] = misc.jdot(buf(c["x"], pre=c["offx"]), buf(c["y"], pre=c["offy"]), n=m, offsetx=c["offx"], offsety=c["offy"])
        elif k == "jnrm2":
            m = d["q"][0]
            v = [fl(a) for a in c["x"]]
            if v[0] < 0 or v[0] ** 2 - sum(a * a for a in v[1:]) < 0:
                res["ret"] = "skip"
            else:
                res["ret"] = misc.jnrm2(buf(c["x"], pre=c["offx"]), n=m, offset=c["offx"]) ** 2
        elif k in ("trisc", "triusc"):
            x = buf(c["x"], pre=c["off"])
            getattr(misc, k)(x, d, c["off"])
            res["out"] = list(x[c["off"]:c["off"] + N])
            res["untouched"] = list(x[:c["off"]]) == [CANARY] * c["off"] and list(x[c["off"] + N:]) == [CANARY] * 2
        elif k == "symm":
            m = c["m"]
            x = buf(c["x"], pre=c["off"])
            misc.symm(x, m, c["off"])
            res["out"] = list(x[c["off"]:c["off"] + m * m])
            res["untouched"] = list(x[:c["off"]]) == [CANARY] * c["off"] and list(x[c["off"] + m * m:]) == [CANARY] * 2
        elif k == "sprod":
            x = buf(c["x"])
            misc.sprod(x, buf(c["y"]), d, mnl, diag="D" if c["diag"] else "N")
            res["out"] = list(x[:N]); res["untouched"] = list(x[N:]) == [CANARY] * 2
        elif k == "ssqr":
            n2 = ddim(d, mnl)
            x = matrix([CANARY] * (n2 + 2))
            misc.ssqr(x, buf(c["y"]), d, mnl)
            res["out"] = list(x[:n2]); res["untouched"] = list(x[n2:]) == [CANARY] * 2
        elif k == "sinv":
            x = buf(c["x"])
            misc.sinv(x, buf(c["y"]), d, mnl)
            res["out"] = list(x[:N]); res["untouched"] = list(x[N:]) == [CANARY] * 2
        elif k == "pack":
            NP = mnl + d["l"] + sum(d["q"]) + sum(m * (m + 1) // 2 for m in d["s"])
            if c["variant"] == "pack":
                x = buf(c["x"], pre=c["offx"])
                y = matrix([CANARY] * (c["offy"] + NP + 2))
                x0 = list(x)
                misc.pack(x, y, d, mnl, offsetx=c["offx"], offsety=c["offy"])
                res["out"] = list(y[c["offy"]:c["offy"] + NP])
                res["untouched"] = list(y[:c["offy"]]) == [CANARY] * c["offy"] and list(y[c["offy"] + NP:]) == [CANARY] * 2 and list(x) == x0
            elif c["variant"] == "pack2":
                x = matrix(0.0, (N, 2))
                for i in range(N):
                    x[i, 0] = fl(c["x"][i]); x[i, 1] = 2 * fl(c["x"][i])
                misc.pack2(x, d, mnl)
                res["out"] = [x[i, 0] for i in range(NP)]
                res["col2"] = [x[i, 1] / 2.0 for i in range(NP)]
            else:
                # unpack(pack(x)) must reproduce x on the lower triangles
                x = buf(c["x"])
                y = matrix([CANARY] * (NP + 1))
                misc.pack(x, y, d, mnl)
                z = matrix([CANARY] * (c["offy"] + N + 2))
                misc.unpack(y, z, d, mnl, offsetx=0, offsety=c["offy"])
                res["unpacked"] = list(z[c["offy"]:c["offy"] + N])
                res["untouched"] = list(z[:c["offy"]]) == [CANARY] * c["offy"] and list(z[c["offy"] + N:]) == [CANARY] * 2
        elif k == "sgemv":
            n_ = c["n"]
            G = matrix(0.0, (N, n_))
            for j in range(n_):
                for i in range(N):
                    G[i, j] = fl(c["G"][j][i])
            x = matrix([fl(v) for v in c["x"]], (len(c["x"]), 1), 'd')
            y = matrix([fl(v) for v in c["y"]], (len(c["y"]), 1), 'd')
            x0 = list(x)
            misc.sgemv(G, x, y, d, trans="T" if c["trans"] else "N", alpha=fl(c["alpha"]), beta=fl(c["beta"]))
            res["out"] = list(y)
            res["untouched"] = [a for a, r in zip(list(x), _refmask(d, 0, len(x0)))] == [a for a, r in zip(x0, _refmask(d, 0, len(x0)))] \
                if not c["trans"] else all(a == b for a, b, r in zip(list(x), x0, _refmask(d, 0, len(x0))) if r)
        elif k == "maxstep":
            x = buf(c["x"], post=0)
            if c["sigma"]:
                sg = matrix(0.0, (sum(d["s"]), 1))
                res["ret"] = misc.max_step(x, d, mnl, sg)
                res["sigma"] = list(sg)
                res["xafter"] = list(x)
            else:
                res["ret"] = misc.max_step(x, d, mnl)
    except Exception as e:
        res["exc"] = repr(e)
    return res


def _refmask(d, mnl, n):
    m_ = [True] * (mnl + d["l"] + sum(d["q"]))
    for m in d["s"]:
        for j in range(m):
            for i in range(m):
                m_.append(i >= j)
    return (m_ + [True] * n)[:n]


def close(a, q, exact_dyadic=True, scale=1):
    """float a equals rational q up to 64 ulp of max(|q|, scale) (scale: magnitude of the data of the case);
    a seeded defect changes a result by O(1), rounding of a few divisions by 1e-15"""
    q = Fr(q)
    if a is None:
        return False
    if a != a or a in (float("inf"), float("-inf")):
        return False
    fa = Fr(float(a))
    return abs(fa - q) <= 64 * Fr(1, 2 ** 52) * max(abs(q), Fr(scale))


def run(tier, seed, replay=None):
    ck = Check("C08", tier, seed)
    ck.clean_replays()
    quick = tier == "quick"
    ck.rule = ("cases = (kernel, dims incl. empty and order-0/1 blocks, mnl, flags, offsets, columns, lattice data); TLC computes the expected "
               "result of each case from the mathematical definition; distinct = distinct (kernel, dims, mnl, flags)")
    ck.trusted = ["TLC", "specs/ConeAlgebra.tla (guarded by the identities TLC checks on every case)"]
    ck.assumptions = ["data are on lattices where the float computation is exact or within 8 ulp; irrational spectra are not covered"]
    n = 2500 if quick else 40000
    cases = gen_cases(seed, n)
    pkg = os.environ["VERIF_PKG"]
    from cvxopt import misc as misc_c
    misc_py = load_py_misc(pkg)
    impl = {"C": misc_c, "python": misc_py}
    # first pass for max_step: the candidate t comes from the compiled kernel, TLC verifies its characterisation
    for c in cases:
        if c["k"] == "maxstep":
            r = run_impl(misc_c, c)
            t = Fr(r["ret"]).limit_denominator(1000) if r["ret"] is not None else Fr(0)
            c["t"] = rj(t)
    results = []
    chunk = 4000
    for c0 in range(0, len(cases), chunk):
        wd = tlc.workdir("c08/b%d" % (c0 // chunk))
        cf, of = os.path.join(wd, "cases.json"), os.path.join(wd, "out.json")
        with open(cf, "w") as fh:
            json.dump(cases[c0:c0 + chunk], fh)
        r = tlc.run_tlc("MC_ConeAlgebra", "SPECIFICATION Spec\n", wd, workers=1, env={"CASE_FILE": cf, "OUT_FILE": of}, timeout=1500, heap="6g")
        if not ck.require_tlc_ok("MC_ConeAlgebra batch %d" % (c0 // chunk), r):
            ck.finish()
        with open(of) as fh:
            results += json.load(fh)["res"]
    ck.states = max(ck.states, 1)
    ck.transitions = max(ck.transitions, 1)
    for c, e in zip(cases, results):
        d, mnl, k = c["d"], c["mnl"], c["k"]
        flags = (k, json.dumps(d, sort_keys=True), mnl, c.get("trans"), c.get("inv"), c.get("diag"), c.get("variant"), c.get("ncols"))
        ck.nontrivial(flags)
        if not e["ok"]:
            ck.machinery_errors.append("specification identity failed on case %r" % c)
            continue
        exp = [Fr(a[0], a[1]) if not isinstance(a[0], list) else (Fr(a[0][0], a[0][1]), Fr(a[1][0], a[1][1])) for a in e["out"]]
        mags = [abs(v) for v in exp if not isinstance(v, tuple)]
        for key in ("x", "y", "lmbda"):
            if key in c:
                mags += [abs(Fr(a[0], a[1])) for a in c[key]]
        sc = max(mags + [Fr(1)])
        for name, m in impl.items():
            ck.evaluations += 1
            r = run_impl(m, c)
            bad = None
            if r["exc"]:
                bad = "exception " + r["exc"]
            elif k in ("sdot", "snrm2", "jdot", "jnrm2"):
                if r["ret"] != "skip" and not close(r["ret"], exp[0], scale=sc * sc):
                    bad = "returned %r, specified %s" % (r["ret"], exp[0])
            elif k == "maxstep":
                t = Fr(c["t"][0], c["t"][1])
                if not close(r["ret"], t, scale=sc):
                    bad = "returned %r, the boundary step is %s" % (r["ret"], t)
                elif c["sigma"]:
                    # eigen-decomposition of the 's' blocks: X q_i = sigma_i q_i, Q'Q = I (exact rational evaluation)
                    o = mnl + d["l"] + sum(d["q"]); o2 = 0
                    xin = [Fr(a[0], a[1]) for a in c["x"]]
                    tol = Fr(1, 10 ** 10) * (1 + sc)
                    for m in d["s"]:
                        Q = [[Fr(float(r["xafter"][o + j * m + i])) for j in range(m)] for i in range(m)]
                        sgm = [Fr(float(v)) for v in r["sigma"][o2:o2 + m]]
                        X = [[xin[o + min(i, j) * m + max(i, j)] for j in range(m)] for i in range(m)]
                        for j in range(m):
                            for i in range(m):
                                if abs(sum(X[i][t_] * Q[t_][j] for t_ in range(m)) - sgm[j] * Q[i][j]) > tol:
                                    bad = "sigma/eigenvectors of 's' block of order %d do not satisfy X q = sigma q" % m
                                if abs(sum(Q[t_][i] * Q[t_][j] for t_ in range(m)) - (1 if i == j else 0)) > tol:
                                    bad = "eigenvectors of 's' block of order %d are not orthonormal" % m
                        o += m * m; o2 += m
            elif k == "pack":
                s2 = math.sqrt(2.0)
                if c["variant"] in ("pack", "pack2"):
                    for cols in ("out", "col2"):
                        if cols in r:
                            for i, (a, (p, q)) in enumerate(zip(r[cols], exp)):
                                want = float(p) + float(q) * s2
                                if abs(a - want) > 4e-16 * max(1.0, abs(want)):
                                    bad = "%s cell %d is %r, specified %s + %s*sqrt(2)" % (cols, i, a, p, q)
                else:
                    mask = _refmask(d, mnl, cdim(d, mnl))
                    for i, (a, v, rf) in enumerate(zip(r["unpacked"], c["x"], mask)):
                        if rf and abs(a - fl(v)) > 4e-16 * max(1.0, abs(fl(v))):
                            bad = "unpack(pack(x)) cell %d is %r, x is %s" % (i, a, v)
            else:
                mask = _refmask(d, mnl if k not in ("trisc", "triusc", "symm", "sgemv") else 0, len(exp)) if k not in ("ssqr", "symm") and not (k == "sgemv" and c["trans"]) else [True] * len(exp)
                if k in ("trisc",):
                    mask = [True] * len(exp)
                for cols in ("out", "col2"):
                    if cols in r and r[cols] is not None:
                        for i, (a, q, rf) in enumerate(zip(r[cols], exp, mask)):
                            if rf and not close(a, q, scale=sc):
                                bad = "%s cell %d is %r, specified %s" % (cols, i, a, q)
                                break
            if bad is None and not r["untouched"]:
                bad = "cells outside the addressed blocks changed"
            if bad:
                sig = "%s|%s|%s" % (k if k != "pack" else c["variant"], name, "untouched" if "outside" in bad else ("exception" if bad.startswith("exception") else "value"))
                fl_ = {kk: c.get(kk) for kk in ("trans", "inv", "diag", "variant", "ncols", "off", "offx", "offy")}
                ck.violation(sig, "%s (%s implementation) dims=%s mnl=%d flags=%s: %s" % (k, name, d, mnl, fl_, bad), {"case": c, "impl": name, "result": {kk: vv for kk, vv in r.items()}})
    for c, e in list(zip(cases, results))[:3]:
        ck.sample({"case": c, "expected": e})
    ck.extra["cases"] = len(cases)
    ck.extra["kernels"] = sorted(set(c["k"] for c in cases))
    ck.traces = 0
    ck.finish()
