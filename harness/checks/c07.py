"""C07 - KKT solvers and Nesterov-Todd scalings satisfy their linear-algebra contract.

(a) KktFactory.tla generates every history Factor(W_i) / Solve(b_j) up to a length bound; each history is replayed on one
    factory object of each of the five built-in KKT solvers (dense and sparse G/A, with and without the nonlinear block);
    systems are planted on lattices (integer G, A, H = R'R, rational scalings W with exact inverses, chosen solution u,
    b := K(W) u in exact arithmetic) so the returned floats must round to the planted solution, and MC_Kkt.tla (TLC, exact
    rationals, ConeAlgebra's independent definition of W) decides the block equation for every solve of every history.
(b) Along real solves (conelp, coneqp, cpl; all cone structures) every scaling dictionary handed to the KKT solver is checked
    for the documented invariants (d*di = 1, v'Jv = 1, r'*rti = I, ...) and, when first computed, for W z = W^-T s = lambda;
    the contract invariant ScalingInvariants is evaluated by TLC on every trace."""
import json, os, random, multiprocessing as mp
from fractions import Fraction as Fr
PMAP_TIMEOUT = int(__import__('os').environ.get('VERIF_PMAP_TIMEOUT', '300'))
from harness import tlc, plants, soltrace
from harness.core import Check
from harness.checks import c08

FACS = ["ldl", "ldl2", "qr", "chol", "chol2"]


def histories(ck, nw, nb, maxlen):
    wd = tlc.workdir("c07/factory")
    cfg = "CONSTANTS NW = %d\nNB = %d\nMaxLen = %d\nSPECIFICATION Spec\nINVARIANT LatestFactor\nINVARIANT NoSolveBeforeFactor\n" % (nw, nb, maxlen)
    r = tlc.run_tlc("KktFactory", cfg, wd, dump="graph", timeout=600)
    if not ck.require_tlc_ok("KktFactory NW=%d NB=%d MaxLen=%d" % (nw, nb, maxlen), r):
        return None
    if r.violated:
        ck.violation("spec|KktFactory|" + r.violated, "design-level violation", r.out[-1500:])
        return None
    nodes, edges, init = tlc.parse_dot(os.path.join(wd, "graph.dot"))
    hs = [st["hist"] for st in nodes.values() if len(st["hist"]) == maxlen or (len(st["hist"]) >= 2 and st["hist"][-1][0] == "S")]
    return [[(str(e[0]), int(e[1]), int(e[2])) for e in h] for h in hs]


def _mk_problem(I, rnd, mnl, withH):
    """planted KKT system data from a TLC-accepted instance"""
    n, p, d = I["n"], I["p"], I["dims"]
    G = [list(col) for col in I["G"]]
    # make G's 's' blocks symmetric in storage? not needed: only the lower triangle is referenced (junk stays)
    A = [list(col) for col in I["A"]]
    H = None
    if withH:
        k = rnd.randint(0, n)
        R = [[rnd.randint(-2, 2) for _ in range(n)] for _ in range(k)]
        H = [[sum(Rr[i] * Rr[j] for Rr in R) + (1 if (mnl and i == j) else 0) for j in range(n)] for i in range(n)]
        if "R" in I:
            kk = len(I["R"][0]) if n else 0
            H = [[sum(I["R"][i][t] * I["R"][j][t] for t in range(kk)) for j in range(n)] for i in range(n)]
    Df = [[rnd.randint(-2, 2) for _ in range(n)] for _ in range(mnl)]
    return dict(n=n, p=p, d=d, G=G, A=A, H=H, Df=Df, mnl=mnl)


def _job(args):
    from cvxopt import matrix, sparse, misc, spmatrix
    from harness import alpha, solvedrv
    I, hs, seed = args
    rnd = random.Random(seed)
    out = []
    d = I["dims"]
    lonly = not d["q"] and not d["s"]
    for fac in FACS:
        if fac == "chol2" and not lonly:
            continue
        for storage in ("dense", "sparse"):
            mnl = 0 if fac == "qr" else rnd.choice([0, 0, 1])
            withH = fac != "qr" and (("R" in I) or mnl or rnd.random() < 0.5)
            if "R" in I and not withH:
                # a QP plant guarantees rank([P; G; A]) = n only; without H the system needs rank([G; A]) = n
                J = dict(I); J.pop("R")
                if plants.thin_PG_A(J):
                    continue
            pb = _mk_problem(I, rnd, mnl, withH)
            n, p = pb["n"], pb["p"]
            K = alpha.cdim_of(d)
            Ws = [c08.rand_W(rnd, d, mnl) for _ in range(3)]
            us = []
            for _ in range(2):
                ux = [Fr(rnd.randint(-2, 2)) for _ in range(n)]
                uy = [Fr(rnd.randint(-2, 2)) for _ in range(p)]
                uz = c08.rand_vec(rnd, d, mnl, sym=True, half=False)
                us.append((ux, uy, uz))
            w = [1] * mnl + alpha.wt(d)
            GG = [[Fr(pb["Df"][r][j]) for r in range(mnl)] + [Fr(v) for v in pb["G"][j]] for j in range(n)]
            Gm = solvedrv.mat(pb["G"], K, storage)
            Am = solvedrv.mat(pb["A"], p, storage)
            Hm = None
            if pb["H"] is not None:
                Hm = matrix([[float(v) for v in row] for row in pb["H"]])        # symmetric
                if storage == "sparse":
                    Hm = sparse(Hm)
            Dfm = None
            if mnl:
                Dfm = matrix([[float(pb["Df"][r][j]) for r in range(mnl)] for j in range(n)])
                if storage == "sparse":
                    Dfm = sparse(Dfm)
            dims = {"l": d["l"], "q": list(d["q"]), "s": list(d["s"])}

            def rhs(W, u):
                ux, uy, uz = u
                Wuz = alpha.scale_exact(uz, W, d, mnl)                 # uzs = W uz
                WtWuz = alpha.scale_exact(Wuz, W, d, mnl, trans=True)
                Hx = [sum(Fr(pb["H"][i][j]) * ux[j] for j in range(n)) for i in range(n)] if pb["H"] is not None else [Fr(0)] * n
                bx = [Hx[j] + sum(Fr(pb["A"][j][r]) * uy[r] for r in range(p)) + sum(w[r] * GG[j][r] * _sym(uz, d, mnl, r) for r in range(len(w)) if w[r])
                      for j in range(n)]
                by = [sum(Fr(pb["A"][j][r]) * ux[j] for j in range(n)) for r in range(p)]
                bz = [sum(GG[j][r] * ux[j] for j in range(n)) - WtWuz[r] for r in range(mnl + K)]
                return bx, by, bz, Wuz

            def Wm(W):
                Wd = {"d": matrix([float(v) for v in W["d"]], (d["l"], 1), 'd'), "di": matrix([float(1 / v) for v in W["d"]], (d["l"], 1), 'd'),
                      "beta": [float(b) for b in W["beta"]], "v": [matrix([float(a) for a in v]) for v in W["v"]],
                      "r": [matrix([float(a) for a in r], (m, m), 'd') for r, m in zip(W["r"], d["s"])],
                      "rti": [matrix([float(a) for a in r], (m, m), 'd') for r, m in zip(W["rti"], d["s"])]}
                if mnl:
                    Wd["dnl"] = matrix([float(v) for v in W["dnl"]], (mnl, 1), 'd')
                    Wd["dnli"] = matrix([float(1 / v) for v in W["dnl"]], (mnl, 1), 'd')
                return Wd
            for h in hs:
                try:
                    args_ = (Gm, dims, Am) if fac == "qr" else (Gm, dims, Am, mnl)
                    factory = getattr(misc, "kkt_" + fac)(*args_)
                except Exception as e:
                    out.append({"fac": fac, "storage": storage, "hist": h, "setup_exc": repr(e)})
                    continue
                solve = None
                curW = None
                for step, (kind, a, wused) in enumerate(h):
                    if kind == "F":
                        try:
                            if fac == "qr":
                                solve = factory(Wm(Ws[a - 1]))
                            else:
                                solve = factory(Wm(Ws[a - 1]), Hm, Dfm) if (Hm is not None or mnl) else factory(Wm(Ws[a - 1]))
                            curW = a
                        except Exception as e:
                            out.append({"fac": fac, "storage": storage, "mnl": mnl, "hist": h, "step": step, "exc": repr(e), "id": I["id"]})
                            solve = None
                            break
                    else:
                        W = Ws[wused - 1]
                        u = us[a - 1]
                        bx, by, bz, Wuz = rhs(W, u)
                        x = matrix([float(v) for v in bx], (n, 1), 'd')
                        y = matrix([float(v) for v in by], (p, 1), 'd')
                        z = matrix([float(v) for v in bz], (mnl + K, 1), 'd')
                        rec = {"fac": fac, "storage": storage, "mnl": mnl, "hist": h, "step": step, "id": I["id"], "dims": d, "withH": Hm is not None}
                        try:
                            solve(x, y, z)
                        except Exception as e:
                            rec["exc"] = repr(e)
                            out.append(rec)
                            break
                        got = [list(x), list(y), list(z)]
                        want = [u[0], u[1], Wuz]
                        maxerr = 0.0
                        ref = c08._refmask(d, mnl, mnl + K)
                        for gi, wi, isz in ((got[0], want[0], False), (got[1], want[1], False), (got[2], want[2], True)):
                            for t, (g_, w_) in enumerate(zip(gi, wi)):
                                if isz and not ref[t]:
                                    continue
                                maxerr = max(maxerr, abs(g_ - float(w_)) / (1.0 + abs(float(w_))))
                        rec["maxerr"] = maxerr
                        if maxerr < 1e-8:
                            # on the lattice: hand the rounded solution to TLC for the exact block equation
                            uzs = [want[2][t] if ref[t] else Fr(0) for t in range(mnl + K)]
                            rec["case"] = {"d": d, "mnl": mnl, "n": n, "p": p, "GG": [c08.rvec(col) for col in GG],
                                           "A": [c08.rvec(col) for col in pb["A"]],
                                           "H": [c08.rvec(row) for row in (pb["H"] if pb["H"] is not None else [[0] * n for _ in range(n)])],
                                           "W": c08.W_json(W), "bx": c08.rvec(bx), "by": c08.rvec(by), "bz": c08.rvec(bz),
                                           "ux": c08.rvec(want[0]), "uy": c08.rvec(want[1]), "uzs": c08.rvec(_symfill(uzs, want[2], d, mnl))}
                        out.append(rec)
    return out


def _sym(v, d, mnl, r):
    return v[r]


def _symfill(uzs, full, d, mnl):
    return list(full)


def _scaling_job(args):
    """(b): real solves with the scaling check switched on"""
    from harness import solvedrv, alpha, nlsuite
    import cvxopt
    from cvxopt import misc
    kind, I, cfg, seed = args
    state = {}
    orig_cs = misc.compute_scaling

    def spy_cs(s, z, lmbda, dims, mnl=None):
        W = orig_cs(s, z, lmbda, dims, mnl)
        state["fresh"] = (alpha.fvec(s), alpha.fvec(z), alpha.fvec(lmbda), dims, mnl or 0, W)
        return W
    misc.compute_scaling = spy_cs
    orig_us = misc.update_scaling

    def _Wx(W):
        Wx = {"d": alpha.fvec(W["d"]), "beta": [Fr(float(b)) for b in W["beta"]], "v": [alpha.fvec(v) for v in W["v"]],
              "r": [alpha.fvec(r) for r in W["r"]], "rti": [alpha.fvec(r) for r in W["rti"]]}
        if "dnl" in W:
            Wx["dnl"] = alpha.fvec(W["dnl"])
        return Wx

    def spy_us(W, lmbda, s, z):
        """documented contract of update_scaling: on entry s, z hold the new iterates in the CURRENT scaling (nonlinear, 'l', 'q'
        blocks: W^-T st and W zt; 's' blocks: factors Ls, Lz with W^-T st = Ls Ls', W zt = Lz Lz'); on exit W zt = W^-T st = lmbda"""
        mnl = len(W["dnl"]) if "dnl" in W else 0
        d = {"l": len(W["d"]), "q": [len(v) for v in W["v"]], "s": [r.size[0] for r in W["r"]]}
        Wold = _Wx(W)
        sv, zv = alpha.fvec(s), alpha.fvec(z)
        def unfactor(v):
            out = list(v)
            o = mnl + d["l"] + sum(d["q"])
            for m in d["s"]:
                L = [[v[o + j * m + i] for j in range(m)] for i in range(m)]
                for j in range(m):
                    for i in range(m):
                        out[o + j * m + i] = sum(L[i][t] * L[j][t] for t in range(m))
                o += m * m
            return out
        s_sc, z_sc = unfactor(sv), unfactor(zv)
        st = alpha.scale_exact(s_sc, Wold, d, mnl, trans=True)              # st = W^T (W^-T st)
        zt = alpha.scale_exact(z_sc, Wold, d, mnl, inv=True)                # zt = W^-1 (W zt)
        orig_us(W, lmbda, s, z)
        Wnew = _Wx(W)
        lm = alpha.fvec(lmbda)
        Wz = alpha.scale_exact(zt, Wnew, d, mnl)
        Wts = alpha.scale_exact(st, Wnew, d, mnl, trans=True, inv=True)
        nlq = mnl + d["l"] + sum(d["q"])
        mag = 1 + max([abs(a) for a in Wz + Wts] + [Fr(0)])
        tol = Fr(1, 10 ** 8) * mag
        ok = all(abs(Wz[i] - lm[i]) <= tol and abs(Wts[i] - lm[i]) <= tol for i in range(nlq))
        o, o2 = nlq, nlq
        for m in d["s"]:
            for j in range(m):
                for i in range(j, m):
                    want = lm[o2 + i] if i == j else Fr(0)
                    if abs(Wz[o + j * m + i] - want) > tol or abs(Wts[o + j * m + i] - want) > tol:
                        ok = False
            o += m * m; o2 += m
        if not ok:
            state.setdefault("bad", []).append("update:Wz!=lambda")
        state["updates"] = state.get("updates", 0) + 1
    misc.update_scaling = spy_us

    def check_w(W, mnl):
        dims = None
        bad = alpha.w_invariants(W, None, mnl)
        fr = state.pop("fresh", None)
        if fr is not None and fr[5] is W:
            s, z, lm, dims, m0, _ = fr
            d = {"l": dims["l"], "q": list(dims["q"]), "s": list(dims["s"])}
            Wx = {"d": alpha.fvec(W["d"]), "beta": [Fr(float(b)) for b in W["beta"]], "v": [alpha.fvec(v) for v in W["v"]],
                  "r": [alpha.fvec(r) for r in W["r"]], "rti": [alpha.fvec(r) for r in W["rti"]]}
            if "dnl" in W:
                Wx["dnl"] = alpha.fvec(W["dnl"])
            Wz = alpha.scale_exact(z, Wx, d, m0)
            Wts = alpha.scale_exact(s, Wx, d, m0, trans=True, inv=True)
            # lambda in diagonal storage for 's' blocks: compare 'l' and 'q' parts entrywise, 's' parts as diag(lambda)
            nlq = m0 + d["l"] + sum(d["q"])
            mag = 1 + max([abs(a) for a in Wz] + [Fr(0)])
            tol = Fr(1, 10 ** 9) * mag
            ok = all(abs(Wz[i] - lm[i]) <= tol and abs(Wts[i] - lm[i]) <= tol for i in range(nlq))
            o, o2 = nlq, nlq
            for m in d["s"]:
                for j in range(m):
                    for i in range(j, m):
                        want = lm[o2 + i] if i == j else Fr(0)
                        if abs(Wz[o + j * m + i] - want) > tol or abs(Wts[o + j * m + i] - want) > tol:
                            ok = False
                o += m * m; o2 += m
            if not ok:
                bad.append("Wz!=lambda")
        state.setdefault("bad", []).extend(bad)
        return not bad
    try:
        if kind == "conelp":
            tr, info = solvedrv.run_conelp(I, check_w=check_w, **cfg)
        elif kind == "coneqp":
            tr, info = solvedrv.run_coneqp(I, check_w=check_w, **cfg)
        else:
            tr, info = solvedrv.run_nl(I, entry=I["entry"], check_w=check_w, **cfg)
    finally:
        misc.compute_scaling = orig_cs
        misc.update_scaling = orig_us
    return {"kind": kind, "updates": state.get("updates", 0), "trace": tr, "bad": sorted(set(state.get("bad", []))), "cfg": cfg, "status": info["status"],
            "nf": info["nf"], "dims": (I.get("dims") if isinstance(I, dict) and "dims" in I else None)}


def run(tier, seed, replay=None):
    ck = Check("C07", tier, seed)
    ck.clean_replays()
    quick = tier == "quick"
    ck.rule = ("(a) histories of KktFactory (every sequence of Factor/Solve up to the bound) x 5 KKT solvers x dense/sparse x nonlinear block, "
               "planted lattice systems; (b) every scaling dictionary passed to kktsolver during real solves; "
               "distinct = distinct (solver, storage, mnl, history) resp. (solver, cone structure)")
    ck.trusted = ["TLC", "specs/ConeAlgebra.tla's definition of W (cross-validated against both kernel implementations by C08)",
                  "harness/alpha.py scale_exact / w_invariants"]
    ck.assumptions = ["(b) is decided through the abstraction function on non-lattice floats (tolerance 1e-10 relative to the factors' norms)"]
    # (a)
    hs = histories(ck, 3, 2, 4 if quick else 5)
    if hs is None:
        ck.finish()
    rnd = random.Random(seed)
    cands = plants.gen_candidates(seed + 7, {"solvable": 40 if quick else 300})
    candq = plants.gen_candidates(seed + 8, {"solvable": 30 if quick else 200}, qp=True)
    inst = plants.tlc_accept(cands, "c07/plants", ck) + plants.tlc_accept(candq, "c07/plants_qp", ck)
    inst = [I for I in inst if not I.get("thinPG")]
    rnd.shuffle(hs)
    nh = 12 if quick else 30
    jobs = [(I, hs[(i * nh) % len(hs):(i * nh) % len(hs) + nh] or hs[:nh], seed + i) for i, I in enumerate(inst)]
    from harness.core import pmap
    res = pmap(ck, _job, jobs, "c07", timeout=PMAP_TIMEOUT, chunksize=1)
    if res is None:
        ck.finish()
    recs = [r for rs in res for r in rs]
    cases = []
    for r in recs:
        ck.evaluations += 1
        ck.nontrivial((r["fac"], r["storage"], r.get("mnl"), json.dumps(r["hist"])))
        sig0 = "kkt_%s|%s|mnl=%s|H=%s" % (r["fac"], r["storage"], r.get("mnl"), r.get("withH"))
        if "setup_exc" in r or "exc" in r:
            ck.violation(sig0 + "|exception", "kkt_%s raised %s on a planted nonsingular system (history %s)" % (
                r["fac"], r.get("exc") or r.get("setup_exc"), r["hist"]), r)
        elif "case" not in r:
            ck.violation(sig0 + "|wrong-solution", "kkt_%s returned a solution that differs from the planted one by %.2e (history %s, step %d)" % (
                r["fac"], r["maxerr"], r["hist"], r["step"]), r)
        else:
            cases.append(r)
    # TLC decides the block equation on the lattice
    nbad = 0
    def _eq_batch(c0):
        wd = tlc.workdir("c07/eq%d" % (c0 // 3000))
        cf, of = os.path.join(wd, "cases.json"), os.path.join(wd, "out.json")
        with open(cf, "w") as fh:
            json.dump([r["case"] for r in cases[c0:c0 + 3000]], fh)
        return tlc.run_tlc("MC_Kkt", "SPECIFICATION Spec\n", wd, workers=1, env={"CASE_FILE": cf, "OUT_FILE": of}, timeout=3000, heap="4g"), of
    from concurrent.futures import ThreadPoolExecutor
    starts = list(range(0, len(cases), 3000))
    with ThreadPoolExecutor(max_workers=8) as ex:          # the batches are independent TLC evaluations
        batch_results = list(ex.map(_eq_batch, starts))
    for c0, (rr, of) in zip(starts, batch_results):
        if not ck.require_tlc_ok("MC_Kkt batch %d (%d solves)" % (c0 // 3000, len(cases[c0:c0 + 3000])), rr):
            ck.finish()
        with open(of) as fh:
            out = json.load(fh)["res"]
        for r, o in zip(cases[c0:c0 + 3000], out):
            ck.traces += 1
            if not o["winv"]:
                ck.machinery_errors.append("generated scaling violates its invariants: %r" % r["case"]["W"])
            if not o["eq"]:
                nbad += 1
                ck.violation("kkt_%s|%s|mnl=%s|equation" % (r["fac"], r["storage"], r.get("mnl")),
                             "kkt_%s: the rounded solution does not satisfy the documented block system (TLC, exact)" % r["fac"], r)
    ck.states = max(ck.states, 1); ck.transitions = max(ck.transitions, 1)
    for r in cases[:2]:
        ck.sample({"fac": r["fac"], "storage": r["storage"], "hist": r["hist"], "case": r["case"]})
    ck.extra["kkt_solves_checked_by_TLC"] = len(cases)
    ck.extra["histories"] = len(hs)

    # (b) scaling invariants along real solves
    from harness import nlsuite
    sj = []
    solv = [I for I in inst if "R" not in I]
    qps = [I for I in inst if "R" in I]
    for i, I in enumerate(solv[:(40 if quick else 300)]):
        sj.append(("conelp", I, {"kktsolver": rnd.choice([None, "ldl", "qr"])}, seed + i))
    for i, I in enumerate(qps[:(30 if quick else 200)]):
        sj.append(("coneqp", I, {"kktsolver": rnd.choice([None, "ldl"])}, seed + i))
    for i, cs in enumerate(nlsuite.make_cases(solv[:(25 if quick else 200)], rnd, per_inst=1, families=("quadcp", "quadcpl", "gp"))):
        sj.append(("nl", cs, {}, seed + i))
    from harness.core import pmap
    sres = pmap(ck, _scaling_job, sj, "c07", timeout=PMAP_TIMEOUT, chunksize=2)
    if sres is None:
        ck.finish()
    verdict = soltrace.validate(ck, [r["trace"] for r in sres], "c07/traces")
    if verdict is None:
        ck.finish()
    nfac = 0
    for i, r in enumerate(sres):
        nfac += r["nf"]
        ck.traces += 1
        v = verdict[i]
        if "ScalingInvariants" in v["violated"] or r["bad"]:
            ck.violation("%s|scaling|%s" % (r["kind"] if r["kind"] != "nl" else "cpl", "+".join(r["bad"])),
                         "a scaling dictionary handed to the KKT solver violates %s" % r["bad"], {k: r[k] for k in ("kind", "cfg", "bad", "status")})
    ck.extra["scalings_checked"] = nfac
    ck.extra["scaling_updates_checked"] = sum(r.get("updates", 0) for r in sres)
    ck.finish()
