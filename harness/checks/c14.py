"""C14 - writing an LP to MPS and reading it back preserves the problem.

Spec: MPS.tla (over ModelLP.tla / ModelExpr.tla): Write (the records op.tofile must produce for an LP, labels by the documented naming rule,
numbers to six significant digits), Read (the section machine of the fixed MPS format over the supported subset: N/L/G/E rows, RHS, RANGES,
bounds LO/UP/FX/FR/MI/PL, first vector of each kind only) and the theorem RoundTrip (Canon(Read(Write(P))) = Canon(LP(P))), checked by TLC
for every generated LP.
Binding:
 (w) every generated LP (several variables of different lengths, scalar/row/matrix, dense/sparse coefficients, named or unnamed, small data
     and data needing more than six digits; non-LPs must be refused) is built with the real operators in a crash-isolated child, written with
     op.tofile, the file is tokenized by an independent fixed-column tokenizer and TLC decides whether the ACTUAL file denotes P (Read of the
     actual records against CanonLP(P)) and what fromfile must build from it; op.fromfile of a fresh op is projected through the public API
     (values at unit vectors) and compared; both problems are solved and must agree in status and optimal value of the linear part.
 (r) generated well-formed record sequences over the supported subset (extra N rows, two entries per line, negative right-hand sides, RHS of
     the objective, second RHS / RANGES / BOUNDS vectors that must be ignored, every range sign and bound type, conflicting bounds) are
     rendered to fixed columns by the harness, read with op.fromfile and compared with Read(records)."""
import json, os, random, tempfile
from fractions import Fraction as Fr
from harness import tlc
from harness.core import Check, pmap
from harness.checks import c11, c12

PMAP_TIMEOUT = int(os.environ.get("VERIF_PMAP_TIMEOUT", "300"))
BIG = [1234567, 7654321, 999999, 1000001, 2500049, 123456, 100000, 9999994, 3141592, 2718281]
VNAMES = ["x", "y", "z", "alpha", "b2", "cost2", "verylongname1", "vrylongname2", "q_1", "longname_a", "longname_b"]
CNAMES = ["c", "lim", "budget", "eqn", "constraint_a", "k9", "cnstraint_b", "constraint_b"]


def T(s):
    return [ord(ch) for ch in s]


def S(codes):
    return "".join(chr(c) for c in codes)


# ------------------------------------------------------------------ fixed-column tokenizer / renderer (MPS standard, independent of modeling.py)
FIELDS = [(1, 3), (4, 12), (14, 22), (24, 36), (39, 47), (49, 61)]
SECTIONS = ("NAME", "ROWS", "COLUMNS", "RHS", "RANGES", "BOUNDS", "ENDATA")


def num(text):
    v = Fr(text.strip()) if "E" not in text.upper() else Fr(float(text))
    if v.denominator != 1:
        raise ValueError("non-integer number %r in file" % text)
    return int(v)


def tokenize(text):
    recs = []
    for line in text.split("\n"):
        line = line.rstrip("\r")
        if not line.strip() or line[0] == "*":
            continue
        if line[0] != " ":
            word = line.split()[0]
            recs.append({"k": "sec", "s": word, "n1": T(line[14:22].strip()) if word == "NAME" else []})
            continue
        f = [line[a:b].strip() for a, b in FIELDS]
        two = bool(f[4])
        recs.append({"k": "data", "f1": f[0], "n1": T(f[1]), "n2": T(f[2]), "v1": num(f[3]) if f[3] else 0, "two": two,
                     "n3": T(f[4]), "v2": num(f[5]) if f[5] else 0})
    return recs


def render(recs):
    out = []
    for r in recs:
        if r["k"] == "sec":
            out.append(r["s"] + ((" " * (14 - len(r["s"])) + S(r["n1"])) if r["s"] == "NAME" and r["n1"] else ""))
            continue
        line = [" "] * 61
        def put(a, b, s, right=False):
            s = s.rjust(b - a) if right else s.ljust(b - a)
            line[a:b] = list(s[:b - a])
        put(1, 3, r["f1"])
        put(4, 12, S(r["n1"]))
        put(14, 22, S(r["n2"]))
        if r.get("hasv", True):
            put(24, 36, "%d" % r["v1"] if r.get("fmt", "d") == "d" else "%.1f" % r["v1"] if r["fmt"] == "f" else "%.5E" % r["v1"], right=True)
        if r["two"]:
            put(39, 47, S(r["n3"]))
            put(49, 61, "%d" % r["v2"], right=True)
        out.append("".join(line).rstrip())
    return "\n".join(out) + "\n"


# ------------------------------------------------------------------ generators
def bigify(t, rnd):
    """replace some data of a term by values that need more than six significant digits"""
    if isinstance(t, dict):
        if t.get("op") == "const" and rnd.random() < 0.5:
            t["c"] = [rnd.choice(BIG) * rnd.choice([1, -1]) for _ in t["c"]]
        elif t.get("op") == "mmul" and rnd.random() < 0.6:
            t["M"] = [[(rnd.choice(BIG) * rnd.choice([1, -1]) if rnd.random() < 0.5 else a) for a in row] for row in t["M"]]
        elif t.get("op") == "smul" and t["k"] != 0 and rnd.random() < 0.4:
            t["k"] = rnd.choice(BIG[:6])
            t["form"] = "float"
        for k in ("a", "b"):
            if isinstance(t.get(k), dict):
                bigify(t[k], rnd)


def gen_write_case(rnd):
    nv = rnd.choice([1, 2, 2, 3])
    chosen = rnd.sample(c12.POOL, nv)
    if rnd.random() < 0.08:
        chosen = chosen[:1] + [("t", rnd.choice([11, 12]))]      # a long variable: two-digit component indices in the labels
    sz = {v: s for v, s in chosen}
    g = c12.Gen(rnd, sz)
    kind = rnd.random()
    nonlp = kind < 0.08
    obj = g.convex_scalar() if (nonlp and rnd.random() < 0.5) else g.affine(1)
    cons = []
    for v in sz:
        if rnd.random() < 0.8:
            var = {"op": "var", "v": v}
            cons.append({"a": var, "rel": ">=", "b": {"op": "const", "c": [rnd.randint(-3, 0)], "form": "num"}})
            cons.append({"a": var, "rel": "<=", "b": {"op": "const", "c": [rnd.randint(1, 4)], "form": "num"}})
    for _ in range(rnd.choice([0, 1, 1, 2, 3])):
        L = rnd.choice([1, 1, 2, 3] + ([sz["t"]] * 3 if "t" in sz else []))
        r = rnd.random()
        if r < 0.6:
            cons.append({"a": g.affine(L), "rel": rnd.choice(["<=", ">="]), "b": g.const(L) if rnd.random() < 0.7 else g.affine(L)})
        else:
            cons.append({"a": g.affine(L), "rel": "==", "b": g.const(L) if rnd.random() < 0.6 else g.affine(L)})
    if nonlp and (c11.has_var(obj) and rnd.random() < 0.7):
        cons.append({"a": {"op": "abs", "a": g.affine(2)}, "rel": "<=", "b": g.const(1, 1, 5)})
    rnd.shuffle(cons)
    big = rnd.random() < 0.3
    if big:
        bigify(obj, rnd)
        for c in cons:
            bigify(c["a"], rnd)
            bigify(c["b"], rnd)
    cnt = [0]
    c12.label(obj, cnt)
    for c in cons:
        c12.label(c["a"], cnt)
        c12.label(c["b"], cnt)
    used, live = set(), set()
    c12.term_vars(obj, used, live)
    for c in cons:
        c12.term_vars(c["a"], used, live)
        c12.term_vars(c["b"], used, live)
    sz = {v: s for v, s in sz.items() if v in used}
    named = rnd.random() < 0.7
    names = rnd.sample(VNAMES, len(sz))
    vnames = {v: (names[i] if named or rnd.random() < 0.3 else "") for i, v in enumerate(sorted(sz))}
    cn = rnd.sample(CNAMES, min(len(CNAMES), len(cons))) + [""] * len(cons)
    cnames = [(cn[i] if rnd.random() < 0.6 else "") for i in range(len(cons))]
    return {"sz": sz, "vo": sorted(live), "obj": obj, "cons": cons, "envs": [], "big": big,
            "vnames": vnames, "cnames": cnames, "name": rnd.choice(["", "lp1", "averylongproblemname"])}


def gen_read_case(rnd):
    """a well-formed record sequence over the supported subset"""
    recs = [{"k": "sec", "s": "NAME", "n1": T(rnd.choice(["", "test", "prob_7"]))}, {"k": "sec", "s": "ROWS", "n1": []}]
    def dat(f1, n1, n2, v1=0, n3=None, v2=0, **kw):
        d = {"k": "data", "f1": f1, "n1": T(n1), "n2": T(n2), "v1": v1, "two": n3 is not None, "n3": T(n3 or ""), "v2": v2}
        d.update(kw)
        return d
    rows = []
    nrows = rnd.randint(1, 4)
    types = [rnd.choice(["L", "G", "E"]) for _ in range(nrows)]
    free = rnd.random() < 0.3
    order = [("N", "obj")] + [(t, "r%d" % i) for i, t in enumerate(types)]
    if free:
        order.insert(rnd.randint(1, len(order)), ("N", "free1"))
    if rnd.random() < 0.2:
        order = order[1:] + [order[0]]            # the objective row need not come first
        if free and [o for o in order if o[0] == "N"][0][1] == "free1":
            pass                                   # then free1 is the objective (first N row) and obj is the free row
    for t, l in order:
        recs.append(dat(t, l, "", hasv=False))
    firstN = [l for t, l in order if t == "N"][0]
    labels = [l for _, l in order]
    recs.append({"k": "sec", "s": "COLUMNS", "n1": []})
    ncols = rnd.randint(1, 3)
    cols = ["c%d" % j for j in range(ncols)]
    for c in cols:
        ents = [(l, rnd.choice([-5, -3, -2, -1, 1, 2, 3, 4, 0])) for l in labels if rnd.random() < 0.6]
        if not ents:
            ents = [(firstN, rnd.randint(1, 3))]
        i = 0
        while i < len(ents):
            if i + 1 < len(ents) and rnd.random() < 0.4:
                recs.append(dat("", c, ents[i][0], ents[i][1], ents[i + 1][0], ents[i + 1][1]))
                i += 2
            else:
                recs.append(dat("", c, ents[i][0], ents[i][1], fmt=rnd.choice(["d", "f", "E"])))
                i += 1
    recs.append({"k": "sec", "s": "RHS", "n1": []})
    rhsname, rngname, bndname = [rnd.choice([nm, nm, ""]) for nm in ("rhs", "rng", "bnd")]     # the first vector may have a blank name
    for l in labels:
        if rnd.random() < 0.6:
            recs.append(dat("", rhsname, l, rnd.randint(-6, 6)))
        if rnd.random() < 0.15:
            recs.append(dat("", "rhs2", l, rnd.randint(-6, 6)))      # a second right-hand side vector: ignored
    conrows = [l for t, l in order if t != "N"]
    if rnd.random() < 0.5:
        recs.append({"k": "sec", "s": "RANGES", "n1": []})
        for l in conrows:
            if rnd.random() < 0.6:
                recs.append(dat("", rngname, l, rnd.choice([-4, -2, -1, 0, 1, 3, 5])))
            if rnd.random() < 0.1:
                recs.append(dat("", "rng2", l, 7))
    if rnd.random() < 0.7:
        recs.append({"k": "sec", "s": "BOUNDS", "n1": []})
        for c in cols:
            r = rnd.random()
            if r < 0.25:
                continue
            kinds = rnd.choice([["LO"], ["UP"], ["FX"], ["FR"], ["MI"], ["PL"], ["LO", "UP"], ["MI", "UP"], ["UP", "LO"], ["LO", "PL"],
                                ["FR", "UP"], ["LO", "LO"], ["UP", "UP"], ["FX", "LO"], ["MI", "MI"], ["LO", "FX"]])
            for kd in kinds:
                recs.append(dat(kd, bndname, c, rnd.randint(-4, 6)))
            if rnd.random() < 0.1:
                recs.append(dat("UP", "bnd2", c, 9))
    recs.append({"k": "sec", "s": "ENDATA", "n1": []})
    return recs


# ------------------------------------------------------------------ real code
def _project(m, f, vs, matrix):
    """coefficients and constant of an affine function through its public value()"""
    for v in vs:
        v.value = matrix(0.0, (len(v), 1))
    k = [float(a) for a in f.value()]
    co = {}
    for v in vs:
        for i in range(len(v)):
            e = matrix(0.0, (len(v), 1))
            e[i] = 1.0
            v.value = e
            d = [float(a) - b for a, b in zip(f.value(), k)]
            v.value = matrix(0.0, (len(v), 1))
            co[(v.name, i)] = d
    return co, k


def _observe_op(m, prob, matrix):
    vs = prob.variables()
    o = {"vars": [[v.name, len(v)] for v in vs], "name": prob.name}
    co, k = _project(m, prob.objective, vs, matrix)
    o["obj"] = {"co": [[n, i, d[0]] for (n, i), d in co.items() if d[0] != 0.0], "k": k[0]}
    for key, lst in (("ineqs", prob.inequalities()), ("eqs", prob.equalities())):
        rows = []
        for c in lst:
            co, k = _project(m, c, vs, matrix)          # constraint.value() is the value of the constraint function
            for r in range(len(k)):
                rows.append({"co": [[n, i, d[r]] for (n, i), d in co.items() if d[r] != 0.0], "k": k[r], "type": c.type()})
        o[key] = rows
    return o


def _solve(m, prob, solvers):
    try:
        prob.solve("dense", "glpk")
        ov = prob.objective.value() if prob.status == "optimal" else None
        return {"status": prob.status, "obj": None if ov is None else float(ov[0])}
    except Exception as e:
        return {"raised": "%s: %s" % (type(e).__name__, str(e)[:100])}


def _run_case(case):
    import sys, io
    import cvxopt.modeling as m
    from cvxopt import matrix, solvers
    solvers.options["show_progress"] = False
    solvers.options["glpk"] = {"msg_lev": "GLP_MSG_OFF"}
    out = {}
    fd, path = tempfile.mkstemp(suffix=".mps", prefix="c14_")
    os.close(fd)
    saved = sys.stdout
    sys.stdout = io.StringIO()
    try:
        if case["kind"] == "w":
            P = case["P"]
            V = {v: m.variable(s, P["vnames"][v]) for v, s in P["sz"].items()}
            obj = c11.build(P["obj"], V)
            cons = []
            for c, nm in zip(P["cons"], P["cnames"]):
                a, b = c11.build(c["a"], V), c11.build(c["b"], V)
                cc = (a <= b) if c["rel"] == "<=" else (a >= b) if c["rel"] == ">=" else (a == b)
                if nm:
                    cc.name = nm
                cons.append(cc)
            prob = m.op(obj, cons, P["name"])
            byid = {id(V[v]): v for v in V}
            out["vord"] = [byid[id(v)] for v in prob.variables()]
            try:
                prob.tofile(path)
                out["text"] = open(path).read()
            except Exception as e:
                out["write_raised"] = "%s: %s" % (type(e).__name__, str(e)[:100])
            if "text" in out and not P["big"]:
                # (data that need more than six digits are not re-solved: the rounded LP is another LP, and GLPK was seen to cycle on such data)
                out["solve0"] = _solve(m, prob, solvers)
                out["objconst"] = _project(m, prob.objective, prob.variables(), matrix)[1][0]
        else:
            open(path, "w").write(case["text"])
            out["text"] = case["text"]
        if "text" in out:
            p2 = m.op()
            try:
                p2.fromfile(path)
                out["read"] = _observe_op(m, p2, matrix)
                if case["kind"] == "w" and not case["P"]["big"]:
                    out["solve1"] = _solve(m, p2, solvers)
            except Exception as e:
                out["read_raised"] = "%s: %s" % (type(e).__name__, str(e)[:100])
    finally:
        sys.stdout = saved
        try:
            os.unlink(path)
        except OSError:
            pass
    return out


def _job(args):
    from harness import isolate
    seed, nw, nr = args
    rnd = random.Random(seed)
    cases = [{"kind": "w", "P": gen_write_case(rnd)} for _ in range(nw)]
    for _ in range(nr):
        recs = gen_read_case(rnd)
        cases.append({"kind": "r", "recs": recs, "text": render(recs)})
    out = []
    for c0 in range(0, len(cases), 20):
        chunk = cases[c0:c0 + 20]
        st, res = isolate.run_isolated(lambda ch: [_run_case(c) for c in ch], chunk, timeout=120)
        if st == "ok":
            for c, r in zip(chunk, res):
                c["obs"] = r
                out.append(c)
        else:
            for c in chunk:
                st1, r1 = isolate.run_isolated(_run_case, c, timeout=30)
                if st1 == "ok":
                    c["obs"] = r1
                else:
                    c["crash"] = "%s:%s" % (st1, r1)
                out.append(c)
    return out


# ------------------------------------------------------------------ comparison
def canon_rows(rows, eq):
    out = []
    for r in rows:
        co = sorted((tuple(c[0]) if isinstance(c[0], list) else c[0], Fr(c[1])) for c in r["co"])
        k = Fr(r["k"])
        if eq and co and co[0][1] < 0:
            co = [(a, -b) for a, b in co]
            k = -k
        out.append((tuple(co), k))
    return sorted(out)


def compare_read(exp, got):
    """exp: ReadOut from TLC; got: observation of the op built by fromfile.  Returns None or a description"""
    def lab(name, i):
        return name
    g_obj = {"co": [[n, d] for n, i, d in got["obj"]["co"]], "k": got["obj"]["k"]}
    e_obj = {"co": [[S(c[0]), c[1]] for c in exp["obj"]["co"]], "k": exp["obj"]["k"]}
    if canon_rows([g_obj], False) != canon_rows([e_obj], False):
        return "objective: built %s, the file defines %s" % (canon_rows([g_obj], False), canon_rows([e_obj], False))
    for key, eq in (("ineqs", False), ("eqs", True)):
        g = canon_rows([{"co": [[n, d] for n, i, d in r["co"]], "k": r["k"]} for r in got[key]], eq)
        e = canon_rows([{"co": [[S(c[0]), c[1]] for c in r["co"]], "k": r["k"]} for r in exp[key]], eq)
        if g != e:
            return "%s: built %s, the file defines %s" % ("inequalities" if not eq else "equalities", g, e)
    if any(l != 1 for _, l in got["vars"]):
        return "a variable read from a file does not have length 1"
    gv = sorted(n for n, _ in got["vars"])
    ev = sorted(S(c) for c in exp["vars"])
    if gv != ev:
        return "variables: %s, the file defines %s" % (gv, ev)
    if got["name"] != S(exp["name"]):
        return "problem name %r, the file says %r" % (got["name"], S(exp["name"]))
    return None


def run(tier, seed, replay=None):
    ck = Check("C14", tier, seed)
    ck.clean_replays()
    quick = tier == "quick"
    ck.rule = ("(w) seeded random LPs (1-3 variables of lengths 1-3, scalar/row/matrix and dense/sparse coefficients, named/unnamed, small data and "
               "7-digit data, ~8% non-LPs) written, tokenized, re-read and re-solved; (r) seeded random well-formed record sequences over the "
               "supported subset read with fromfile; distinct = distinct structural classes")
    ck.trusted = ["TLC (MPS.tla: Write, Read, RoundTrip; ModelLP.tla for the LP of a problem)",
                  "the fixed-column tokenizer / renderer of the harness (MPS standard field positions)"]
    ck.assumptions = ["integer data (values exact in the 12-character number fields); ties in the sixth significant digit are not generated",
                      "rows without variables (constants-only constraints) are not generated: the reader drops them on purpose",
                      "distinct names whose labels coincide after the truncation to 8 characters are reported under one signature (known finding)"]
    nw, nr = (400, 400) if quick else (12000, 12000)
    parts = pmap(ck, _job, [(seed * 1000 + i, nw // 16, nr // 16) for i in range(16)], "c14", timeout=PMAP_TIMEOUT)
    cases = [c for p in parts for c in p]
    payload = []
    for c in cases:
        o = c.get("obs", {})
        if c["kind"] == "w":
            recs, hasfile = [], False
            if "text" in o:
                try:
                    recs, hasfile = tokenize(o["text"]), True
                except Exception as e:
                    c["tokerr"] = str(e)
            P = c12.clean_problem(c["P"])
            P.update({"vnames": {v: T(n) for v, n in c["P"]["vnames"].items()}, "cnames": [T(n) for n in c["P"]["cnames"]], "name": T(c["P"]["name"])})
            payload.append({"kind": "w", "P": P, "vord": o.get("vord", sorted(c["P"]["sz"])), "recs": recs, "hasfile": hasfile})
        else:
            payload.append({"kind": "r", "recs": [{k: v for k, v in r.items() if k not in ("fmt", "hasv")} for r in c["recs"]]})
    res = c12.tlc_batch(ck, "MC_MPS", "m", payload, chunk=64, par=14)
    ck.states = max(ck.states, 1); ck.transitions = max(ck.transitions, 1)
    stats = {"nonlp": 0, "collide": 0, "emptyrow": 0, "read_err_expected": 0, "w": 0, "r": 0}
    for c, r in zip(cases, res):
        ck.evaluations += 1
        o = c.get("obs", {})
        if "crash" in c:
            ck.violation("mps|hang-or-crash|%s" % c["kind"], "tofile/fromfile did not terminate or killed the interpreter (%s)" % c["crash"], {"case": c})
            continue
        if c["kind"] == "w":
            P = c["P"]
            desc = json.dumps(c12.clean_problem(P))[:500] + " names=%s/%s" % (P["vnames"], P["cnames"])
            if not r["ok"]:
                ck.machinery_errors.append("generator produced a problem the specification does not define: " + desc)
                continue
            if not r["islp"]:
                stats["nonlp"] += 1
                ck.nontrivial("w|nonlp")
                if "write_raised" not in o:
                    ck.violation("mps|tofile|accepts-non-lp", "tofile wrote a problem that is not an LP; " + desc, {"case": c})
                continue
            if not r["norows0"]:
                stats["emptyrow"] += 1
                continue
            if not r["theorem"] and r["distinct"]:
                ck.machinery_errors.append("specification: RoundTrip fails in the model for " + desc[:300])
                continue
            if not r["distinct"]:
                # distinct names whose 8-character labels coincide: the file cannot denote the LP
                stats["collide"] += 1
                ck.nontrivial("w|label-collision")
                if "write_raised" not in o and not r["denotes"]:
                    ck.violation("mps|tofile|labels-collide-for-distinct-names", "distinct names that agree in their first 6 characters get the same MPS label, "
                                 "so the file written does not denote the LP; names %s / %s" % (P["vnames"], P["cnames"]), {"case": c})
                continue
            stats["w"] += 1
            ck.nontrivial("w|%s|big=%s|named=%s" % (c12.shape_class(P), P["big"], sorted(set(bool(n) for n in P["vnames"].values()))))
            site = "big=%s" % P["big"]
            if "write_raised" in o:
                ck.violation("mps|tofile|refuses-lp|" + o["write_raised"].split(":")[0], "tofile raised %s for an LP; %s" % (o["write_raised"], desc), {"case": c})
                continue
            if c.get("tokerr"):
                ck.violation("mps|tofile|malformed-file|" + site, "the file written is not fixed-format MPS over integers to 6 digits (%s); %s" % (c["tokerr"], desc), {"case": c})
                continue
            if not r["denotes"]:
                ck.violation("mps|tofile|file-does-not-denote-the-lp|" + site, "the file written by tofile does not denote the LP (columns, rows, coefficients, "
                             "right-hand sides to 6 digits, free bounds); %s\n%s" % (desc, o["text"][:1500]), {"case": c, "expected_read": r["read"]})
                continue
            if "read_raised" in o:
                ck.violation("mps|fromfile|refuses-own-file|" + o["read_raised"].split(":")[0], "fromfile raised %s on the file tofile wrote; %s" % (o["read_raised"], desc), {"case": c})
                continue
            d = compare_read(r["read"], o["read"])
            if d:
                ck.violation("mps|fromfile|builds-other-constraints|roundtrip|" + site, "fromfile(tofile(lp)): %s; %s" % (d, desc), {"case": c, "expected_read": r["read"]})
                continue
            s0, s1 = o.get("solve0", {}), o.get("solve1", {})
            if P["big"]:
                pass          # data rounded to six digits: a different (nearby) LP, whose status and value may differ
            elif "raised" in s0 or "raised" in s1:
                if ("raised" in s0) != ("raised" in s1):
                    ck.violation("mps|roundtrip|solve-raises", "solve before/after the round trip: %s / %s; %s" % (s0, s1, desc), {"case": c})
            elif s0.get("status") != s1.get("status"):
                ck.violation("mps|roundtrip|status-differs", "status before/after the round trip: %s / %s; %s" % (s0, s1, desc), {"case": c})
            elif s0.get("status") == "optimal" and not P["big"]:
                # optimal value of the linear part: original value minus the objective's constant = value of the re-read problem
                lin0 = s0["obj"] - o["objconst"]
                if abs(lin0 - s1["obj"]) > 1e-7 * (1 + abs(lin0)):
                    ck.violation("mps|roundtrip|optimal-value-differs", "optimal value of the linear part before/after the round trip: %r / %r; %s" % (lin0, s1["obj"], desc), {"case": c})
        else:
            exp = r["read"]
            cls = "r|err" if exp["err"] else "r|ok"
            ck.nontrivial(cls + "|" + ",".join(sorted(set(x["s"] for x in c["recs"] if x["k"] == "sec"))) + "|" +
                          ",".join(sorted(set(x["f1"] for x in c["recs"] if x["k"] == "data"))))
            stats["r"] += 1
            desc = c["text"][:1200]
            if exp["err"]:
                stats["read_err_expected"] += 1
                if "read_raised" not in o:
                    ck.violation("mps|fromfile|accepts-inconsistent-file", "fromfile accepted a file the format does not define (conflicting bounds / unknown labels):\n" + desc, {"case": c})
                continue
            if "read_raised" in o:
                ck.violation("mps|fromfile|refuses-wellformed-file|" + o["read_raised"].split(":")[0], "fromfile raised %s on a well-formed file:\n%s" % (o["read_raised"], desc), {"case": c})
                continue
            d = compare_read(exp, o["read"])
            if d:
                ck.violation("mps|fromfile|builds-other-constraints|reader", "fromfile: %s\n%s" % (d, desc), {"case": c, "expected_read": exp})
    ck.extra.update(stats)
    for c, r in list(zip(cases, res))[:1]:
        ck.sample({"case": {k: v for k, v in c.items() if k != "obs"}, "expected": r})
    ck.finish()
