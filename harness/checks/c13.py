"""C13 - an op object stays consistent under any sequence of edits.

Spec: specs/OpEdit.tla (+ MC_OpEdit, OpEditTrace).
 1. TLC checks Mirror / TypeOK / action properties on the whole reachable graph
    of the pool (no depth bound) and dumps the labelled graph.
 2. TLC computes the exact LP classification table of the pool (Table).
 3. spec -> code: every transition of the graph is replayed on a real op built
    by the edit path that reaches its source state; the projected state is
    compared after the step; Solve transitions are compared with Table and with
    a freshly constructed op.
 4. code -> spec: seeded random histories (longer, multiplicities > MaxMult) are
    recorded from the real op and validated by TLC against OpEditTrace.
"""
import json, os, random, sys, time, collections, multiprocessing as mp
PMAP_TIMEOUT = int(__import__('os').environ.get('VERIF_PMAP_TIMEOUT', '300'))
from harness import tlc
from harness.core import Check

CFG = """CONSTANTS MaxMult = %d
MaxLen = %d
SPECIFICATION Spec
INVARIANT TypeOK
INVARIANT Mirror
PROPERTY DelRemovesOne
PROPERTY AddAddsOne
PROPERTY Separation
"""
TRACE_CFG = """CONSTANTS MaxMult = 99
MaxLen = 999
SPECIFICATION TSpec
"""

# ---------------------------------------------------------------------------
# implementation side
# ---------------------------------------------------------------------------
_POOL = None


class Pool(object):
    """the concrete pool, built from the pool TLC dumped (single source of truth: the spec)"""

    def __init__(self, pool):
        from cvxopt.modeling import variable, _function
        self.V = {n: variable(1, n) for n in ("x", "y", "z", "w")}
        self.vname = {id(v): n for n, v in self.V.items()}
        self.C = {}
        self.ctype = {}
        for c in pool["cons"]:
            f = _function() + 0.0
            for n in ("x", "y", "z", "w"):
                if c["coef"][n] != 0:
                    f = f + float(c["coef"][n]) * self.V[n]
            self.C[c["name"]] = (f <= float(c["rhs"])) if c["type"] == "<" else (f == float(c["rhs"]))
            self.ctype[c["name"]] = c["type"]
        self.cname = {id(c): n for n, c in self.C.items()}
        self.O = {}
        for o in pool["objs"]:
            f = 0.0
            for n in ("x", "y", "z", "w"):
                if o["cost"][n] != 0:
                    f = f + float(o["cost"][n]) * self.V[n]
            self.O[o["name"]] = f
        self.fresh_cache = {}

    def new_op(self):
        from cvxopt.modeling import op
        return op()

    def apply(self, p, act, arg):
        """apply one model action to the real op; returns extra observations"""
        if act == "Add":
            p.addconstraint(self.C[arg])
        elif act == "Del":
            p.delconstraint(self.C[arg])
        elif act == "SetObj":
            p.objective = self.O[arg]
        elif act == "Query":
            return {"copies": self.copies(p)}
        elif act == "Solve":
            return self.solve(p)
        return {}

    def project(self, p):
        return {"vars": sorted(self.vname.get(id(v), "?") for v in p.variables()),
                "ineqs": [self.cname.get(id(c), "?") for c in p.inequalities()],
                "eqs": [self.cname.get(id(c), "?") for c in p.equalities()],
                "cons": [self.cname.get(id(c), "?") for c in p.constraints()]}

    def copies(self, p):
        ok = True
        for q in (p.variables, p.constraints, p.inequalities, p.equalities):
            L = q()
            before = list(L)
            try:
                L.append(None)
            except Exception:
                try:
                    L += [None]
                except Exception:
                    pass
            try:
                del L[0:1]
            except Exception:
                pass
            after = q()
            ok = ok and len(after) == len(before) and all(a is b for a, b in zip(after, before))
        return ok

    @staticmethod
    def _outcome(p):
        try:
            p.solve()
        except Exception as e:
            return "raise", 0, type(e).__name__
        st = p.status
        val = 0
        if st == "optimal":
            v = p.objective.value()[0]
            val = int(round(v)) if abs(v - round(v)) < 1e-4 else 9999
        return st, val, None

    def solve(self, p):
        from cvxopt.modeling import op
        out, val, exc = self._outcome(p)
        # objective name: find by identity of the function object set
        key = (id(p.objective), tuple(id(c) for c in p.constraints()))
        oname = None
        for n, f in self.O.items():
            pass
        q = op(self._objective_of(p), list(p.constraints()))
        fout, fval, fexc = self._outcome(q)
        return {"out": out, "val": val, "fresh": fout, "freshval": fval, "excname": exc, "fexcname": fexc}

    def _objective_of(self, p):
        return p.objective


def _load_pool():
    global _POOL
    if _POOL is None:
        import cvxopt
        from cvxopt import solvers
        solvers.options["show_progress"] = False
        with open(os.path.join(tlc.WORK, "c13", "table", "optable.json")) as fh:
            _POOL = Pool(json.load(fh)["pool"])
    return _POOL


def _parse_label(lbl):
    name, _, rest = lbl.partition("(")
    arg = rest.rstrip(")").strip('"') if rest else None
    act = {"AddConstraint": "Add", "DelAbsent": "Del", "DelPresent": "Del", "DelConstraint": "Del",
           "SetObjective": "SetObj", "Query": "Query", "Solve": "Solve"}[name]
    return act, arg


def _replay_chunk(job):
    """job: list of (path, edge_label, dst_state, expected_row) ; returns list of mismatches"""
    P = _load_pool()
    res = []
    n = 0
    for path, label, dst, exp in job:
        p = P.new_op()
        try:
            for a, arg in path:
                P.apply(p, a, arg)
        except Exception as e:
            # the path itself is replayed as its own edge elsewhere; skip edges whose source cannot be built
            res.append({"kind": "unreachable", "path": path, "label": label, "exc": type(e).__name__})
            continue
        act, arg = _parse_label(label)
        n += 1
        exc = None
        obs = {}
        try:
            obs = P.apply(p, act, arg) or {}
        except Exception as e:
            exc = type(e).__name__
        got = P.project(p)
        bad = []
        if exc:
            bad.append(("exception", exc))
        if got["vars"] != sorted(dst["present"]):
            bad.append(("variables", got["vars"], sorted(dst["present"])))
        if got["ineqs"] != dst["ineqs"]:
            bad.append(("inequalities", got["ineqs"], dst["ineqs"]))
        if got["eqs"] != dst["eqs"]:
            bad.append(("equalities", got["eqs"], dst["eqs"]))
        if got["cons"] != dst["ineqs"] + dst["eqs"]:
            bad.append(("constraints", got["cons"]))
        if act == "Query" and not exc and not obs.get("copies"):
            bad.append(("copies",))
        if act == "Solve" and not exc:
            wellposed = exp["cls"] in ("solvable", "pinf", "dinf")
            if wellposed and (obs["out"] != obs["fresh"] or (obs["out"] == "optimal" and obs["val"] != obs["freshval"])):
                bad.append(("same-as-fresh", obs))
            if obs["out"] != "raise" and obs["out"] not in exp["allowed"]:
                bad.append(("status", obs, exp))
            if obs["out"] == "optimal" and exp["cls"] == "solvable" and obs["val"] != exp["opt"]:
                bad.append(("value", obs, exp))
        if bad:
            res.append({"kind": "mismatch", "path": path, "label": label, "act": act, "arg": arg, "bad": bad,
                        "dst": dst, "got": got})
    return n, res


def _walk_chunk(job):
    """job: list of walks; a walk is a list of (label, dst_state).  Long random walks through the graph reach
    each abstract state along many different histories (hidden implementation state differs between them)."""
    P = _load_pool()
    res = []
    n = 0
    for walk in job:
        p = P.new_op()
        hist = []
        for label, dst in walk:
            act, arg = _parse_label(label)
            n += 1
            exc = None
            obs = {}
            try:
                obs = P.apply(p, act, arg) or {}
            except Exception as e:
                exc = type(e).__name__
            got = P.project(p)
            bad = []
            if exc:
                bad.append(("exception", exc))
            if got["vars"] != sorted(dst["present"]):
                bad.append(("variables", got["vars"], sorted(dst["present"])))
            if got["ineqs"] != dst["ineqs"]:
                bad.append(("inequalities", got["ineqs"], dst["ineqs"]))
            if got["eqs"] != dst["eqs"]:
                bad.append(("equalities", got["eqs"], dst["eqs"]))
            if act == "Query" and not exc and not obs.get("copies"):
                bad.append(("copies",))
            if act == "Solve" and not exc:
                exp = dst["exp"]
                wellposed = exp["cls"] in ("solvable", "pinf", "dinf")
                if wellposed and (obs["out"] != obs["fresh"] or (obs["out"] == "optimal" and obs["val"] != obs["freshval"])):
                    bad.append(("same-as-fresh", obs))
                if obs["out"] != "raise" and obs["out"] not in exp["allowed"]:
                    bad.append(("status", obs, exp))
                if obs["out"] == "optimal" and exp["cls"] == "solvable" and obs["val"] != exp["opt"]:
                    bad.append(("value", obs, exp))
            if bad:
                res.append({"kind": "mismatch", "path": list(hist), "label": label, "act": act, "arg": arg, "bad": bad,
                            "dst": dst, "got": got, "walk": True})
                break
            hist.append((act, arg))
    return n, res


def _classify(P_cons_vars, m):
    """canonical signature of a replay mismatch"""
    act = m["act"]
    fields = sorted(set(b[0] for b in m["bad"]))
    sig = "op.%s|%s" % ({"Add": "addconstraint", "Del": "delconstraint", "SetObj": "objective", "Query": "query",
                         "Solve": "solve"}[act], "+".join(fields))
    if act == "Del":
        nv = len(P_cons_vars.get(m["arg"], []))
        exc = [b[1] for b in m["bad"] if b[0] == "exception"]
        if exc:
            sig += "|%s:constraint-with-%d-variables" % (exc[0], nv)
        elif "variables" in fields:
            extra = set(m["got"]["vars"]) - set(m["dst"]["present"])
            missing = set(m["dst"]["present"]) - set(m["got"]["vars"])
            sig += "|%s" % ("stale-variable-kept" if extra and not missing else "variable-lost" if missing and not extra else "both")
    elif act == "SetObj" and "variables" in fields:
        extra = set(m["got"]["vars"]) - set(m["dst"]["present"])
        sig += "|%s" % ("stale-variable-kept" if extra else "variable-lost")
    elif act == "Solve":
        exc = [b[1] for b in m["bad"] if b[0] == "exception"]
        if exc:
            sig += "|" + exc[0]
    return sig


# ---------------------------------------------------------------------------
def _random_histories(seed, n, maxlen):
    P = _load_pool()
    rnd = random.Random(seed)
    traces = []
    cn = sorted(P.C)
    on = sorted(P.O)
    for t in range(n):
        p = P.new_op()
        tr = []
        L = rnd.randint(3, maxlen)
        for k in range(L):
            r = rnd.random()
            if r < 0.35:
                act, arg = "Add", rnd.choice(cn)
            elif r < 0.65:
                # bias deletions towards present constraints
                pres = [P.cname[id(c)] for c in p.constraints() if id(c) in P.cname]
                arg = rnd.choice(pres) if pres and rnd.random() < 0.8 else rnd.choice(cn)
                act = "Del"
            elif r < 0.8:
                act, arg = "SetObj", rnd.choice(on)
            elif r < 0.9:
                act, arg = "Query", None
            else:
                act, arg = "Solve", None
            ev = {"ev": act, "exc": False}
            if act in ("Add", "Del"):
                ev["c"] = arg
            if act == "SetObj":
                ev["o"] = arg
            try:
                obs = P.apply(p, act, arg) or {}
            except Exception as e:
                ev["exc"] = True
                ev["excname"] = type(e).__name__
                obs = {"copies": False, "out": "raise", "fresh": "?", "val": 0, "freshval": 0}
            ev.update(P.project(p))
            if act == "Query":
                ev["copies"] = bool(obs.get("copies"))
            if act == "Solve":
                for k2 in ("out", "fresh", "val", "freshval"):
                    ev[k2] = obs[k2]
            tr.append(ev)
            if ev["exc"]:
                break
        traces.append(tr)
    return traces


def _gen_traces(args):
    seed, n, maxlen = args
    return _random_histories(seed, n, maxlen)


def validate_traces(ck, traces, name, expect_reject=None):
    """run TLC on a batch of traces; returns (accepted ids, failed clause map)"""
    wd = tlc.workdir("c13/" + name)
    tf = os.path.join(wd, "traces.json")
    with open(tf, "w") as fh:
        json.dump(traces, fh)
    r = tlc.run_tlc("OpEditTrace", TRACE_CFG, wd, workers=1, env={"TRACE_FILE": tf}, timeout=3000)
    ok = ck.require_tlc_ok("trace:" + name, r)
    acc = set()
    failed = {}
    for v in tlc.printed_values(r.out):
        if v and v[0] == "ACCEPT":
            acc.add(v[1])
        elif v and v[0] == "FAILED":
            failed.setdefault(v[1], []).append((v[2], v[3]))
    return ok, acc, failed


def run(tier, seed, replay=None):
    ck = Check("C13", tier, seed)
    ck.clean_replays()
    ck.rule = ("spec->code: one replay per transition of OpEdit's reachable graph (distinct = distinct (source state, action, argument)); "
               "code->spec: seeded random edit histories validated by TLC against OpEditTrace (distinct = distinct event tuples)")
    ck.trusted = ["TLC", "harness/checks/c13.py projection (variables()/constraints()/inequalities()/equalities() by object identity)"]
    ck.assumptions = ["the LP classification table is exact because every pool constraint is totally unimodular with |data| <= 3 (vertices, rays, null vectors on the grid)",
                      "solver status for the pool's tiny well-scaled LPs equals the exact classification (validated on all 384 (objective, subset) pairs on the unchanged tree)"]
    quick = tier == "quick"
    mult, mlen = (1, 7) if quick else (2, 5)

    # 1. design-level model checking + graph dump
    wd = tlc.workdir("c13/design")
    r = tlc.run_tlc("OpEdit", CFG % (mult, mlen), wd, dump="graph", coverage=True)
    if not ck.require_tlc_ok("OpEdit exhaustive MaxMult=%d MaxLen=%d" % (mult, mlen), r):
        ck.finish()
    if r.violated:
        ck.violation("spec|" + r.violated, "design-level invariant %s violated in OpEdit" % r.violated, r.out[-3000:])
        ck.finish()
    ck.extra["exhaustive"] = True

    # 2. the classification table (TLC is the LP oracle for the pool)
    wt = tlc.workdir("c13/table")
    r2 = tlc.run_tlc("MC_OpEdit", CFG % (1, 0), wt)
    if not ck.require_tlc_ok("MC_OpEdit classification table", r2):
        ck.finish()
    with open(os.path.join(wt, "optable.json")) as fh:
        tab = json.load(fh)
    table = {(row["o"], frozenset(row["S"])): row for row in tab["rows"]}
    cons_vars = {c["name"]: [v for v, k in c["coef"].items() if k != 0] for c in tab["pool"]["cons"]}

    # 3. spec -> code: replay every transition
    nodes, edges, init = tlc.parse_dot(os.path.join(wd, "graph.dot"))
    adj = collections.defaultdict(list)
    for s, d, lbl in edges:
        adj[s].append((d, lbl))
    path = {init[0]: []}
    queue = collections.deque([init[0]])
    while queue:
        s = queue.popleft()
        for d, lbl in adj[s]:
            if d not in path and d != s:
                path[d] = path[s] + [_parse_label(lbl)]
                queue.append(d)
    jobs = []
    rnd = random.Random(seed)
    solve_budget = 3000 if quick else 10 ** 9
    elist = list(edges)
    rnd.shuffle(elist)
    nsolve = 0
    for s, d, lbl in elist:
        if s not in path:
            continue
        st = nodes[d]
        exp = None
        if lbl.startswith("Solve"):
            nsolve += 1
            if nsolve > solve_budget:
                continue
            exp = table[(st["obj"], frozenset(st["ineqs"] + st["eqs"]))]
            exp = {"allowed": exp["allowed"], "cls": exp["cls"], "opt": exp["opt"]}
        jobs.append((path[s], lbl, {"present": list(st["present"]), "ineqs": st["ineqs"], "eqs": st["eqs"]}, exp))
    chunks = [jobs[i::64] for i in range(64)]
    from harness.core import pmap
    results = pmap(ck, _replay_chunk, chunks, "c13", timeout=PMAP_TIMEOUT, chunksize=1)
    if results is None:
        ck.finish()
    nrep = 0
    for n, res in results:
        nrep += n
        for m in res:
            if m["kind"] == "unreachable":
                continue
            ck.violation(_classify(cons_vars, m), "replay of %s after %d edits: %s differ from the specified state" % (
                m["label"], len(m["path"]), ",".join(sorted(set(b[0] for b in m["bad"])))), m)
    ck.evaluations += nrep
    for s, d, lbl in elist[:3]:
        ck.sample({"source_path": path.get(s), "action": lbl, "expected_state": nodes[d]})
    for j in jobs:
        ck.nontrivial(("edge", json.dumps(j[0]), j[1]))
    ck.extra["graph"] = {"nodes": len(nodes), "edges": len(edges), "edges_replayed": nrep}

    # 3b. random walks through the graph (many histories per abstract state)
    nw, wl = (400, 40) if quick else (8000, 60)
    walks = []
    for i in range(nw):
        s = init[0]
        w = []
        for k in range(wl):
            if not adj[s]:
                break
            d, lbl = rnd.choice(adj[s])
            st = nodes[d]
            ds = {"present": list(st["present"]), "ineqs": st["ineqs"], "eqs": st["eqs"]}
            if lbl.startswith("Solve"):
                e = table[(st["obj"], frozenset(st["ineqs"] + st["eqs"]))]
                ds["exp"] = {"allowed": e["allowed"], "cls": e["cls"], "opt": e["opt"]}
            w.append((lbl, ds))
            s = d
        walks.append(w)
    from harness.core import pmap
    wres = pmap(ck, _walk_chunk, [walks[i::32] for i in range(32)], "c13", timeout=PMAP_TIMEOUT, chunksize=1)
    if wres is None:
        ck.finish()
    nwalk = 0
    for n, res in wres:
        nwalk += n
        for m in res:
            ck.violation(_classify(cons_vars, m) + "|history", "random walk: %s after a %d-step history: %s differ from the specified state" % (
                m["label"], len(m["path"]), ",".join(sorted(set(b[0] for b in m["bad"])))), m)
    ck.evaluations += nwalk
    ck.extra["graph"]["walks"] = nw
    ck.extra["graph"]["walk_steps_replayed"] = nwalk

    # 4. code -> spec: random histories validated by TLC
    ntr, maxlen = (600, 30) if quick else (6000, 40)
    from harness.core import pmap
    parts = pmap(ck, _gen_traces, [(seed * 1000 + i, ntr // 16 + 1, maxlen) for i in range(16)], "c13", timeout=PMAP_TIMEOUT, chunksize=1)
    if parts is None:
        ck.finish()
    traces = [t for part in parts for t in part]
    ok, acc, failed = validate_traces(ck, traces, "random")
    if ok:
        for i, tr in enumerate(traces, 1):
            ck.traces += 1
            for ev in tr:
                ck.nontrivial(("ev", ev["ev"], ev.get("c") or ev.get("o"), tuple(ev["ineqs"]), tuple(ev["eqs"])))
            if i not in acc:
                fl = failed.get(i, [(len(tr), "?")])[0]
                ev = tr[fl[0] - 1] if fl[0] - 1 < len(tr) else {}
                act = {"Add": "addconstraint", "Del": "delconstraint", "SetObj": "objective", "Query": "query", "Solve": "solve"}.get(ev.get("ev"), "?")
                sig = "op.%s|trace:%s" % (act, fl[1])
                if ev.get("exc"):
                    sig += "|" + ev.get("excname", "")
                    if ev.get("ev") == "Del":
                        sig += ":constraint-with-%d-variables" % len(cons_vars.get(ev.get("c"), []))
                ck.violation(sig, "trace rejected at event %d (%s), clause %s" % (fl[0], ev.get("ev"), fl[1]),
                             {"trace": tr[:fl[0]], "failed": fl})
        ck.sample({"trace": traces[0][:6]})

    # 5. binding demonstration: a corrupted trace must be rejected (thorough, or always cheap: do it always)
    good = [tr for i, tr in enumerate(traces, 1) if i in acc and len(tr) >= 4][:20]
    if good:
        bad = []
        for tr in good:
            tr2 = json.loads(json.dumps(tr))
            k = len(tr2) // 2
            tr2[k]["vars"] = sorted(set(tr2[k]["vars"]) ^ {"w"})      # flip membership of w
            bad.append(tr2)
        ok2, acc2, failed2 = validate_traces(ck, bad, "corrupted")
        ck.extra["binding_demo"] = {"corrupted_traces": len(bad), "rejected": len(bad) - len(acc2)}
        if ok2 and acc2:
            ck.machinery_errors.append("binding demonstration failed: corrupted traces accepted: %s" % sorted(acc2))
    ck.finish()
