"""tiny dense linear algebra on lists of lists of Python complex / Fraction numbers (oracle-side helper for C18/C19; no cvxopt, no numpy)"""
from fractions import Fraction as Fr


def shape(A):
    return (len(A), len(A[0]) if A else 0)


def zeros(m, n):
    return [[0.0] * n for _ in range(m)]


def eye(n):
    return [[1.0 if i == j else 0.0 for j in range(n)] for i in range(n)]


def mul(A, B):
    m, k = shape(A)
    n = len(B[0]) if B else 0
    return [[sum(A[i][l] * B[l][j] for l in range(k)) for j in range(n)] for i in range(m)]


def ct(A, conj=True):
    m, n = shape(A)
    return [[(A[i][j].conjugate() if conj and isinstance(A[i][j], complex) else A[i][j]) for i in range(m)] for j in range(n)]


def sub(A, B):
    return [[a - b for a, b in zip(ra, rb)] for ra, rb in zip(A, B)]


def maxabs(A):
    return max([abs(x) for r in A for x in r] + [0.0])


def close(A, B, tol):
    return shape(A) == shape(B) and maxabs(sub(A, B)) <= tol * (1.0 + max(maxabs(A), maxabs(B)))


def cfrac(z):
    z = complex(z)
    return (Fr(z.real), Fr(z.imag))


class QC(object):
    """exact complex rationals"""
    __slots__ = ("re", "im")

    def __init__(self, re=0, im=0):
        self.re, self.im = Fr(re), Fr(im)

    def __add__(self, o): return QC(self.re + o.re, self.im + o.im)
    def __sub__(self, o): return QC(self.re - o.re, self.im - o.im)
    def __mul__(self, o): return QC(self.re * o.re - self.im * o.im, self.re * o.im + self.im * o.re)
    def conj(self): return QC(self.re, -self.im)
    def inv(self):
        d = self.re * self.re + self.im * self.im
        return QC(self.re / d, -self.im / d)
    def iszero(self): return self.re == 0 and self.im == 0
    def __complex__(self): return complex(float(self.re), float(self.im))


def q_of(M):
    return [[QC(int(x[0]), int(x[1])) for x in r] for r in M]


def q_mul(A, B):
    m, k = shape(A)
    n = len(B[0]) if B else 0
    out = []
    for i in range(m):
        row = []
        for j in range(n):
            s = QC()
            for l in range(k):
                s = s + A[i][l] * B[l][j]
            row.append(s)
        out.append(row)
    return out


def q_ct(A):
    m, n = shape(A)
    return [[A[i][j].conj() for i in range(m)] for j in range(n)]


def q_solve(A, B):
    """exact solution of A X = B (A square nonsingular), Gauss-Jordan"""
    n = len(A)
    nr = len(B[0]) if B else 0
    M = [list(A[i]) + list(B[i]) for i in range(n)]
    for c in range(n):
        p = next(r for r in range(c, n) if not M[r][c].iszero())
        M[c], M[p] = M[p], M[c]
        iv = M[c][c].inv()
        M[c] = [x * iv for x in M[c]]
        for r in range(n):
            if r != c and not M[r][c].iszero():
                f = M[r][c]
                M[r] = [x - f * y for x, y in zip(M[r], M[c])]
    return [M[i][n:] for i in range(n)]


def q_float(M):
    return [[complex(x) for x in r] for r in M]
