"""Exact rational linear programming (two-phase simplex with Bland's rule over fractions.Fraction).

    minimize c'u + d   subject to  G u <= h,  A u = b,   u free

classify(lp) proposes the truth class with exact certificates; the certificates are DECIDED by TLC (ModelLP.tla: Truth), this
module is only the search procedure (and is also used by alpha for the box-restricted Lagrangian bound)."""
from fractions import Fraction as Fr
from math import gcd


def _solve_lin(M, rhs):
    """solve square system M y = rhs exactly (M nonsingular)"""
    n = len(M)
    a = [list(map(Fr, M[i])) + [Fr(rhs[i])] for i in range(n)]
    for col in range(n):
        piv = next(r for r in range(col, n) if a[r][col] != 0)
        a[col], a[piv] = a[piv], a[col]
        pv = a[col][col]
        a[col] = [v / pv for v in a[col]]
        for r in range(n):
            if r != col and a[r][col] != 0:
                f = a[r][col]
                a[r] = [x - f * y for x, y in zip(a[r], a[col])]
    return [a[i][n] for i in range(n)]


def rank(rows, ncols):
    a = [list(map(Fr, r)) for r in rows]
    rk = 0
    for col in range(ncols):
        piv = next((r for r in range(rk, len(a)) if a[r][col] != 0), None)
        if piv is None:
            continue
        a[rk], a[piv] = a[piv], a[rk]
        pv = a[rk][col]
        a[rk] = [v / pv for v in a[rk]]
        for r in range(len(a)):
            if r != rk and a[r][col] != 0:
                f = a[r][col]
                a[r] = [x - f * y for x, y in zip(a[r], a[rk])]
        rk += 1
    return rk


def _simplex_std(A, b, c):
    """min c'v s.t. A v = b, v >= 0 (exact).  Returns (status, v, y, extra):
    optimal: v, y with A'y <= c, b'y = c'v;  infeasible: y with A'y <= 0, b'y > 0;  unbounded: v feasible, extra = ray r >= 0, A r = 0, c'r < 0"""
    m, n = len(A), (len(A[0]) if A else len(c))
    if m == 0:
        neg = [j for j in range(n) if c[j] < 0]
        if neg:
            r = [Fr(0)] * n
            r[neg[0]] = Fr(1)
            return "unbounded", [Fr(0)] * n, [], r
        return "optimal", [Fr(0)] * n, [], None
    sign = [1 if b[i] >= 0 else -1 for i in range(m)]
    T = [[Fr(sign[i] * A[i][j]) for j in range(n)] + [Fr(1 if k == i else 0) for k in range(m)] + [Fr(sign[i] * b[i])] for i in range(m)]
    basis = [n + i for i in range(m)]
    N = n + m

    def pivot(r, col):
        pv = T[r][col]
        T[r] = [v / pv for v in T[r]]
        for i in range(m):
            if i != r and T[i][col] != 0:
                f = T[i][col]
                T[i] = [x - f * y for x, y in zip(T[i], T[r])]
        basis[r] = col

    def run(cost, allowed):
        # reduced costs computed from scratch each iteration (tiny problems): z_j = cost_j - cost_B' T[:, j]
        while True:
            cb = [cost[basis[i]] for i in range(m)]
            enter = None
            for j in range(N):
                if j in basis or not allowed(j):
                    continue
                rc = cost[j] - sum(cb[i] * T[i][j] for i in range(m))
                if rc < 0:
                    enter = j
                    break                       # Bland: lowest index
            if enter is None:
                return "optimal", None
            best, rr = None, None
            for i in range(m):
                if T[i][enter] > 0:
                    ratio = T[i][N] / T[i][enter]
                    if best is None or ratio < best or (ratio == best and basis[i] < basis[rr]):
                        best, rr = ratio, i
            if rr is None:
                return "unbounded", enter
            pivot(rr, enter)

    cost1 = [Fr(0)] * n + [Fr(1)] * m
    run(cost1, lambda j: True)
    w = sum(T[i][N] for i in range(m) if basis[i] >= n)
    # original (unflipped, unpivoted) standard matrix with artificials, for dual computations
    A0 = [[Fr(sign[i] * A[i][j]) for j in range(n)] + [Fr(1 if k == i else 0) for k in range(m)] for i in range(m)]

    def duals(cost):
        Bt = [[A0[i][basis[k]] for i in range(m)] for k in range(m)]          # B' (rows = basic columns)
        y = _solve_lin(Bt, [cost[basis[k]] for k in range(m)])
        return [sign[i] * y[i] for i in range(m)]                             # in terms of the original rows
    if w > 0:
        return "infeasible", None, duals(cost1), None
    # drive artificials out of the basis where possible
    for i in range(m):
        if basis[i] >= n:
            col = next((j for j in range(n) if T[i][j] != 0 and j not in basis), None)
            if col is not None:
                pivot(i, col)
    cost2 = [Fr(cj) for cj in c] + [Fr(0)] * m
    st, ent = run(cost2, lambda j: j < n)
    v = [Fr(0)] * n
    for i in range(m):
        if basis[i] < n:
            v[basis[i]] = T[i][N]
    if st == "unbounded":
        r = [Fr(0)] * n
        r[ent] = Fr(1)
        for i in range(m):
            if basis[i] < n:
                r[basis[i]] = -T[i][ent]
        return "unbounded", v, None, r
    # duals: artificial basic columns (redundant rows) get cost 0
    return "optimal", v, duals(cost2), None


def solve(lp):
    """lp: dict n, c, d, G, h, A, b (rows).  Returns dict status + exact certificates (Fractions)"""
    n = lp["n"]
    G, h, A, b, c = lp["G"], lp["h"], lp["A"], lp["b"], lp["c"]
    m, p = len(G), len(A)
    rows = [list(G[i]) + [-v for v in G[i]] + [1 if k == i else 0 for k in range(m)] for i in range(m)] + \
           [list(A[i]) + [-v for v in A[i]] + [0] * m for i in range(p)]
    rhs = list(h) + list(b)
    cost = list(c) + [-v for v in c] + [0] * m
    st, v, y, r = _simplex_std(rows, rhs, cost)
    out = {"status": st}
    if st in ("optimal", "unbounded"):
        out["x"] = [v[j] - v[n + j] for j in range(n)]
    if st == "optimal":
        out["z"] = [-y[i] for i in range(m)]
        out["y"] = [-y[m + i] for i in range(p)]
        out["value"] = sum(Fr(c[j]) * out["x"][j] for j in range(n)) + Fr(lp.get("d", 0))
    elif st == "infeasible":
        out["z"] = [-y[i] for i in range(m)]
        out["y"] = [-y[m + i] for i in range(p)]
    else:
        out["ray"] = [r[j] - r[n + j] for j in range(n)]
    return out


def dual_feasible(lp):
    """find Z >= 0, Y with G'Z + A'Y = -c; returns ("feasible", Z, Y) or ("infeasible", ray R with G R <= 0, A R = 0, c'R < 0)"""
    n = lp["n"]
    G, A, c = lp["G"], lp["A"], lp["c"]
    m, p = len(G), len(A)
    rows = [[G[i][j] for i in range(m)] + [A[i][j] for i in range(p)] + [-A[i][j] for i in range(p)] for j in range(n)]
    rhs = [-cj for cj in c]
    st, v, y, r = _simplex_std(rows, rhs, [0] * (m + 2 * p))
    if st == "infeasible":
        # y: rows'y <= 0 -> G y <= 0, A y <= 0, -A y <= 0;  rhs'y > 0 -> -c'y > 0
        return "infeasible", y, None
    return "feasible", v[:m], [v[m + i] - v[m + p + i] for i in range(p)]


def _ints(vs):
    """common positive denominator"""
    den = 1
    for v in vs:
        den = den * v.denominator // gcd(den, v.denominator)
    return [int(v * den) for v in vs], den


def classify(lp):
    """propose class + integer certificates for ModelLP.Truth"""
    s = solve(lp)
    if s["status"] == "optimal":
        X, dx = _ints(s["x"])
        ZY, dz = _ints(s["z"] + s["y"])
        m = len(lp["G"])
        return {"cls": "optimal", "X": X, "dx": dx, "Z": ZY[:m], "Y": ZY[m:], "dz": dz}, s
    if s["status"] == "infeasible":
        ZY, _ = _ints(s["z"] + s["y"])
        m = len(lp["G"])
        w = {"Z": ZY[:m], "Y": ZY[m:]}
        st, a, b_ = dual_feasible(lp)
        if st == "feasible":
            ZY0, dz = _ints(list(a) + list(b_))
            w.update({"cls": "pinf", "Z0": ZY0[:m], "Y0": ZY0[m:], "dz": dz})
        else:
            R, _ = _ints(a)
            w.update({"cls": "both", "R": R})
        return w, s
    R, _ = _ints(s["ray"])
    X, dx = _ints(s["x"])
    return {"cls": "dinf", "R": R, "X": X, "dx": dx}, s


def max_abs(w):
    m = 0
    for v in w.values():
        if isinstance(v, list):
            for a in v:
                m = max(m, abs(a))
        elif isinstance(v, int):
            m = max(m, abs(v))
    return m


# ------------------------------------------------------------------ regularity (strict feasibility), decided exactly
def _margin_positive(n, G, h, A, b, obj_row=None):
    """is there u with G u < h (strictly, every row), A u = b?  (max t s.t. G u + t <= h, t <= 1)"""
    m = len(G)
    if m == 0:
        s = solve({"n": n, "c": [0] * n, "d": 0, "G": [], "h": [], "A": A, "b": b})
        return s["status"] == "optimal"
    G2 = [list(G[i]) + [1] for i in range(m)] + [[0] * n + [1]]
    h2 = list(h) + [1]
    A2 = [list(r) + [0] for r in A]
    s = solve({"n": n + 1, "c": [0] * n + [-1], "d": 0, "G": G2, "h": h2, "A": A2, "b": list(b)})
    return s["status"] == "optimal" and s["value"] < 0


def strict_primal(lp):
    return _margin_positive(lp["n"], lp["G"], lp["h"], lp["A"], lp["b"])


def _tr(M, ncols):
    return [[M[i][j] for i in range(len(M))] for j in range(ncols)]


def strict_dual(lp):
    """z > 0, y with G'z + A'y = -c"""
    m, p, n = len(lp["G"]), len(lp["A"]), lp["n"]
    Gt, At = _tr(lp["G"], n), _tr(lp["A"], n)
    Aeq = [Gt[j] + At[j] for j in range(n)]
    G2 = [[-1 if k == i else 0 for k in range(m)] + [0] * p for i in range(m)]
    return _margin_positive(m + p, G2, [0] * m, Aeq, [-cj for cj in lp["c"]])


def strict_farkas(lp):
    """z > 0, y with G'z + A'y = 0, h'z + b'y = -1"""
    m, p, n = len(lp["G"]), len(lp["A"]), lp["n"]
    Gt, At = _tr(lp["G"], n), _tr(lp["A"], n)
    Aeq = [Gt[j] + At[j] for j in range(n)] + [list(lp["h"]) + list(lp["b"])]
    G2 = [[-1 if k == i else 0 for k in range(m)] + [0] * p for i in range(m)]
    return _margin_positive(m + p, G2, [0] * m, Aeq, [0] * n + [-1])


def strict_ray(lp):
    """r with G r < 0, A r = 0, c'r = -1"""
    n = lp["n"]
    return _margin_positive(n, lp["G"], [0] * len(lp["G"]), [list(r) for r in lp["A"]] + [list(lp["c"])], [0] * len(lp["A"]) + [-1])


def regular(lp, cls):
    if cls == "optimal":
        return strict_primal(lp) and strict_dual(lp)
    if cls == "pinf":
        return strict_farkas(lp) and strict_dual(lp)
    if cls == "dinf":
        return strict_primal(lp) and strict_ray(lp)
    return False
