"""Run a function in a forked child so that a crash of the interpreter (SIGSEGV, SIGFPE, SIGBUS, abort) or a hang of the
implementation under test is an observation, not the end of the check."""
import os, pickle, signal, select, time


def run_isolated(func, arg, timeout=60):
    """returns ("ok", result) | ("crash", signal number) | ("hang", None) | ("exit", code).  A child that does not answer in time is tried once
    more with five times the limit before it counts as a hang: on a loaded machine a fork can stall for longer than the work it does."""
    res = _run_once(func, arg, timeout)
    if res[0] == "hang" and timeout <= 300:
        res = _run_once(func, arg, timeout * 5)
    return res


def _run_once(func, arg, timeout):
    r, w = os.pipe()
    pid = os.fork()
    if pid == 0:
        try:
            os.close(r)
            res = func(arg)
            with os.fdopen(w, "wb") as fh:
                pickle.dump(res, fh)
            os._exit(0)
        except BaseException as e:      # noqa
            try:
                with os.fdopen(w, "wb") as fh:
                    pickle.dump({"__harness_exception__": repr(e)}, fh)
            except Exception:
                pass
            os._exit(3)
    os.close(w)
    chunks = []
    deadline = time.time() + timeout
    with os.fdopen(r, "rb") as fh:
        fd = fh.fileno()
        while True:
            left = deadline - time.time()
            if left <= 0:
                os.kill(pid, signal.SIGKILL)
                os.waitpid(pid, 0)
                return ("hang", None)
            rd, _, _ = select.select([fd], [], [], min(left, 1.0))
            if rd:
                b = os.read(fd, 1 << 16)
                if not b:
                    break
                chunks.append(b)
    _, st = os.waitpid(pid, 0)
    if os.WIFSIGNALED(st):
        return ("crash", os.WTERMSIG(st))
    data = b"".join(chunks)
    if not data:
        return ("exit", os.WEXITSTATUS(st))
    res = pickle.loads(data)
    if isinstance(res, dict) and "__harness_exception__" in res:
        return ("exit", res["__harness_exception__"])
    return ("ok", res)
