"""Runs a family of generated calls against the GUARD build of the C extension (every buffer ends at an inaccessible page, freed buffers become
inaccessible) inside crash-isolated forks and prints one JSON document: for every case the outcome, or the fact that it killed the
interpreter.  Executed as a separate process (python -m harness.guardrun <family> <seed> <count>) with the guard build first on PYTHONPATH."""
import json, os, random, resource, sys

BIG = [2147483647, 2147483646, 1073741824, 1073741823, 65536, 65535, 46341, 46340, 715827883, -2147483648, -2147483647, -65536, 4294967296, -4294967297, 2 ** 62]
INTKEYS = ["n", "m", "k", "kl", "ku", "inc", "incx", "incy", "offset", "offsetx", "offsety", "offsetA", "offsetB", "offsetC", "ldA", "ldB", "ldC"]


def limit():
    resource.setrlimit(resource.RLIMIT_AS, (8 << 30, 8 << 30))
    resource.setrlimit(resource.RLIMIT_CORE, (0, 0))


def isolated(func, cases, timeout, chunk):
    """run func(list of cases) -> list of results in forks; a crash is attributed to a single case"""
    from harness import isolate
    out = []
    for c0 in range(0, len(cases), chunk):
        part = cases[c0:c0 + chunk]
        st, r = isolate.run_isolated(func, part, timeout=timeout)
        if st == "ok":
            out += r
            continue
        for c in part:
            st1, r1 = isolate.run_isolated(func, [c], timeout=max(10, timeout // 4))
            if st1 == "ok":
                out += r1
                continue
            # the kernels of the external BLAS over-read their operands by up to a vector register: a crash that a slack of 64 bytes
            # before the guard page cures is not attributed to the wrappers (exact footprints are the business of the model comparisons)
            if os.environ.get("VERIF_EXACT_GUARD") == "1":
                out.append({"crash": "%s:%s" % (st1, r1)})
                continue
            os.environ["VERIF_GUARD_SLACK"] = "64"
            try:
                st2, r2 = isolate.run_isolated(func, [c], timeout=max(10, timeout // 4))
            finally:
                del os.environ["VERIF_GUARD_SLACK"]
            if st2 == "ok":
                for x in r2:
                    x["overread_le_64"] = "%s:%s" % (st1, r1)
                out += r2
            else:
                out.append({"crash": "%s:%s" % (st1, r1)})
    return out


def blas_cases(rnd, n, large):
    from harness.checks import c17
    cases = []
    if large:
        c17.DIMS = [2, 3, 3, 3]          # products (d-1)*ld, (d-1)*inc only overflow for d >= 3 with the values below
    for i in range(n):
        f = c17.ALL[i % len(c17.ALL)]
        c = c17.gen_call(rnd, f)
        c["explicit_ints"] = rnd.random() < 0.15
        c["explicit_flags"] = rnd.random() < 0.15
        c["conflict"] = None
        if large:
            keys = [k for k in INTKEYS if k in c17.KW[f] or ("@" + k) in c17.POS[f]]
            # the arguments that are MULTIPLIED in a footprint (leading dimensions, increments, band widths) get more of the huge values
            wkeys = [k for k in keys for _ in range(3 if (k.startswith("ld") or k.startswith("inc") or k in ("k", "kl", "ku")) else 1)]
            for k in set(rnd.choice(wkeys) for _ in range(rnd.choice([1, 1, 1, 1, 2]))):
                c["a"][k] = rnd.choice(BIG)
        cases.append(c)
    return cases


def run_blas(cases):
    from harness.checks import c17
    res = []
    for c in cases:
        try:
            res += c17._run_calls([c])
        except OverflowError as e:          # an argument does not fit a C int: rejected by the argument parser
            res.append({"raised": "OverflowError", "bufs": None})
    return res


def lapack_large_cases(rnd, n):
    cases = []
    names = ["gesv", "getrf", "getrs", "getri", "posv", "potrf", "potrs", "potri", "sysv", "hesv", "trtrs", "trtri", "gels", "geqrf", "syev", "gesvd", "gees",
             "gbsv", "gbtrf", "gbtrs", "pbsv", "pbtrf", "pbtrs", "tbtrs", "gtsv", "ptsv", "heev", "syevd", "syevx", "syevr", "gesdd", "orgqr", "ormqr", "gelqf", "geqp3", "lacpy"]
    for i in range(n):
        cases.append({"f": names[i % len(names)], "seed": rnd.randrange(1 << 30)})
    return cases


def run_lapack_large(cases):
    """valid small calls with one or two integer arguments replaced by huge / negative values: an exception or a normal return, never a crash"""
    from cvxopt import matrix, lapack
    res = []
    for c in cases:
        rnd = random.Random(c["seed"])
        tc = rnd.choice(["d", "z"])
        n, nrhs = rnd.randint(1, 3), rnd.randint(1, 2)
        def M(r, cc, t=tc):
            return matrix([float(rnd.randint(-2, 2)) + (3.0 if i % (r + 1) == 0 else 0.0) for i in range(r * cc)], (r, cc), t)
        A, B = M(n, n), M(n, nrhs)
        ip = matrix(list(range(1, n + 1)), (n, 1), "i")       # a valid pivot vector (its CONTENTS are not arguments of the documented kind)
        W = matrix(0.0, (n, 1), "d")
        tau = matrix(0.0, (n, 1), tc)
        f = c["f"]
        pos = {"gesv": (A, B), "getrf": (A, ip), "getrs": (A, ip, B), "getri": (A, ip), "posv": (A, B), "potrf": (A,), "potrs": (A, B), "potri": (A,), "sysv": (A, B),
               "hesv": (A, B), "trtrs": (A, B), "trtri": (A,), "gels": (A, B), "geqrf": (A, tau), "syev": (A, W), "heev": (A, W), "syevd": (A, W), "syevx": (A, W), "syevr": (A, W),
               "gesvd": (A, W), "gesdd": (A, W), "gees": (A,), "gbsv": (M(3 * 1 + 1, n), 1, B), "gbtrf": (M(4, n), n, 1, ip), "gbtrs": (M(4, n), 1, ip, B), "pbsv": (M(2, n), B),
               "pbtrf": (M(2, n),), "pbtrs": (M(2, n), B), "tbtrs": (M(2, n), B), "gtsv": (M(max(n - 1, 1), 1), M(n, 1), M(max(n - 1, 1), 1), B),
               "ptsv": (M(n, 1, "d"), M(max(n - 1, 1), 1), B), "orgqr": (A, tau), "ormqr": (A, tau, B), "gelqf": (A, tau), "geqp3": (A, matrix(0, (n, 1), "i"), tau),
               "lacpy": (A, M(n, n))}[f]
        keys = {"gesv": ["n", "nrhs", "ldA", "ldB", "offsetA", "offsetB"], "getrf": ["m", "n", "ldA", "offsetA"], "getrs": ["n", "nrhs", "ldA", "ldB", "offsetA", "offsetB"],
                "getri": ["n", "ldA", "offsetA"], "gels": ["m", "n", "nrhs", "ldA", "ldB", "offsetA", "offsetB"], "geqrf": ["m", "n", "ldA", "offsetA"],
                "gesvd": ["m", "n", "ldA", "offsetA", "offsetS"], "gesdd": ["m", "n", "ldA", "offsetA", "offsetS"], "gees": ["n", "ldA", "offsetA"],
                "gbsv": ["ku", "n", "nrhs", "ldA", "ldB", "offsetA", "offsetB"], "gbtrf": ["n", "ku", "ldA", "offsetA"], "gbtrs": ["n", "ku", "nrhs", "ldA", "ldB", "offsetA", "offsetB"],
                "pbsv": ["n", "kd", "nrhs", "ldA", "ldB", "offsetA", "offsetB"], "pbtrf": ["n", "kd", "ldA", "offsetA"], "pbtrs": ["n", "kd", "nrhs", "ldA", "ldB", "offsetA", "offsetB"],
                "tbtrs": ["n", "kd", "nrhs", "ldA", "ldB", "offsetA", "offsetB"], "gtsv": ["n", "nrhs", "ldB", "offsetdl", "offsetd", "offsetdu", "offsetB"],
                "ptsv": ["n", "nrhs", "ldB", "offsetd", "offsete", "offsetB"], "orgqr": ["m", "n", "k", "ldA", "offsetA"], "ormqr": ["m", "n", "k", "ldA", "ldC", "offsetA", "offsetC"],
                "gelqf": ["m", "n", "ldA", "offsetA"], "geqp3": ["m", "n", "ldA", "offsetA"], "lacpy": ["m", "n", "ldA", "ldB", "offsetA", "offsetB"]}
        ks = keys.get(f, ["n", "nrhs", "ldA", "ldB", "offsetA", "offsetB"] if len(pos) > 1 and hasattr(pos[1], "size") and f not in ("syev", "heev", "syevd", "syevx", "syevr") else ["n", "ldA", "offsetA"])
        if f in ("syev", "heev", "syevd", "syevx", "syevr"):
            ks = ["n", "ldA", "offsetA", "offsetW"]
        kw = {k: rnd.choice(BIG) for k in rnd.sample(ks, rnd.choice([1, 1, 2]))}
        o = {"f": f, "kw": kw}
        try:
            getattr(lapack, f)(*pos, **kw)
            o["raised"] = "none"
        except Exception as e:     # noqa
            o["raised"] = type(e).__name__
        res.append(o)
    return res


def base_large_cases(rnd, n):
    return [{"seed": rnd.randrange(1 << 30), "k": i % 12} for i in range(n)]


def run_base_large(cases):
    """constructors, indexing, arithmetic and sparse products with huge / negative integers: an exception or a normal return"""
    from cvxopt import matrix, spmatrix, sparse, base, blas
    res = []
    for c in cases:
        rnd = random.Random(c["seed"])
        big = lambda: rnd.choice(BIG)
        A = matrix([1.0, 2.0, 3.0, 4.0, 5.0, 6.0], (2, 3))
        S = spmatrix([1.0, 2.0, 3.0], [0, 1, 0], [0, 1, 2], (2, 3))
        x, y = matrix(1.0, (3, 1)), matrix(1.0, (2, 1))
        k = c["k"]
        ops = [
            lambda: matrix(0.0, (big(), rnd.choice([0, 2, big()]))),          # (715827883 x 1 doubles is a legitimate 5.7 GB allocation: slow, not wrong)
            lambda: matrix(0, (rnd.choice([65536, 46341, 2 ** 16 + 1]), rnd.choice([65536, 46341, 2 ** 16 + 1])), "i")[5],
            lambda: spmatrix(1.0, [0], [0], (big(), rnd.choice([1, 2]))),          # (a huge number of COLUMNS legitimately allocates and fills a huge colptr)
            lambda: A[big()],
            lambda: A[big(), 0],
            lambda: A.__setitem__(big(), 1.0),
            lambda: A[slice(big(), big(), rnd.choice([1, -1, big()]))],
            lambda: A[[0, big()]],
            lambda: A[matrix([0, rnd.choice([65536, -65536, 2147483647, -2147483648])])],
            lambda: S[big(), 0],
            lambda: S.__setitem__((0, big()), 1.0),
            lambda: S[slice(0, big(), big()), :],
            lambda: S[[0, big()], 0],
            lambda: base.gemv(S, x, y, m=big()),
            lambda: base.gemv(S, x, y, n=big(), incx=big()),
            lambda: base.gemv(A, x, y, offsetA=big()),
            lambda: base.gemm(S, matrix(1.0, (3, 2)), matrix(0.0, (2, 2)), k=big()),
            lambda: base.gemm(S, sparse(matrix(1.0, (3, 2))), matrix(0.0, (2, 2)), m=big(), n=big()),
            lambda: base.syrk(S, matrix(0.0, (2, 2)), n=big(), k=big()),
            lambda: base.axpy(S, spmatrix([], [], [], (2, 3)), alpha=2.0) or base.axpy(A, matrix(0.0, (2, 3))),
            lambda: setattr(A, "size", (big(), big())),
            lambda: setattr(S, "size", (big(), 1)),
            lambda: A * big(),
            lambda: matrix(range(3)) ** big() if False else A[::big()],
            lambda: base.sqrt(matrix([1.0]), ) and base.pow(matrix([2.0]), 2.0),
            lambda: matrix([1, 2, 3])[big():big():big()],
            lambda: sparse([[S], [S]])[big()],
            lambda: spmatrix([1.0, 2.0], [0, big()], [0, 0], (2, 1)),
            lambda: spmatrix([1.0, 2.0], [0, 1], [0, rnd.choice([2147483646, 1073741824, -1, -2147483648, 2 ** 62])]),    # (mid-size values legitimately allocate)
            lambda: base.spdiag([1.0, 2.0])[big(), big()],
            lambda: matrix([-9223372036854775807 - 1, 5, big() % (2 ** 63)]) % rnd.choice([-1, 1, 2, -2, big() % (2 ** 63) or 1]),
            lambda: matrix([-9223372036854775807 - 1, 5]).__imod__(rnd.choice([-1, 1, 0])),
            lambda: (matrix([-9223372036854775807 - 1, 9223372036854775807]) * rnd.choice([-1, 2, big()]), abs(matrix([-9223372036854775807 - 1])), -matrix([-9223372036854775807 - 1])),
        ]
        o = {"k": k}
        op = ops[(k + rnd.randrange(len(ops))) % len(ops)]
        try:
            op()
            o["raised"] = "none"
        except BaseException as e:     # noqa
            o["raised"] = type(e).__name__
        res.append(o)
    return res


def misc_cases(rnd, n):
    fs = ["sprod", "sinv", "max_step", "pack", "pack2", "unpack", "symm", "trisc", "triusc", "sdot", "scale2", "scale"]
    return [{"f": fs[i % len(fs)], "seed": rnd.randrange(1 << 30), "valid": (i // len(fs)) % 2 == 0} for i in range(n)]


def run_misc(cases):
    """cvxopt.misc_solvers with consistent arguments (valid) and with a vector that is shorter than dims requires (invalid)"""
    from cvxopt import matrix, misc, misc_solvers as ms
    res = []
    for c in cases:
        rnd = random.Random(c["seed"])
        dims = {"l": rnd.randint(0, 2), "q": [rnd.randint(1, 3) for _ in range(rnd.randint(0, 2))], "s": [rnd.randint(0, 2) for _ in range(rnd.randint(0, 2))]}
        N = dims["l"] + sum(dims["q"]) + sum(k * k for k in dims["s"])
        Np = dims["l"] + sum(dims["q"]) + sum(k * (k + 1) // 2 for k in dims["s"])
        Nl = dims["l"] + sum(dims["q"]) + sum(dims["s"])
        def interior():
            v = []
            v += [1.0 + rnd.random() for _ in range(dims["l"])]
            for q in dims["q"]:
                v += [2.0 + q] + [rnd.uniform(-0.5, 0.5) for _ in range(q - 1)]
            for k in dims["s"]:
                v += [(2.0 if i == j else 0.1) for j in range(k) for i in range(k)]
            return matrix(v, (N, 1), "d")
        cut = 0 if c["valid"] else rnd.randint(1, max(1, N))
        def vec(n_=None):
            v = interior()
            n_ = N if n_ is None else n_
            return matrix(list(v)[:max(0, n_)], (max(0, n_), 1), "d")
        x, y = vec(N - cut), vec()
        f = c["f"]
        o = {"f": f, "valid": c["valid"] or N == 0 or cut == 0}
        try:
            if N == 0 and f in ("scale", "scale2"):
                o["raised"] = "skipped"
            elif f == "sprod": ms.sprod(x, y, dims)
            elif f == "sinv": ms.sinv(x, y, dims)
            elif f == "max_step": ms.max_step(x, dims)
            elif f == "pack": ms.pack(x, matrix(0.0, (Np, 1)), dims)
            elif f == "pack2": ms.pack2(x, dims)
            elif f == "unpack": ms.unpack(matrix(1.0, (max(0, Np - cut), 1)), matrix(0.0, (N, 1)), dims)
            elif f == "symm": ms.symm(matrix(1.0, (max(0, 9 - (0 if c["valid"] else 4)), 1)), 3)
            elif f == "trisc": ms.trisc(x, dims)
            elif f == "triusc": ms.triusc(x, dims)
            elif f == "sdot": ms.sdot(x, y, dims)
            elif f == "scale2": ms.scale2(matrix(1.5, (Nl, 1)), x, dims)
            elif f == "scale":
                W = misc.compute_scaling(interior(), interior(), matrix(0.0, (Nl, 1)), dims)
                ms.scale(x, W)
            o.setdefault("raised", "none")
        except Exception as e:    # noqa
            o["raised"] = type(e).__name__
        res.append(o)
    return res


def shape_cases(rnd, n):
    return [{"seed": rnd.randrange(1 << 30), "k": i % 6} for i in range(n)]


def run_shapes(cases):
    """base.gemm / syrk / gemv / symv / axpy with dense and sparse operands of random (mostly mismatched) small shapes, empty ones included"""
    from cvxopt import matrix, sparse, base
    res = []
    for c in cases:
        rnd = random.Random(c["seed"])
        tc = rnd.choice(["d", "z"])
        def M(r=None, cc=None):
            r = rnd.randint(0, 3) if r is None else r
            cc = rnd.randint(0, 3) if cc is None else cc
            A = matrix([complex(rnd.randint(-2, 2), rnd.randint(-1, 1) if tc == "z" else 0) if tc == "z" else float(rnd.randint(-2, 2)) for _ in range(r * cc)], (r, cc), tc)
            return sparse(A) if rnd.random() < 0.5 else A
        k = c["k"]
        o = {"k": k}
        try:
            if k == 0:
                base.gemm(M(), M(), M(), transA=rnd.choice("NTC"), transB=rnd.choice("NTC"), partial=rnd.random() < 0.3)
            elif k == 1:
                m, kk, n = rnd.randint(0, 3), rnd.randint(0, 3), rnd.randint(0, 3)
                base.gemm(M(m, kk), M(kk, n), M(m, n), alpha=2.0, beta=rnd.choice([0.0, 1.0]), partial=rnd.random() < 0.3)
            elif k == 2:
                base.syrk(M(), M(), uplo=rnd.choice("LU"), trans=rnd.choice("NT"), partial=rnd.random() < 0.3)
            elif k == 3:
                A = M()
                x = matrix(1.0, (rnd.randint(0, 4), 1), tc)
                y = matrix(1.0, (rnd.randint(0, 4), 1), tc)
                kw = {}
                for key, vals in (("m", [-1, 0, 1, 2, 3]), ("n", [-1, 0, 1, 2, 3]), ("incx", [1, -1, 2]), ("incy", [1, -1, 2]), ("offsetA", [0, 1, 2, 5]), ("offsetx", [0, 1]), ("offsety", [0, 1])):
                    if rnd.random() < 0.4:
                        kw[key] = rnd.choice(vals)
                base.gemv(A, x, y, trans=rnd.choice("NTC"), **kw)
            elif k == 4:
                n = rnd.randint(0, 3)
                A = M(n, rnd.choice([n, n, rnd.randint(0, 3)]))
                if tc == "z":
                    A = +A
                base.symv(A, matrix(1.0, (rnd.randint(0, 4), 1), tc), matrix(1.0, (rnd.randint(0, 4), 1), tc), uplo=rnd.choice("LU"))
            else:
                base.axpy(M(), M(), alpha=2.0)
            o["raised"] = "none"
        except Exception as e:   # noqa
            o["raised"] = type(e).__name__
        res.append(o)
    return res


def index_cases(rnd, n):
    """boundary boxes of index arguments: every index form with values in -(len+2) .. len+2 on small dense and sparse matrices"""
    cases = []
    shapes = [(0, 0), (1, 1), (2, 3), (3, 1), (0, 2)]
    for _ in range(n):
        nr, nc = rnd.choice(shapes)
        L = nr * nc
        def iv(m_):
            return rnd.randint(-m_ - 2, m_ + 2)
        def one(m_):
            r = rnd.random()
            if r < 0.35:
                return ["int", iv(m_)]
            if r < 0.6:
                return ["slice", rnd.choice([None, iv(m_)]), rnd.choice([None, iv(m_)]), rnd.choice([None, 1, -1, 2, -2, 0, iv(m_)])]
            if r < 0.8:
                return ["list", [iv(m_) for _ in range(rnd.randint(0, 3))]]
            return ["imat", [iv(m_) for _ in range(rnd.randint(0, 3))]]
        cases.append({"shape": [nr, nc], "sparse": rnd.random() < 0.5, "tc": rnd.choice(["i", "d", "z"]), "set": rnd.random() < 0.5,
                      "ix": [one(L)] if rnd.random() < 0.4 else [one(nr), one(nc)], "rhs": rnd.choice(["num", "mat", "spmat", "list"])})
    return cases


def run_index(cases):
    from cvxopt import matrix, sparse
    res = []
    def conv(ix):
        if ix[0] == "int":
            return ix[1]
        if ix[0] == "slice":
            return slice(ix[1], ix[2], ix[3])
        if ix[0] == "list":
            return list(ix[1])
        return matrix(ix[1], (len(ix[1]), 1), "i")
    for c in cases:
        nr, nc = c["shape"]
        tc = c["tc"] if not c["sparse"] or c["tc"] != "i" else "d"
        A = matrix([1 + (i % 5) for i in range(nr * nc)], (nr, nc), tc)
        if c["sparse"]:
            A = sparse(A)
        key = conv(c["ix"][0]) if len(c["ix"]) == 1 else (conv(c["ix"][0]), conv(c["ix"][1]))
        o = {}
        try:
            if c["set"]:
                rhs = {"num": 7, "mat": matrix(7, (1, 1), tc if tc != "i" else "i"), "spmat": sparse(matrix(7.0, (1, 1))), "list": [7]}[c["rhs"]]
                A[key] = rhs
            else:
                B = A[key]
                if hasattr(B, "size"):
                    list(B) if not c["sparse"] else B.CCS
            o["raised"] = "none"
        except Exception as e:    # noqa
            o["raised"] = type(e).__name__
        res.append(o)
    return res


def gemvbox_cases(rnd, n):
    out = []
    for _ in range(n):
        nr, nc = rnd.choice([(2, 3), (1, 2), (3, 1), (2, 2), (0, 2), (2, 0)])
        out.append({"shape": [nr, nc], "sparse": rnd.random() < 0.8, "tc": rnd.choice(["d", "z"]), "trans": rnd.choice("NTC"),
                    "m": rnd.randint(-1, 4), "n": rnd.randint(-1, 4), "offsetA": rnd.randint(0, nr * nc + 3), "incx": rnd.choice([1, -1, 2]), "incy": rnd.choice([1, -1, 2]),
                    "lx": rnd.randint(0, 6), "ly": rnd.randint(0, 6), "f": rnd.choice(["gemv", "gemv", "symv"])})
    return out


def run_gemvbox(cases):
    from cvxopt import matrix, sparse, base
    res = []
    for c in cases:
        nr, nc = c["shape"]
        A = matrix([1 + (i % 3) for i in range(nr * nc)], (nr, nc), c["tc"])
        if c["sparse"]:
            A = sparse(A)
        x, y = matrix(1.0, (c["lx"], 1), c["tc"]), matrix(1.0, (c["ly"], 1), c["tc"])
        o = {}
        try:
            if c["f"] == "gemv":
                base.gemv(A, x, y, trans=c["trans"], m=c["m"], n=c["n"], offsetA=c["offsetA"], incx=c["incx"], incy=c["incy"])
            else:
                base.symv(A if c["tc"] == "d" else matrix(1.0, (nr, nc)) if not c["sparse"] else sparse(matrix(1.0, (nr, nc))),
                          matrix(1.0, (c["lx"], 1)), matrix(1.0, (c["ly"], 1)), n=c["n"], offsetA=c["offsetA"], incx=c["incx"], incy=c["incy"])
            o["raised"] = "none"
        except Exception as e:    # noqa
            o["raised"] = type(e).__name__
        res.append(o)
    return res


def lapack_shape_cases(rnd, n):
    names = ["gesv", "getrf", "getrs", "getri", "geqrf", "orgqr", "ormqr", "gelqf", "geqp3", "syev", "syevx", "syevr", "gesvd", "gesdd", "gees", "gels", "potrs", "sytrf", "sytrs", "trtrs", "gbtrf", "gbtrs", "gtsv", "gttrf", "ptsv", "pbtrs", "sysv"]
    return [{"f": names[i % len(names)], "seed": rnd.randrange(1 << 30)} for i in range(n)]


def run_lapack_shapes(cases):
    """LAPACK wrappers called with one output / auxiliary / right-hand-side matrix that is too small (by a row, a column or an entry): an exception or a
    normal return (when the routine does not need the missing part), never a crash"""
    from cvxopt import matrix, lapack
    res = []
    for c in cases:
        rnd = random.Random(c["seed"])
        tc = rnd.choice(["d", "z"])
        m, n = rnd.randint(1, 4), rnd.randint(1, 4)
        sq = rnd.randint(1, 4)
        nrhs = rnd.randint(1, 2)
        def M(r, cc, t=tc):
            r, cc = max(0, r), max(0, cc)
            return matrix([float(rnd.randint(-2, 2)) + (4.0 if i % (r + 1) == 0 else 0.0) for i in range(r * cc)], (r, cc), t)
        # exactly one of the shrinkable arguments of the call is too small (the others have their full size)
        pick = [rnd.randrange(6)]
        def shrink(k):
            pick[0] -= 1
            return k - (rnd.choice([1, 1, 2]) if pick[0] == -1 else 0)
        f = c["f"]
        ip = lambda k: matrix(list(range(1, max(0, k) + 1)), (max(0, k), 1), "i")
        o = {"f": f}
        try:
            if f == "gesv": lapack.gesv(M(sq, sq), M(shrink(sq), nrhs), ip(shrink(sq)) if rnd.random() < 0.5 else None)
            elif f == "getrf": lapack.getrf(M(m, n), ip(shrink(min(m, n))))
            elif f == "getrs": lapack.getrs(M(sq, sq), ip(shrink(sq)), M(shrink(sq), nrhs), trans=rnd.choice("NTC"))
            elif f == "getri": lapack.getri(M(sq, shrink(sq)), ip(shrink(sq)))
            elif f == "geqrf": lapack.geqrf(M(m, n), M(shrink(min(m, n)), 1))
            elif f == "orgqr": getattr(lapack, "ungqr" if tc == "z" else "orgqr")(M(m, shrink(min(m, n))), M(shrink(min(m, n)), 1))
            elif f == "ormqr": getattr(lapack, "unmqr" if tc == "z" else "ormqr")(M(m, min(m, n)), M(shrink(min(m, n)), 1), M(shrink(m), 2), side=rnd.choice("LR"))
            elif f == "gelqf": lapack.gelqf(M(m, n), M(shrink(min(m, n)), 1))
            elif f == "geqp3": lapack.geqp3(M(m, n), matrix(0, (shrink(n), 1), "i"), M(shrink(min(m, n)), 1))
            elif f == "syev": getattr(lapack, "heev" if tc == "z" else "syev")(M(sq, sq), matrix(0.0, (shrink(sq), 1)), jobz=rnd.choice("NV"))
            elif f in ("syevx", "syevr"):
                nm = ("heev" if tc == "z" else "syev") + f[-1]
                getattr(lapack, nm)(M(sq, sq), matrix(0.0, (shrink(sq), 1)), jobz="V", range=rnd.choice("AI"), il=1, iu=sq, Z=M(shrink(sq), shrink(sq)))
            elif f == "gesvd":
                job = rnd.choice("AS")
                lapack.gesvd(M(m, n), matrix(0.0, (shrink(min(m, n)), 1)), jobu=job, jobvt=job, U=M(m, shrink(m if job == "A" else min(m, n))), Vt=M(shrink(n if job == "A" else min(m, n)), n))
            elif f == "gesdd":
                job = rnd.choice("AS")
                lapack.gesdd(M(m, n), matrix(0.0, (shrink(min(m, n)), 1)), jobz=job, U=M(m, shrink(m if job == "A" else min(m, n))), Vt=M(shrink(n if job == "A" else min(m, n)), n))
            elif f == "gees": lapack.gees(M(sq, sq), matrix(0.0, (shrink(sq), 1), "z"), M(shrink(sq), sq))
            elif f == "gels": lapack.gels(M(m, n), M(shrink(max(m, n)), nrhs), trans=rnd.choice(["N", "C" if tc == "z" else "T"]))
            elif f == "potrs": lapack.potrs(M(sq, sq), M(shrink(sq), nrhs))
            elif f == "sytrf": getattr(lapack, "hetrf" if tc == "z" else "sytrf")(M(sq, sq), ip(shrink(sq)))
            elif f == "sytrs": getattr(lapack, "hetrs" if tc == "z" else "sytrs")(M(sq, sq), ip(shrink(sq)), M(shrink(sq), nrhs))
            elif f == "sysv": getattr(lapack, "hesv" if tc == "z" else "sysv")(M(sq, sq), M(shrink(sq), nrhs), ip(shrink(sq)) if rnd.random() < 0.5 else None)
            elif f == "trtrs": lapack.trtrs(M(sq, sq), M(shrink(sq), nrhs))
            elif f == "gbtrf": lapack.gbtrf(M(shrink(4), sq), sq, 1, ip(shrink(sq)))
            elif f == "gbtrs": lapack.gbtrs(M(4, sq), 1, ip(shrink(sq)), M(shrink(sq), nrhs))
            elif f == "gtsv": lapack.gtsv(M(shrink(sq - 1), 1), M(shrink(sq), 1), M(shrink(sq - 1), 1), M(sq, nrhs), n=sq)
            elif f == "gttrf": lapack.gttrf(M(sq - 1, 1), M(sq, 1), M(sq - 1, 1), M(shrink(sq - 2), 1), ip(shrink(sq)), n=sq)
            elif f == "ptsv": lapack.ptsv(M(shrink(sq), 1, "d"), M(shrink(sq - 1), 1), M(sq, nrhs), n=sq)
            elif f == "pbtrs": lapack.pbtrs(M(2, sq), M(shrink(sq), nrhs))
            o["raised"] = "none"
        except Exception as e:     # noqa
            o["raised"] = type(e).__name__
        res.append(o)
    return res


def run_dense_programs(progs):
    from harness.checks import c15
    out = []
    for p in progs:
        try:
            c15.run_program(p)
            out.append({"ok": True})
        except Exception as e:   # noqa
            out.append({"ok": True, "exc": type(e).__name__})
    return out


def run_sparse_programs(progs):
    from harness.checks import c16
    out = []
    for p in progs:
        try:
            c16.run_program_stream(p, lambda ev: None)
            out.append({"ok": True})
        except Exception as e:   # noqa
            out.append({"ok": True, "exc": type(e).__name__})
    return out


def run_lapack_instances(items):
    from harness.checks import c18
    out = []
    for kind, arg, seed in items:
        if kind == "inst":
            r = c18.run_instance(arg, seed)
        else:
            r = c18.run_free(seed)
        out.append({"n": len(r)})
    return out


def run_baseprod(cases):
    from harness.checks import c17
    return [{"raised": o["raised"]} if "raised" in o else {"ccs": [nm for nm, ok in o.get("ccs", {}).items() if ok is False]} for o in c17._run_sp_calls(cases)]


def run_allocfail(cases):
    """allocation-failure enumeration: the case is repeated with the k-th allocation of the rebuilt modules failing, k = 1, 2, ... until the
    case no longer has a k-th allocation; every repetition must end in a Python exception or normally (and leave valid objects behind)"""
    import ctypes
    libc = ctypes.CDLL(None)
    libc.getenv.restype = ctypes.c_char_p
    from harness.checks import c15, c16, c17, c18
    out = []
    tok = int(os.environ.get("VERIF_TOKEN_BASE", "0"))
    prog_file = os.environ.get("VERIF_PROGRESS_FILE")
    for ci, (kind, arg, seed) in enumerate(cases):
        res = {"kmax": 0, "exc": {}, "bad": []}
        for k in range(1, (41 if kind in ("inst", "free") else 81)):
            tok += 1
            libc.unsetenv(b"VERIF_FAILED")
            if prog_file:
                with open(prog_file, "w") as fh:
                    fh.write("%d %d" % (ci, k))
            os.environ["VERIF_FAIL_AT"] = "%d:%d" % (k, tok)
            try:
                if kind == "sp":
                    r = c17._run_sp_calls([arg])
                    bad = [nm for nm, ok in r[0].get("ccs", {}).items() if ok is False]
                    if bad:
                        res["bad"].append([k, bad])
                elif kind == "inst":
                    c18.run_instance(arg, seed)
                elif kind == "free":
                    c18.run_free(seed)
                elif kind == "sprog":
                    c16.run_program_stream(arg, lambda ev: None)
                else:
                    c15.run_program(arg)
            except MemoryError:
                res["exc"]["MemoryError"] = res["exc"].get("MemoryError", 0) + 1
            except Exception as e:      # noqa
                res["exc"][type(e).__name__] = res["exc"].get(type(e).__name__, 0) + 1
            finally:
                os.environ["VERIF_FAIL_AT"] = ""
            if not libc.getenv(b"VERIF_FAILED"):
                break
            res["kmax"] = k
        out.append(res)
    return out


def allocfail_cases(rnd, n):
    from harness.checks import c15, c16, c17, c18
    fams = ["ge", "gb", "gt", "po", "pb", "pt", "sy", "he", "tr", "tb"]
    cases = []
    for i in range(n):
        r = i % 10
        if r < 5:
            cases.append(("sp", c17.gen_sp_call(rnd, c17.SP[i % len(c17.SP)]), 0))
        elif r < 7:
            cases.append(("sprog", c16.gen_program(rnd, rnd.randint(4, 10)), 0))
        elif r < 9:
            cases.append(("dprog", c15.gen_program(rnd, rnd.randint(4, 10)), 0))
        elif rnd.random() < 0.6:
            cases.append(("inst", c18.gen_instance(rnd, rnd.choice(fams)), rnd.randrange(1 << 30)))
        else:
            cases.append(("free", None, rnd.randrange(1 << 30)))
    return cases


def run_import(cases):
    from harness.checks import c20
    return [{"n": len(c20._import_cases([c]))} for c in cases]


def main():
    fam, seed, n = sys.argv[1], int(sys.argv[2]), int(sys.argv[3])
    limit()
    rnd = random.Random(seed)
    out = {"family": fam, "cases": None, "results": None}
    if fam in ("blas", "blas-large"):
        cases = blas_cases(rnd, n, fam == "blas-large")
        out["cases"] = cases
        out["results"] = isolated(run_blas, cases, 120, 50)
    elif fam == "lapack-large":
        cases = lapack_large_cases(rnd, n)
        out["cases"] = cases
        out["results"] = isolated(run_lapack_large, cases, 120, 25)
    elif fam == "base-large":
        cases = base_large_cases(rnd, n)
        out["cases"] = cases
        out["results"] = isolated(run_base_large, cases, 120, 25)
    elif fam == "index":
        cases = index_cases(rnd, n)
        out["cases"] = cases
        out["results"] = isolated(run_index, cases, 120, 100)
    elif fam == "gemvbox":
        cases = gemvbox_cases(rnd, n)
        out["cases"] = cases
        out["results"] = isolated(run_gemvbox, cases, 120, 50)
    elif fam == "lapack-shapes":
        cases = lapack_shape_cases(rnd, n)
        out["cases"] = cases
        out["results"] = isolated(run_lapack_shapes, cases, 120, 20)
    elif fam == "shapes":
        cases = shape_cases(rnd, n)
        out["cases"] = cases
        out["results"] = isolated(run_shapes, cases, 120, 25)
    elif fam == "misc":
        cases = misc_cases(rnd, n)
        out["cases"] = cases
        out["results"] = isolated(run_misc, cases, 120, 12)
    elif fam == "dense":
        from harness.checks import c15
        cases = [c15.gen_program(rnd, rnd.randint(4, 10)) for _ in range(n)]
        out["cases"] = cases
        out["results"] = isolated(run_dense_programs, cases, 120, 20)
    elif fam == "sparse":
        from harness.checks import c16
        cases = [c16.gen_program(rnd, rnd.randint(4, 10)) for _ in range(n)]
        out["cases"] = cases
        out["results"] = isolated(run_sparse_programs, cases, 120, 10)
    elif fam == "baseprod":
        from harness.checks import c17
        cases = []
        for i in range(n):
            c = c17.gen_sp_call(rnd, c17.SP[i % len(c17.SP)])
            c["explicit_ints"] = rnd.random() < 0.15
            c["explicit_flags"] = rnd.random() < 0.15
            cases.append(c)
        out["cases"] = cases
        out["results"] = isolated(run_baseprod, cases, 120, 50)
    elif fam == "allocfail":
        cases = allocfail_cases(rnd, n)
        out["cases"] = cases
        out["results"] = isolated(run_allocfail, cases, 600, 5)
    elif fam == "lapack":
        from harness.checks import c18
        fams = ["ge", "gb", "gt", "po", "pb", "pt", "sy", "he", "tr", "tb"]
        cases = [("inst", c18.gen_instance(rnd, fams[i % 10]), rnd.randrange(1 << 30)) if i % 3 else ("free", None, rnd.randrange(1 << 30)) for i in range(n)]
        out["cases"] = cases
        out["results"] = isolated(run_lapack_instances, cases, 120, 5)
    elif fam == "import":
        from harness.checks import c20
        cases = [c20.gen_import_case(rnd) for _ in range(n)]
        out["cases"] = cases
        out["results"] = isolated(run_import, cases, 120, 25)
    else:
        raise SystemExit("unknown family " + fam)
    with open(sys.argv[4], "w") as fh:
        json.dump(out, fh)


if __name__ == "__main__":
    main()
