"""Overlay build of cvxopt from /repo's current working tree.

ensure_build(guard=False) -> path to put on PYTHONPATH.
The four C modules that can be rebuilt here (base, blas, lapack,
misc_solvers) are compiled from /repo/src/C; the python sources are copied
from /repo/src/python; the optional modules (amd, cholmod, umfpack, glpk,
dsdp, gsl, fftw) are symlinked from the wheel in /venv (their sources need
headers that do not exist in this sandbox).
"""
import hashlib, os, shutil, subprocess, sys, sysconfig, glob, fcntl

REPO = os.environ.get("VERIF_REPO", "/repo")
VERIF = os.path.dirname(os.path.dirname(os.path.abspath(__file__)))
BUILD_ROOT = os.environ.get("VERIF_BUILD_ROOT", os.path.join(VERIF, ".build"))
WHEEL = "/venv/lib/python3.12/site-packages"
PY = "/venv/bin/python"
CMODS = {"base": ["base.c", "dense.c", "sparse.c"], "blas": ["blas.c"],
         "lapack": ["lapack.c"], "misc_solvers": ["misc_solvers.c"]}
OPTIONAL = ["amd", "cholmod", "umfpack", "glpk", "dsdp", "gsl", "fftw"]
SUFFIX = ".cpython-312-x86_64-linux-gnu.so"


def src_hash(guard):
    h = hashlib.sha256()
    files = sorted(glob.glob(os.path.join(REPO, "src/python/*.py")))
    for m in CMODS.values():
        files += [os.path.join(REPO, "src/C", f) for f in m]
    files += sorted(glob.glob(os.path.join(REPO, "src/C/*.h")))
    files.append(os.path.join(VERIF, "build/guard_alloc.h"))
    for f in files:
        h.update(f.encode())
        with open(f, "rb") as fh:
            h.update(fh.read())
    h.update(b"guard-g" if guard else b"plain")
    return h.hexdigest()[:16]


def ensure_build(guard=False):
    key = src_hash(guard)
    root = os.path.join(BUILD_ROOT, ("g" if guard else "p") + key)
    pkg = os.path.join(root, "pkg")
    done = os.path.join(root, "DONE")
    os.makedirs(BUILD_ROOT, exist_ok=True)
    with open(os.path.join(BUILD_ROOT, ".lock"), "w") as lk:
        fcntl.flock(lk, fcntl.LOCK_EX)
        if os.path.exists(done):
            return pkg
        # prune old builds (keep disk small)
        # (only builds that nothing can still be using: a check that started before the sources changed keeps importing from its own build)
        import time
        for d in os.listdir(BUILD_ROOT):
            p = os.path.join(BUILD_ROOT, d)
            if os.path.isdir(p) and d[0] == ("g" if guard else "p") and p != root and time.time() - os.path.getmtime(p) > 4 * 3600:
                shutil.rmtree(p, ignore_errors=True)
        shutil.rmtree(root, ignore_errors=True)
        cv = os.path.join(pkg, "cvxopt")
        os.makedirs(cv)
        for f in glob.glob(os.path.join(REPO, "src/python/*.py")):
            shutil.copy(f, cv)
        if not os.path.exists(os.path.join(cv, "_version.py")):
            with open(os.path.join(cv, "_version.py"), "w") as fh:
                fh.write("__version__ = version = '0+verif'\n")
        inc = sysconfig.get_paths()["include"] if sys.executable.startswith("/venv") else \
            subprocess.check_output([PY, "-c", "import sysconfig;print(sysconfig.get_paths()['include'])"], text=True).strip()
        procs = []
        for m, srcs in CMODS.items():
            cmd = ["gcc", "-O2", "-fPIC", "-shared", "-w", "-I" + inc, "-I" + os.path.join(REPO, "src/C")]
            if guard:
                cmd += ["-g", "-include", os.path.join(VERIF, "build/guard_alloc.h")]      # -g: a crash site can be named (gdb)
            cmd += [os.path.join(REPO, "src/C", s) for s in srcs]
            cmd += ["-o", os.path.join(cv, m + SUFFIX), "-llapack", "-lblas", "-lm"]
            procs.append((m, subprocess.Popen(cmd, stdout=subprocess.PIPE, stderr=subprocess.STDOUT, text=True)))
        for m, p in procs:
            out, _ = p.communicate()
            if p.returncode != 0:
                sys.stderr.write("BUILD FAILED for %s:\n%s\n" % (m, out))
                raise SystemExit(2)
        for m in OPTIONAL:
            os.symlink(os.path.join(WHEEL, "cvxopt", m + SUFFIX), os.path.join(cv, m + SUFFIX))
        os.symlink(os.path.join(WHEEL, "cvxopt.libs"), os.path.join(pkg, "cvxopt.libs"))
        open(done, "w").write(key)
    return pkg


def impl_env(pkg, hooks=True, extra=None):
    env = dict(os.environ)
    env["PYTHONPATH"] = pkg + os.pathsep + VERIF
    env["OPENBLAS_NUM_THREADS"] = "1"
    env["OMP_NUM_THREADS"] = "1"
    env["PYTHONHASHSEED"] = "0"
    if hooks:
        env["CVXOPT_VERIF"] = "1"
    else:
        env.pop("CVXOPT_VERIF", None)
    if extra:
        env.update(extra)
    return env


if __name__ == "__main__":
    g = "--guard" in sys.argv
    print(ensure_build(guard=g))
