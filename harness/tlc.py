"""Thin runner around TLC 1.8 (tla2tools.jar) and a parser for the TLA+
values TLC prints / dumps."""
import os, re, shutil, subprocess, tempfile, time, json

VERIF = os.path.dirname(os.path.dirname(os.path.abspath(__file__)))
SPECS = os.path.join(VERIF, "specs")
WORK = os.path.join(VERIF, ".work")
JAR = "/opt/veriftools/tla/tla2tools.jar:/opt/veriftools/tla/CommunityModules-deps.jar"


class TLCResult(object):
    def __init__(self):
        self.rc = None; self.out = ""; self.generated = 0; self.distinct = 0
        self.violated = None      # name of violated invariant/property
        self.error = None
        self.prints = []          # parsed values printed by PrintT
        self.coverage = {}
        self.wall = 0.0
        self.ok = False
        self.diameter = 0

    def __repr__(self):
        return "<TLC rc=%s gen=%d distinct=%d violated=%s err=%s>" % (
            self.rc, self.generated, self.distinct, self.violated, self.error)


def workdir(name):
    d = os.path.join(WORK, name)
    os.makedirs(d, exist_ok=True)
    return d


def run_tlc(*args, **kw):
    """run_tlc_once; a run that ends in an exception of the JVM / of TLC itself (out of memory on a loaded machine, ...) is repeated once:
    TLC is deterministic here, so a genuine error of a specification or of a trace simply shows up again."""
    r = run_tlc_once(*args, **kw)
    if r.error and r.error != "timeout" and re.search(r"unexpected exception|OutOfMemory|insufficient memory|Cannot allocate memory|StackOverflow", r.out or ""):
        import time
        time.sleep(15)
        r = run_tlc_once(*args, **kw)
    return r


def run_tlc_once(module, cfg_text, wd, workers=16, extra_modules=(), env=None, simulate=None,
                 depth=None, dump=None, coverage=False, timeout=900, seed=None, deadlock=False,
                 javaopts=None, gen_files=None, heap="4g"):
    """Run TLC on specs/<module>.tla with the given cfg text inside work dir wd.
    The spec files are copied (all of specs/*.tla) so generated modules can sit beside them."""
    os.makedirs(wd, exist_ok=True)
    for f in os.listdir(SPECS):
        if f.endswith(".tla"):
            shutil.copy(os.path.join(SPECS, f), wd)
    for name, text in (gen_files or {}).items():
        with open(os.path.join(wd, name), "w") as fh:
            fh.write(text)
    cfgname = module + ".cfg"
    with open(os.path.join(wd, cfgname), "w") as fh:
        fh.write(cfg_text)
    meta = os.path.join(wd, "meta")
    shutil.rmtree(meta, ignore_errors=True)
    jtmp = os.path.join(wd, "jtmp")          # TLC leaves an empty tlc-* directory per run in java.io.tmpdir: keep them out of /tmp
    os.makedirs(jtmp, exist_ok=True)
    cmd = ["java", "-Xss256m", "-XX:+UseParallelGC", "-Xmx" + heap, "-Djava.io.tmpdir=" + jtmp]      # deep TLA+ recursion (folds over files) needs stack; -Xss must be on the command line
    for o in (javaopts or []):
        cmd.append(o)
    cmd += ["-cp", JAR, "tlc2.TLC", "-workers", str(workers), "-metadir", meta,
            "-noGenerateSpecTE", "-config", cfgname]
    if not deadlock:
        cmd += ["-deadlock"]
    if coverage:
        cmd += ["-coverage", "1"]
    if simulate:
        cmd += ["-simulate", simulate]
    if depth:
        cmd += ["-depth", str(depth)]
    if seed is not None:
        cmd += ["-seed", str(seed)]
    if dump:
        cmd += ["-dump", "dot,actionlabels", dump]
    cmd.append(module)
    e = dict(os.environ)
    if env:
        e.update(env)
    t0 = time.time()
    r = TLCResult()
    try:
        p = subprocess.run(cmd, cwd=wd, env=e, stdout=subprocess.PIPE, stderr=subprocess.STDOUT,
                           text=True, timeout=timeout)
        r.rc = p.returncode; r.out = p.stdout
    except subprocess.TimeoutExpired as ex:
        r.rc = -9; r.out = (ex.stdout or b"").decode() if isinstance(ex.stdout, bytes) else (ex.stdout or "")
        r.error = "timeout"
    r.wall = time.time() - t0
    shutil.rmtree(meta, ignore_errors=True)
    m = None
    for m in re.finditer(r"(\d+) states generated, (\d+) distinct states found", r.out):
        pass
    if m:
        r.generated = int(m.group(1)); r.distinct = int(m.group(2))
    m = re.search(r"The depth of the complete state graph search is (\d+)", r.out)
    if m:
        r.diameter = int(m.group(1))
    m = re.search(r"Invariant (\S+) is violated", r.out)
    if m:
        r.violated = m.group(1)
    m2 = re.search(r"Action property (\S+) is violated|Temporal properties were violated|property (\S+) is violated", r.out)
    if m2 and not r.violated:
        r.violated = m2.group(1) or m2.group(2) or "temporal"
    if "Error:" in r.out and r.error is None and not r.violated:
        mm = re.search(r"Error: (.*)", r.out)
        r.error = mm.group(1) if mm else "error"
    if "Deadlock reached" in r.out:
        r.violated = r.violated or "Deadlock"
    r.ok = (r.rc == 0 and r.violated is None and r.error is None)
    if coverage:
        for mm in re.finditer(r"<(\w+) line \d+, col \d+ to line \d+, col \d+ of module (\w+)>: (\d+):(\d+)", r.out):
            r.coverage[mm.group(1)] = r.coverage.get(mm.group(1), 0) + int(mm.group(4))
    return r


# ---------------------------------------------------------------------------
# TLA+ value parser (records, sequences/tuples, sets, functions (a :> b @@ ..),
# strings, ints, booleans, model values)
# ---------------------------------------------------------------------------
class _P(object):
    def __init__(self, s):
        self.s = s; self.i = 0

    def ws(self):
        s = self.s
        while self.i < len(s) and s[self.i] in " \t\r\n":
            self.i += 1

    def peek(self, k=1):
        return self.s[self.i:self.i + k]

    def expect(self, t):
        self.ws()
        if self.s[self.i:self.i + len(t)] != t:
            raise ValueError("expected %r at %d: %r" % (t, self.i, self.s[self.i:self.i + 40]))
        self.i += len(t)

    def value(self):
        self.ws()
        v = self.atom()
        # function constructors  a :> b @@ c :> d
        self.ws()
        if self.peek(2) == ":>":
            d = {}
            k = v
            while True:
                self.expect(":>")
                val = self.atom()
                d[_key(k)] = val
                self.ws()
                if self.peek(2) == "@@":
                    self.i += 2
                    k = self.atom()
                    self.ws()
                else:
                    break
            return d
        return v

    def atom(self):
        self.ws()
        s = self.s
        c = s[self.i]
        if c == '"':
            j = self.i + 1
            out = []
            while s[j] != '"':
                if s[j] == "\\":
                    j += 1
                out.append(s[j]); j += 1
            self.i = j + 1
            return "".join(out)
        if s.startswith("<<", self.i):
            self.i += 2
            out = []
            self.ws()
            if s.startswith(">>", self.i):
                self.i += 2
                return out
            while True:
                out.append(self.value())
                self.ws()
                if s.startswith(">>", self.i):
                    self.i += 2
                    return out
                self.expect(",")
        if c == "{":
            self.i += 1
            out = []
            self.ws()
            if s[self.i] == "}":
                self.i += 1
                return TSet(out)
            while True:
                out.append(self.value())
                self.ws()
                if s[self.i] == "}":
                    self.i += 1
                    return TSet(out)
                self.expect(",")
        if c == "[":
            self.i += 1
            d = {}
            self.ws()
            if s[self.i] == "]":
                self.i += 1
                return d
            while True:
                self.ws()
                m = re.compile(r"[A-Za-z_][A-Za-z0-9_]*").match(s, self.i)
                k = m.group(0); self.i = m.end()
                self.expect("|->")
                d[k] = self.value()
                self.ws()
                if s[self.i] == "]":
                    self.i += 1
                    return d
                self.expect(",")
        if c == "(":
            self.i += 1
            v = self.value()
            self.expect(")")
            return v
        m = re.compile(r"-?\d+").match(s, self.i)
        if m:
            self.i = m.end()
            return int(m.group(0))
        m = re.compile(r"[A-Za-z_][A-Za-z0-9_]*").match(s, self.i)
        if m:
            self.i = m.end()
            w = m.group(0)
            if w == "TRUE":
                return True
            if w == "FALSE":
                return False
            return MV(w)
        raise ValueError("cannot parse at %d: %r" % (self.i, s[self.i:self.i + 40]))


class TSet(list):
    """a TLA+ set (kept as a list in printed order)"""
    pass


class MV(str):
    """a model value / identifier"""
    pass


def _key(k):
    if isinstance(k, list):
        return tuple(_key(x) for x in k)
    return k


def parse_value(s):
    p = _P(s)
    v = p.value()
    p.ws()
    if p.i != len(s):
        raise ValueError("trailing text: %r" % s[p.i:p.i + 40])
    return v


def parse_state(text):
    """parse '/\\ a = v\\n/\\ b = w' into a dict"""
    st = {}
    parts = re.split(r"(?:^|\n)\s*/\\ ", "\n" + text.strip())
    for part in parts:
        part = part.strip()
        if not part:
            continue
        m = re.match(r"([A-Za-z_][A-Za-z0-9_]*)\s*=\s*(.*)\Z", part, re.S)
        st[m.group(1)] = parse_value(m.group(2).strip())
    return st


def parse_dot(path):
    """parse TLC's -dump dot,actionlabels output.
    returns (nodes: id -> state dict, edges: list of (src, dst, label), initial ids)"""
    nodes, edges, init = {}, [], []
    node_re = re.compile(r'^(-?\d+) \[label="((?:[^"\\]|\\.)*)"(,style = filled)?')
    edge_re = re.compile(r'^(-?\d+) -> (-?\d+) \[label="((?:[^"\\]|\\.)*)",')
    with open(path) as fh:
        for line in fh:
            line = line.rstrip("\n")
            m = edge_re.match(line)
            if m:
                edges.append((m.group(1), m.group(2), m.group(3).replace('\\"', '"')))
                continue
            m = node_re.match(line)
            if m:
                txt = m.group(2).replace("\\n", "\n").replace('\\"', '"').replace("\\\\", "\\")
                nodes[m.group(1)] = parse_state(txt)
                if m.group(3):
                    init.append(m.group(1))
    return nodes, edges, init


def printed_values(out, tag=None):
    """extract PrintT outputs (TLA+ values, possibly multi-line, 16 workers interleave lines but
    each PrintT value is on its own line when short)."""
    vals = []
    for line in out.splitlines():
        line = line.strip()
        if line.startswith("<<") and line.endswith(">>"):
            try:
                v = parse_value(line)
            except Exception:
                continue
            if tag is None or (v and v[0] == tag):
                vals.append(v)
    return vals
