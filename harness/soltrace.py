"""Batch validation of solver traces against specs/SolverTrace.tla."""
import json, os
from harness import tlc


def validate(ck, traces, name, chunk=4000):
    """returns dict: trace index (0-based) -> {"accepted": bool, "done": bool, "violated": [prop names], "failed": [(l, clause)]}"""
    out = {}
    for c0 in range(0, len(traces), chunk):
        part = traces[c0:c0 + chunk]
        wd = tlc.workdir(name + "/b%d" % (c0 // chunk))
        tf = os.path.join(wd, "traces.json")
        with open(tf, "w") as fh:
            json.dump(part, fh)
        r = tlc.run_tlc("SolverTrace", "SPECIFICATION TSpec\n", wd, workers=1, env={"TRACE_FILE": tf}, timeout=3000)
        if not ck.require_tlc_ok("SolverTrace:%s:%d" % (name, c0 // chunk), r):
            return None
        res = {i: {"accepted": False, "done": False, "violated": [], "failed": []} for i in range(len(part))}
        for v in tlc.printed_values(r.out):
            if not v:
                continue
            if v[0] == "ACCEPT":
                res[v[1] - 1]["accepted"] = True
                res[v[1] - 1]["done"] = bool(v[2])
            elif v[0] == "VIOLATED":
                res[v[1] - 1]["violated"].append(str(v[2]))
            elif v[0] == "FAILED":
                res[v[1] - 1]["failed"].append((v[2], str(v[3])))
        for i, x in res.items():
            out[c0 + i] = x
    return out


def fault_class(trace):
    """(phase, kind, position among the KKT calls since the last iteration top) of the first failing Kkt event"""
    saw, k, pos = False, 0, 0
    for e in trace:
        if e["ev"] == "Iter":
            saw, k, pos = True, e["k"], 0
        elif e["ev"] == "Kkt":
            if not e["ok"]:
                ph = "startup" if not saw else ("iter0" if k == 0 else "later")
                return (ph, e["kind"], pos)
            pos += 1
    return None
