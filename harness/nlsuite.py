"""Cases for the nonlinear solvers (cpl, cp, gp): families x linear parts x configurations."""
import random
from fractions import Fraction as Fr
PMAP_TIMEOUT = int(__import__('os').environ.get('VERIF_PMAP_TIMEOUT', '300'))
from harness import nlfam


def make_cases(inst, rnd, per_inst=1, families=("quadcp", "quadcpl", "acent", "gp")):
    """inst: planted solvable LP instances (used for the linear cone part and the strictly feasible point)"""
    cases = []
    for I in inst:
        n = I["n"]
        for _ in range(per_inst):
            fam_name = rnd.choice(families)
            if fam_name == "quadcp":
                fam = nlfam.gen_quad(rnd, n, rnd.randint(0, 2), I["x0"])
                cases.append({"family": "quadcp", "entry": "cp", "fam": fam, "lin": I, "id": I["id"]})
            elif fam_name == "quadcpl":
                fam = nlfam.gen_quad(rnd, n, rnd.randint(1, 2), I["x0"])
                cvec = [rnd.randint(-3, 3) for _ in range(n)]
                lin = I
                if rnd.random() < 0.35:
                    # large data whose contributions to the documented dual normaliser c + Df(x0)'1 + G'e nearly cancel
                    from harness import alpha as _al
                    sc = rnd.choice([20, 50])
                    lin = dict(I)
                    lin["G"] = [[sc * v for v in col] for col in I["G"]]
                    lin["h"] = [sc * v for v in I["h"]]
                    lin["s0"] = [sc * v for v in I["s0"]]
                    w = _al.wt(I["dims"])
                    e = [int(v) for v in _al.identity(I["dims"])]
                    x0f = [Fr(v) for v in I["x0"]]
                    g = [sum(fam.grad_exact(k, x0f)[j] for k in range(1, len(fam.fs))) for j in range(n)]
                    Ge = [sum(w[r] * lin["G"][j][r] * e[r] for r in range(len(w))) for j in range(n)]
                    cvec = [int(-(g[j] + Ge[j])) + rnd.randint(-1, 1) for j in range(n)]
                cases.append({"family": "quadcpl", "entry": "cpl", "fam": fam, "lin": lin, "id": I["id"], "first": 1, "c": cvec})
            elif fam_name == "acent":
                # minimize -sum w_i log x_i  s.t.  a'x = b (a > 0: bounded), x > 0; start strictly inside
                nn = rnd.randint(2, 4)
                xf = [rnd.choice([1, 1, 2, 50, 400]) for _ in range(nn)]
                a = [rnd.randint(1, 3) for _ in range(nn)]
                w = [rnd.choice([1, 2, 5, 20]) for _ in range(nn)]
                J = {"n": nn, "p": 1, "dims": {"l": 0, "q": [], "s": []}, "c": [0] * nn, "G": [[] for _ in range(nn)], "h": [],
                     "A": [[ai] for ai in a], "b": [sum(ai * xi for ai, xi in zip(a, xf))], "kind": "solvable", "id": I["id"],
                     "x0": xf, "s0": [], "y0": [0], "z0": []}
                # a start point far from the centre (close to the boundary) so that the line search meets the domain boundary
                fam = nlfam.LogBarrier(nn, w, xf, refuse_form=rnd.choice(["none", "tuple"]))
                cases.append({"family": "acent", "entry": "cp", "fam": fam, "lin": J, "id": I["id"]})
            else:
                nn = rnd.randint(1, 3)
                rows, g, K = [], [], []
                # objective: coercive sum of exponentials  (rows +-e_i) plus a random monomial
                r0 = []
                for i in range(nn):
                    r0.append([1 if j == i else 0 for j in range(nn)])
                    r0.append([-1 if j == i else 0 for j in range(nn)])
                r0.append([rnd.randint(-2, 2) for _ in range(nn)])
                rows += r0; g += [rnd.randint(-1, 1) for _ in r0]; K.append(len(r0))
                for k in range(rnd.randint(0, 2)):
                    kk = rnd.randint(1, 3)
                    rows += [[rnd.randint(-2, 2) for _ in range(nn)] for _ in range(kk)]
                    g += [-2] * kk          # at x = 0: log(kk * e^-2) < 0  -> strictly feasible
                    K.append(kk)
                fam = nlfam.LSE(nn, K, rows, g)
                cases.append({"family": "gp", "entry": "gp", "fam": fam, "lin": None, "id": I["id"]})
    return cases


def hard_acent_cases(rnd, k):
    """weighted analytic centering started close to the boundary of the domain x > 0: the Newton steps leave the domain and
    F refuses trial points (as None or as (None, None), both documented)"""
    out = []
    for t in range(k):
        nn = rnd.randint(2, 4)
        xf = [rnd.choice([1, 1, 2, 50, 400]) for _ in range(nn)]
        xf[rnd.randrange(nn)] = 400
        a = [rnd.randint(1, 3) for _ in range(nn)]
        w = [rnd.choice([1, 2, 5, 20]) for _ in range(nn)]
        w[rnd.randrange(nn)] = 20
        J = {"n": nn, "p": 1, "dims": {"l": 0, "q": [], "s": []}, "c": [0] * nn, "G": [[] for _ in range(nn)], "h": [],
             "A": [[ai] for ai in a], "b": [sum(ai * xi for ai, xi in zip(a, xf))], "kind": "solvable", "id": 100000 + t,
             "x0": xf, "s0": [], "y0": [0], "z0": []}
        fam = nlfam.LogBarrier(nn, w, xf, refuse_form=("none" if t % 2 == 0 else "tuple"))
        out.append({"family": "acent", "entry": "cp", "fam": fam, "lin": J, "id": 100000 + t})
    return out


def configs(case, rnd, k, default_only=False):
    out = [dict()]
    if default_only:
        return out
    lin = case.get("lin")
    lonly = lin is None or (not lin["dims"]["q"] and not lin["dims"]["s"])
    kkts = [None, "ldl", "chol"] + (["chol2"] if lonly else [])
    opts = [None, {"refinement": 0}, {"refinement": 1}, {"refinement": 2}, {"maxiters": 2}, {"maxiters": 5},
            {"abstol": 1e-9, "reltol": 1e-9, "feastol": 1e-9}, {"abstol": 1e-4, "reltol": 1e-4, "feastol": 1e-4}]
    for _ in range(k):
        c = dict(kktsolver=rnd.choice(kkts), storage=rnd.choice(["dense", "sparse"]), options=rnd.choice(opts),
                 sparse_F=rnd.random() < 0.4)
        if case["entry"] == "gp":
            c.pop("sparse_F")
        out.append(c)
    return out


def _run(args):
    from harness import solvedrv
    case, cfgs, faults = args
    out = []
    for cfg in cfgs:
        try:
            tr, info = solvedrv.run_nl(case, entry=case["entry"], truth=not faults, **cfg)
        except Exception as e:
            out.append({"solver": "cpl", "id": case["id"], "kind": "solvable", "cfg": dict(cfg, entry=case["entry"], family=case["family"]),
                        "harness_error": repr(e)})
            continue
        base = {"solver": "cpl", "id": case["id"], "kind": "solvable", "dims": (case.get("lin") or {}).get("dims"),
                "cfg": dict(cfg, entry=case["entry"], family=case["family"])}
        out.append(dict(base, trace=tr, exc=info["exc"], status=info["status"], det=info["det"], pobj=info["det"].get("pobj"),
                        refused=info["refused"], fault=None))
        if faults:
            for kind, n in (("factor", info["nf"]), ("solve", info["ns"])):
                for idx in range(n):
                    tr2, info2 = solvedrv.run_nl(case, entry=case["entry"], truth=False, fault=(kind, idx), **cfg)
                    out.append(dict(base, trace=tr2, exc=info2["exc"], status=info2["status"], det=info2["det"], fault=[kind, idx]))
    return out


def run_cases(ck, jobs, name):
    import multiprocessing as mp
    from harness import soltrace
    from harness.core import pmap
    results = pmap(ck, _run, jobs, "nlsuite", timeout=PMAP_TIMEOUT, chunksize=1)
    if results is None:
        ck.finish()
    runs = [r for rs in results for r in rs]
    for r in runs:
        if "harness_error" in r:
            ck.machinery_errors.append("driver failed: %r" % r)
    runs = [r for r in runs if "trace" in r]
    verdict = soltrace.validate(ck, [r["trace"] for r in runs], name)
    return runs, verdict
