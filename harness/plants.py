"""Candidate generator for planted cone programs (integer data + witnesses).
The candidates are only *proposals*: specs/Planted.tla decides with TLC, in
exact integer arithmetic, which of them really have the claimed truth."""
import json, os, random
from harness import tlc

DIMS_POOL = [
    {'l': 2, 'q': [], 's': []}, {'l': 3, 'q': [], 's': []}, {'l': 1, 'q': [], 's': []},
    {'l': 1, 'q': [2], 's': []}, {'l': 0, 'q': [3], 's': []}, {'l': 2, 'q': [1], 's': []},
    {'l': 1, 'q': [2, 2], 's': []}, {'l': 0, 'q': [2], 's': [2]}, {'l': 1, 'q': [], 's': [2]},
    {'l': 0, 'q': [], 's': [2]}, {'l': 1, 'q': [], 's': [1]}, {'l': 2, 'q': [], 's': [0, 2]},
    {'l': 1, 'q': [3], 's': [2, 1]}, {'l': 0, 'q': [], 's': [3]}, {'l': 2, 'q': [1, 2], 's': [1]},
    {'l': 1, 'q': [], 's': [0]}, {'l': 3, 'q': [2], 's': [2]},
    {'l': 0, 'q': [], 's': [3, 2]}, {'l': 1, 'q': [], 's': [2, 3]}, {'l': 0, 'q': [2], 's': [3, 1]},
    {'l': 1, 'q': [], 's': [2, 2]}, {'l': 0, 'q': [], 's': [2, 1]}, {'l': 0, 'q': [], 's': [1, 2]}, {'l': 1, 'q': [], 's': [2, 1, 2]},
]
JUNK = 7   # value planted in unreferenced (strictly upper) cells of 's' blocks


def cdim(d):
    return d['l'] + sum(d['q']) + sum(m * m for m in d['s'])


def wt(d):
    w = [1] * (d['l'] + sum(d['q']))
    for m in d['s']:
        for j in range(m):
            for i in range(m):
                w.append(1 if i == j else (2 if i > j else 0))
    return w


def interior(rnd, d, big=False):
    """an integer vector in the interior of the cone, symmetric storage in 's' blocks"""
    v = [rnd.randint(1, 3) for _ in range(d['l'])]
    for m in d['q']:
        tail = [rnd.randint(-2, 2) for _ in range(m - 1)]
        n2 = sum(t * t for t in tail)
        a = 1
        while a * a <= n2:
            a += 1
        v += [a + rnd.randint(0, 1)] + tail
    for m in d['s']:
        L = [[(rnd.randint(-1, 1) if i > j else (1 if i == j else 0)) for j in range(m)] for i in range(m)]
        S = [[sum(L[i][k] * L[j][k] for k in range(m)) + (1 if i == j else 0) for j in range(m)] for i in range(m)]
        for j in range(m):
            for i in range(m):
                v.append(S[i][j])
    return v


def sym_random(rnd, d, lo=-3, hi=3, junk=False):
    """a random integer cone-layout vector whose 's' blocks are symmetric (or carry junk above the diagonal)"""
    v = [rnd.randint(lo, hi) for _ in range(d['l'] + sum(d['q']))]
    for m in d['s']:
        M = [[0] * m for _ in range(m)]
        for j in range(m):
            for i in range(j, m):
                M[i][j] = rnd.randint(lo, hi)
                M[j][i] = M[i][j]
        for j in range(m):
            for i in range(m):
                v.append(JUNK if (junk and i < j) else M[i][j])
    return v


def sdot(x, y, w):
    return sum(a * b * c for a, b, c in zip(x, y, w))


def gen_candidate(rnd, kind, qp=False, junk=False, dims=None):
    d = dims or rnd.choice(DIMS_POOL)
    K = cdim(d)
    w = wt(d)
    n = rnd.randint(1, 3)
    p = rnd.randint(0, min(n - 1, 2)) if rnd.random() < 0.6 else 0
    thin = False
    if qp and kind == 'solvable' and rnd.random() < 0.15:
        # "thin" QPs: [P; G] is rank deficient and only the equality constraints complete the rank
        # (the first factorisation of kkt_chol2 is singular and takes its fallback path)
        d = {'l': 1, 'q': [], 's': []}
        K = 1
        w = wt(d)
        n = 3
        thin = True
        p = 2 if rnd.random() < 0.5 else 1
    G = [sym_random(rnd, d, junk=junk) for _ in range(n)]           # columns
    A = [[rnd.randint(-2, 2) for _ in range(p)] for _ in range(n)]
    I = {'n': n, 'p': p, 'dims': d, 'kind': kind, 'junk': junk}
    x0 = [rnd.randint(-2, 2) for _ in range(n)]
    if kind == 'dinf':
        # ray xr = e_1 : first column of G is minus an interior point, first column of A is zero
        t = interior(rnd, d)
        G[0] = [-a for a in t]
        if junk:
            k = d['l'] + sum(d['q'])
            for m in d['s']:
                for j in range(m):
                    for i in range(m):
                        if i < j:
                            G[0][k + j * m + i] = JUNK
                k += m * m
        A[0] = [0] * p
        I['xr'] = [1] + [0] * (n - 1)
    s0 = interior(rnd, d)
    Gx = [sum(G[j][r] * x0[j] for j in range(n)) for r in range(K)]
    h = [Gx[r] + s0[r] if w[r] > 0 else (JUNK if junk else Gx[r] + s0[r]) for r in range(K)]
    b = [sum(A[j][r] * x0[j] for j in range(n)) for r in range(p)]
    z0 = interior(rnd, d)
    y0 = [rnd.randint(-2, 2) for _ in range(p)]
    if kind == 'pinf':
        if d['l'] < 1:
            return None
        # make G'z0 + A'y0 = 0 by adjusting row 0 (an 'l' row, z0[0] := 1) of G; then h'z0 + b'y0 = -1 via h[0]
        z0[0] = 1
        for j in range(n):
            rest = sum(w[r] * G[j][r] * z0[r] for r in range(1, K)) + sum(A[j][r] * y0[r] for r in range(p))
            G[j][0] = -rest
        h = sym_random(rnd, d, junk=junk)
        b = [rnd.randint(-2, 2) for _ in range(p)]
        rest = sum(w[r] * h[r] * z0[r] for r in range(1, K)) + sum(b[r] * y0[r] for r in range(p))
        h[0] = -rest - 1
        # dual strictly feasible: c := -G'z1 - A'y1 for a second interior point
        z1 = interior(rnd, d)
        y1 = [rnd.randint(-2, 2) for _ in range(p)]
        c = [-(sdot(G[j], z1, w) + sum(A[j][r] * y1[r] for r in range(p))) for j in range(n)]
        I.update(z1=z1, y1=y1)
    elif kind == 'dinf':
        c = [rnd.randint(-3, 3) for _ in range(n)]
        c[0] = -1 - abs(c[0]) if False else -1
    else:
        c = [-(sdot(G[j], z0, w) + sum(A[j][r] * y0[r] for r in range(p))) for j in range(n)]
    if qp:
        k = rnd.randint(0, n)
        if thin:
            k = rnd.randint(0, 1)
        R = [[rnd.randint(-2, 2) for _ in range(k)] for _ in range(n)]      # columns of R (k x n)
        Rx = [sum(R[j][r] * x0[j] for j in range(n)) for r in range(k)]
        Px = [sum(R[j][r] * Rx[r] for r in range(k)) for j in range(n)]
        c = [c[j] - Px[j] for j in range(n)]       # q := -P x0 - G'z0 - A'y0
        I['R'] = R
    I.update(c=c, G=G, h=h, A=A, b=b, x0=x0, s0=s0, y0=y0, z0=z0)
    return I


def rank_exact(rows, n):
    """rank of a list of integer row vectors (exact, Fractions)"""
    from fractions import Fraction as Fr
    M = [[Fr(v) for v in r] for r in rows]
    rk = 0
    for col in range(n):
        piv = None
        for i in range(rk, len(M)):
            if M[i][col] != 0:
                piv = i
                break
        if piv is None:
            continue
        M[rk], M[piv] = M[piv], M[rk]
        for i in range(len(M)):
            if i != rk and M[i][col] != 0:
                f = M[i][col] / M[rk][col]
                M[i] = [a - f * b for a, b in zip(M[i], M[rk])]
        rk += 1
    return rk


def thin_PG(I):
    """True iff rank([P; G]) < n, i.e. H + G'W^-2 G is exactly singular for every scaling (only A completes the rank)"""
    n = I['n']
    w = wt(I['dims'])
    rows = [[I['G'][j][r] for j in range(n)] for r in range(cdim(I['dims'])) if w[r] > 0]
    if 'R' in I and n:
        k = len(I['R'][0])
        rows += [[I['R'][j][r] for j in range(n)] for r in range(k)]
    return rank_exact(rows, n) < n


def thin_PG_A(I):
    """True iff rank([P; G; A]) < n"""
    n = I['n']
    w = wt(I['dims'])
    rows = [[I['G'][j][r] for j in range(n)] for r in range(cdim(I['dims'])) if w[r] > 0]
    rows += [[I['A'][j][r] for j in range(n)] for r in range(I['p'])]
    if 'R' in I and n:
        k = len(I['R'][0])
        rows += [[I['R'][j][r] for j in range(n)] for r in range(k)]
    return rank_exact(rows, n) < n


def gen_candidates(seed, counts, qp=False):
    """counts: dict kind -> number"""
    rnd = random.Random(seed)
    nocone = {'l': 0, 'q': [], 's': []}
    out = []
    for kind, n in counts.items():
        k = 0
        tries = 0
        while k < n and tries < 50 * n + 100:
            tries += 1
            junk = rnd.random() < 0.3
            I = gen_candidate(rnd, kind, qp=qp, junk=junk, dims=(nocone if qp and rnd.random() < 0.15 else None))
            if I is None:
                continue
            out.append(I)
            k += 1
    for i, I in enumerate(out):
        I['id'] = i + 1
        I['thinPG'] = thin_PG(I)
    return out


def tlc_accept(cands, name, ck=None):
    """run specs/Planted.tla on the candidates; returns the list of accepted instances"""
    wd = tlc.workdir(name)
    cf = os.path.join(wd, "cands.json")
    of = os.path.join(wd, "accepted.json")
    with open(cf, "w") as fh:
        json.dump(cands, fh)
    if os.path.exists(of):
        os.remove(of)
    r = tlc.run_tlc("Planted", "SPECIFICATION Spec\n", wd, workers=1, env={"CAND_FILE": cf, "OUT_FILE": of}, timeout=1800)
    if ck is not None:
        ok = ck.require_tlc_ok("Planted: exact verification of %d candidates" % len(cands), r)
        if not ok:
            return []
    elif not r.ok:
        raise RuntimeError(r.out[-3000:])
    with open(of) as fh:
        acc = set(json.load(fh)["accepted"])
    return [I for I in cands if I['id'] in acc]
