"""Shared suite for the solver properties C01-C03, C05: configuration product,
parallel execution under the recorder, TLC validation of the traces."""
import random, multiprocessing as mp
PMAP_TIMEOUT = int(__import__('os').environ.get('VERIF_PMAP_TIMEOUT', '300'))
from harness import soltrace

TIGHT = {"abstol": 1e-9, "reltol": 1e-9, "feastol": 1e-9}
LOOSE = {"abstol": 1e-4, "reltol": 1e-4, "feastol": 1e-4}


def conelp_configs(I, rnd, k, default_only=False):
    """k random valid configurations for instance I (plus the default one)"""
    d = I["dims"]
    entries = ["conelp"]
    if not d["q"] and not d["s"]:
        entries.append("lp")
    if not d["s"]:
        entries.append("socp")
    if not d["q"]:
        entries.append("sdp")
    kkts = [None, "ldl", "ldl2", "qr", "chol", "callable"] + (["chol2"] if not d["q"] and not d["s"] else [])
    starts = ["none"]
    if I["kind"] == "solvable":
        starts += ["primal", "dual", "both"]
    elif I["kind"] == "dinf":
        starts += ["primal"]
    opts = [None, TIGHT, LOOSE, {"refinement": 0}, {"refinement": 1}, {"refinement": 2}, {"maxiters": 1}, {"maxiters": 2},
            {"maxiters": 3}, {"maxiters": 100}, {"abstol": 1e-2}, {"feastol": 1e-5}, {"reltol": 1e-3, "abstol": 1e-3},
            {"abstol": 1e-2, "reltol": 1e-2, "feastol": 1e-9}]
    out = [dict(entry="conelp")]
    if default_only:
        for e in entries[1:]:
            out.append(dict(entry=e))
        return out
    for _ in range(k):
        e = rnd.choice(entries)
        c = dict(entry=e, kktsolver=rnd.choice(kkts), storage=rnd.choice(["dense", "sparse"]), starts=rnd.choice(starts),
                 options=rnd.choice(opts))
        if c["kktsolver"] == "callable" and e not in ("conelp", "lp"):
            c["kktsolver"] = None
        r = rnd.random()
        if e == "lp" and r < 0.25:
            c = dict(entry="lp", solver="glpk", storage=c["storage"])
        elif e == "sdp" and I["p"] == 0 and r < 0.25 and I["dims"]["s"] and all(m > 0 for m in I["dims"]["s"]):
            c = dict(entry="sdp", solver="dsdp", storage=c["storage"])
        out.append(c)
    return out


def coneqp_configs(I, rnd, k, default_only=False):
    d = I["dims"]
    entries = ["coneqp"] + (["qp"] if not d["q"] and not d["s"] else [])
    kkts = [None, "ldl", "ldl2", "chol"] + (["chol2"] if not d["q"] and not d["s"] else [])
    opts = [None, TIGHT, LOOSE, {"refinement": 0}, {"refinement": 1}, {"refinement": 2}, {"maxiters": 1}, {"maxiters": 2}, {"maxiters": 100},
            {"abstol": 1e-2}, {"feastol": 1e-5}, {"reltol": 1e-3, "abstol": 1e-3}, {"abstol": 1e-2, "reltol": 1e-2, "feastol": 1e-9}]
    subsets = [None, ["x"], ["s"], ["z"], ["x", "s"], ["y", "z"], ["s", "z"], ["x", "s", "y", "z"], ["x", "y"], ["x", "s", "z"]]
    out = [dict(entry="coneqp")]
    if default_only:
        for e in entries[1:]:
            out.append(dict(entry=e))
        # "only the lower triangle of P is referenced": the default path too is run with an arbitrary strict upper triangle
        out.append(dict(entry=rnd.choice(entries), junk_upper=True, storage=rnd.choice(["dense", "sparse"])))
        return out
    if I["p"] > 0:
        # the reduced KKT system of 'chol' multiplies P from both sides by the QR factor of A': the one place where the upper triangle of P could leak
        out.append(dict(entry="coneqp", kktsolver="chol", storage=rnd.choice(["dense", "sparse"]), junk_upper=True))
    off = rnd.randrange(len(kkts))
    for t in range(k):
        c = dict(entry=rnd.choice(entries), kktsolver=kkts[(off + t) % len(kkts)], storage=rnd.choice(["dense", "sparse"]),
                 initvals=rnd.choice(subsets), options=rnd.choice(opts), junk_upper=rnd.random() < 0.4)
        if c["initvals"] and "y" in c["initvals"] and I["p"] == 0:
            c["initvals"] = [v for v in c["initvals"] if v != "y"] or None
        if alpha_cdim(d) == 0:
            c["initvals"] = None
        out.append(c)
    return out


def alpha_cdim(d):
    return d["l"] + sum(d["q"]) + sum(m * m for m in d["s"])


def _run(args):
    from harness import solvedrv
    from cvxopt import misc
    solver, I, cfgs = args
    out = []
    for cfg in cfgs:
        kw = dict(cfg)
        if kw.get("kktsolver") == "callable":
            c, G, h, dims, A, b, P = solvedrv.problem(I, kw.get("storage", "dense"))
            kw["kktsolver"] = (lambda G, dims, A: (lambda W: misc.kkt_ldl(G, dims, A)(W)))(G, dims, A)
        try:
            if solver == "conelp":
                tr, info = solvedrv.run_conelp(I, **kw)
            else:
                tr, info = solvedrv.run_coneqp(I, **kw)
        except Exception as e:
            out.append({"solver": solver, "id": I["id"], "kind": I["kind"], "cfg": cfg, "harness_error": repr(e)})
            continue
        res = info.get("res")
        detects = None
        if I.get("thinPG"):
            try:
                detects = solvedrv.chol2_first_factor_detects(I, kw.get("storage", "dense"))
            except Exception:
                detects = None
        pobj = None
        if res is not None and res.get("primal objective") is not None:
            pobj = float(res["primal objective"])
        out.append({"solver": solver, "id": I["id"], "kind": I["kind"], "dims": I["dims"], "cfg": cfg, "trace": tr, "exc": info["exc"],
                    "thin": bool(I.get("thinPG")), "chol_detects": detects,
                    "status": info["status"], "pobj": pobj, "det": {k: v for k, v in info["det"].items()}})
    return out


def run_cases(ck, jobs, name):
    """jobs: list of (solver, instance, [cfg]); returns (runs, verdicts)"""
    from harness.core import pmap
    results = pmap(ck, _run, jobs, "solsuite", timeout=PMAP_TIMEOUT, chunksize=2)
    if results is None:
        ck.finish()
    runs = [r for rs in results for r in rs]
    for r in runs:
        if "harness_error" in r:
            ck.machinery_errors.append("driver failed: %r" % r)
    runs = [r for r in runs if "trace" in r]
    verdict = soltrace.validate(ck, [r["trace"] for r in runs], name)
    return runs, verdict


def cfg_class(r):
    c = r["cfg"]
    d = r.get("dims") or {}
    cone = ("l" if d.get("l") else "") + ("q" if d.get("q") else "") + ("s" if d.get("s") else "")
    o = c.get("options")
    oc = "default" if not o else ",".join(sorted(o))
    return "entry=%s,kkt=%s,%s,starts=%s,opts=%s,solver=%s,cone=%s" % (
        c.get("entry"), c.get("kktsolver"), c.get("storage", "dense"), c.get("starts") or c.get("initvals") or "none", oc,
        c.get("solver"), cone or "none")


def report(ck, runs, verdict, props, pid_label):
    """turn violated contract properties into violations of the check"""
    for i, r in enumerate(runs):
        v = verdict[i]
        ck.traces += 1
        ck.evaluations += 1
        last = r["trace"][-1]
        outc = last["cls"] if last["ev"] == "Raise" else last["status"]
        ck.nontrivial((r["solver"], r["kind"], cfg_class(r), outc))
        if not v["accepted"]:
            ck.violation("%s|trace-rejected|%s" % (r["solver"], v["failed"][:1]), "trace not accepted by SolverTrace", r)
            continue
        for p in v["violated"]:
            if p not in props:
                continue
            cert = last.get("cert", {}) if last["ev"] == "Return" else {}
            failed = sorted(k for k, val in cert.items() if val is False)
            c = r["cfg"]
            lonly = not (r.get("dims") or {}).get("q") and not (r.get("dims") or {}).get("s")
            if r.get("thin") and lonly and c.get("kktsolver") in (None, "chol2") and not c.get("solver"):
                # input class of a listed finding: kkt_chol2 on an exactly singular H + G'W^-2 G (rank([P; G]) < n)
                ck.violation("kkt_chol2|rank([P;G])<n|first-cholesky-%s-singularity" % (
                                 "detects" if r.get("chol_detects") else "misses"),
                             "%s with the chol2 KKT solver on a problem whose matrix [P; G] is rank deficient (A completes the rank): %s violated, "
                             "outcome %s" % (c.get("entry"), p, outc), r)
                continue
            if c.get("solver") == "glpk" and p in ("PinfCert", "DinfCert"):
                # documented (coneprog.rst, lp): with the GLPK option no certificates are returned, all entries are None
                if r["trace"][-1].get("cert", {}).get("glpk_all_none"):
                    continue
            if c.get("solver") and p == "OptimalCert" and outc == "optimal":
                # external back-end: classify coarsely (its numerics are not this repository's code)
                if cert.get("s_symmetric") is False or cert.get("z_symmetric") is False:
                    cls = "wrapper-returns-nonsymmetric-blocks"
                elif r["kind"] in ("pinf", "dinf"):
                    cls = "reports-optimal-on-%s-problem" % r["kind"]
                elif cert.get("fields_ok") and cert.get("split_ok") and (r.get("det") or {}).get("pres", 1) < 1e-3 \
                        and (r.get("det") or {}).get("dres", 1) < 1e-3 and abs((r.get("det") or {}).get("gap", 1)) < 1e-2:
                    cls = "accuracy-below-requested-tolerances"
                elif cert.get("fields_ok") and cert.get("split_ok") and cert.get("pres_ok"):
                    # everything the wrapper computes is right; the point returned by the external library is not optimal
                    cls = "external-solution-not-optimal"
                else:
                    cls = "cert=" + "+".join(failed)
                sig = "%s|%s|solver=%s|%s" % (c.get("entry"), p, c.get("solver"), cls)
                ck.violation(sig, "%s with solver=%s: 'optimal' without a valid certificate (%s; truth %s)" % (
                    c.get("entry"), c.get("solver"), cls, r["kind"]), r)
                continue
            sig = "%s|%s|%s|truth=%s|outcome=%s|cert=%s" % (
                c.get("entry"), p, "solver=%s" % c.get("solver") if c.get("solver") else "native", r["kind"], outc,
                "+".join(failed + sorted((r.get("det") or {}).get("fields", {}))))
            ck.violation(sig, "%s %s: %s violated (outcome %s; failing certificate clauses %s)" % (
                c.get("entry"), cfg_class(r), p, outc, failed), r)
