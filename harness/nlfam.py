"""Function families for the nonlinear solvers cpl / cp / gp (C04, C05, C10).

Each family object carries integer data, builds the user callback F for cvxopt
(dense or sparse Df/H; None outside the domain) and provides an INDEPENDENT
evaluation of f and Df at a float point for the abstraction function: exact
rationals for quadratics and for the gradients of the logarithmic families;
math.log / math.exp (1 ulp) only for function values."""
import math, random
from fractions import Fraction as Fr
from cvxopt import matrix, spmatrix, sparse, spdiag, log, exp, mul, div


def _vec(v):
    return matrix([float(a) for a in v], (len(v), 1), 'd')


class Quad(object):
    """f_k(x) = 1/2 x'P_k x + q_k'x + r_k,  P_k = R_k'R_k + I  (k = 0 is the objective for cp)
    data: n, list of (R (rows), q, r)"""
    kind = "quad"

    def __init__(self, n, fs, x0=None):
        self.n = n
        self.fs = fs
        self.x0 = x0 or [0] * n
        self.P = []
        for R, q, r in fs:
            P = [[sum(Rr[i] * Rr[j] for Rr in R) + (1 if i == j else 0) for j in range(n)] for i in range(n)]
            self.P.append(P)
        self.calls = []

    def in_domain(self, x):
        return True

    def f_exact(self, k, x):
        P, (R, q, r) = self.P[k], self.fs[k]
        n = self.n
        return Fr(1, 2) * sum(x[i] * P[i][j] * x[j] for i in range(n) for j in range(n)) + sum(q[i] * x[i] for i in range(n)) + r

    def grad_exact(self, k, x):
        P, (R, q, r) = self.P[k], self.fs[k]
        return [sum(P[i][j] * x[j] for j in range(self.n)) + q[i] for i in range(self.n)]

    def ferr(self, x):
        return Fr(0)

    def make_F(self, first=0, sparse_out=False, refuse=None):
        """cvxopt callback for functions first..len(fs)-1 (first=0: cp with objective; cpl uses all as constraints)"""
        n = self.n
        idx = list(range(first, len(self.fs)))
        m = len(idx)
        Pm = [matrix([[float(v) for v in col] for col in zip(*self.P[k])]) for k in idx]
        qm = [_vec(self.fs[k][1]) for k in idx]
        rm = [float(self.fs[k][2]) for k in idx]
        x0 = _vec(self.x0)
        fam = self

        def F(x=None, z=None):
            if x is None:
                return (m - 1 if first == 0 else m), +x0
            fam.calls.append(("F", z is not None))
            f = matrix(0.0, (m, 1))
            Df = matrix(0.0, (m, n))
            for i in range(m):
                Px = Pm[i] * x
                f[i] = 0.5 * (x.T * Px)[0] + (qm[i].T * x)[0] + rm[i]
                Df[i, :] = (Px + qm[i]).T
            if sparse_out:
                Df = sparse(Df)
            if z is None:
                return f, Df
            H = matrix(0.0, (n, n))
            for i in range(m):
                H += z[i] * Pm[i]
            if sparse_out:
                H = sparse(H)
            return f, Df, H
        return F


class LogBarrier(object):
    """f_0(x) = -sum_i w_i log(x_i)  on x > 0 (analytic centering); optional quadratic constraints are not used here"""
    kind = "acent"

    def __init__(self, n, w, x0, refuse_form="none"):
        self.n = n
        self.refuse_form = refuse_form      # documented: outside dom f, F(x) returns None or (None, None)
        self.w = w
        self.x0 = x0          # strictly positive start
        self.fs = [None]
        self.calls = []
        self.refused = 0

    def in_domain(self, x):
        return all(v > 0 for v in x)

    def f_exact(self, k, x):
        return Fr(-sum(w * math.log(float(v)) for w, v in zip(self.w, x)))

    def ferr(self, x):
        return Fr(1, 10 ** 12) * (1 + sum(abs(w * math.log(float(v))) for w, v in zip(self.w, x)))

    def grad_exact(self, k, x):
        return [Fr(-w) / v for w, v in zip(self.w, x)]

    def make_F(self, first=0, sparse_out=False, refuse=None):
        n = self.n
        w = _vec(self.w)
        x0 = _vec(self.x0)
        fam = self

        def F(x=None, z=None):
            if x is None:
                return 0, +x0
            if min(x) <= 0.0:
                fam.refused += 1
                fam.calls.append(("None", False))
                return None if fam.refuse_form == "none" else (None, None)
            fam.calls.append(("F", z is not None))
            f = matrix(-(w.T * log(x))[0])
            Df = -div(w, x).T
            if sparse_out:
                Df = sparse(Df)
            if z is None:
                return f, Df
            H = spdiag(z[0] * div(w, x ** 2))
            if not sparse_out:
                H = matrix(H)
            return f, Df, H
        return F


class LSE(object):
    """log-sum-exp functions f_k(x) = log sum_j exp(F_kj x + g_kj)  (geometric programs)"""
    kind = "lse"

    def __init__(self, n, K, Fm, g, x0=None):
        self.n, self.K, self.Fm, self.g = n, K, Fm, g      # Fm: list of rows (sum(K) x n), g: list
        self.x0 = x0 or [0] * n
        self.fs = [None] * len(K)
        self.calls = []

    def in_domain(self, x):
        return True

    def _rows(self, k):
        s = sum(self.K[:k])
        return range(s, s + self.K[k])

    def f_exact(self, k, x):
        xs = [float(v) for v in x]
        ys = [sum(self.Fm[r][j] * xs[j] for j in range(self.n)) + self.g[r] for r in self._rows(k)]
        m = max(ys)
        return Fr(m + math.log(sum(math.exp(y - m) for y in ys)))

    def ferr(self, x):
        return Fr(1, 10 ** 11) * (1 + max(abs(float(v)) for v in x) * 4)

    def grad_exact(self, k, x):
        xs = [float(v) for v in x]
        ys = [sum(self.Fm[r][j] * xs[j] for j in range(self.n)) + self.g[r] for r in self._rows(k)]
        m = max(ys)
        e = [math.exp(y - m) for y in ys]
        t = sum(e)
        return [Fr(sum(e[i] / t * self.Fm[r][j] for i, r in enumerate(self._rows(k)))) for j in range(self.n)]

    def make_F(self, first=0, sparse_out=False, refuse=None):
        n, K = self.n, self.K
        Fm = matrix([[float(self.Fm[r][j]) for r in range(sum(K))] for j in range(n)])
        g = _vec(self.g)
        x0 = _vec(self.x0)
        m = len(K)
        fam = self

        def F(x=None, z=None):
            if x is None:
                return m - 1, +x0
            fam.calls.append(("F", z is not None))
            f = matrix(0.0, (m, 1))
            Df = matrix(0.0, (m, n))
            H = matrix(0.0, (n, n))
            y = Fm * x + g
            s = 0
            for k in range(m):
                yk = y[s:s + K[k]]
                ymax = max(yk)
                ek = exp(yk - ymax)
                t = sum(ek)
                f[k] = ymax + math.log(t)
                pk = ek / t
                Fk = Fm[s:s + K[k], :]
                Df[k, :] = (Fk.T * pk).T
                if z is not None:
                    Hk = Fk.T * (spdiag(pk) - pk * pk.T) * Fk
                    H += z[k] * Hk
                s += K[k]
            if z is None:
                return f, Df
            return f, Df, H
        return F


# ---------------------------------------------------------------------------
def gen_quad(rnd, n, m, xf):
    """m+1 quadratics; the constraints k>=1 satisfy f_k(xf) = -1 (strict feasibility at xf)"""
    fs = []
    for k in range(m + 1):
        rr = rnd.randint(0, n)
        R = [[rnd.randint(-2, 2) for _ in range(n)] for _ in range(rr)]
        q = [rnd.randint(-3, 3) for _ in range(n)]
        fs.append([R, q, 0])
    Q = Quad(n, fs, x0=[0] * n)
    for k in range(1, m + 1):
        v = Q.f_exact(k, [Fr(a) for a in xf])
        # r_k := -1 - f_k(xf)  (a half-integer at most: keep it rational -> scale by making it a Fraction)
        fs[k][2] = -1 - v
    Q2 = Quad(n, [(R, q, r) for R, q, r in fs], x0=list(xf))
    return Q2
