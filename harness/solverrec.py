"""Recorder for solver calls: turns one call of conelp/coneqp/cpl (or a wrapper)
into a trace of SolverContract events.

No behaviour change: the KKT factories cvxopt.misc.kkt_* are module attributes
looked up at call time by the solvers, so they are wrapped from outside (the
default-solver path included); the per-iteration statistics come from the
CVXOPT_VERIF hook (cvxopt._verif_sink)."""
import threading
from fractions import Fraction as Fr
import cvxopt
from cvxopt import misc, matrix, spmatrix

_tls = threading.local()
_KKT_NAMES = ["kkt_ldl", "kkt_ldl2", "kkt_qr", "kkt_chol", "kkt_chol2"]
_orig = {}


class Rec(object):
    def __init__(self, fault=None, check_w=None):
        self.events = []
        self.nf = 0
        self.ns = 0
        self.fault = fault        # ("factor"|"solve", index) or None; or a set of such pairs
        self.iters_seen = []
        self.raw_iters = []
        self.ls = []
        self.check_w = check_w    # callable(W, mnl) -> bool
        self.calls = []           # (kind, ok, phase) for fault-class accounting

    def faulty(self, kind, idx):
        f = self.fault
        if f is None:
            return False
        if isinstance(f, (set, frozenset, list)):
            return (kind, idx) in f
        return f == (kind, idx)


def _cur():
    return getattr(_tls, "rec", None)


def _sink(ev, f):
    r = _cur()
    if r is None:
        return
    if ev.endswith(".iter"):
        feastol, abstol, reltol = f["feastol"], f["abstol"], f["reltol"]
        p = {"feas": bool(f["pres"] <= feastol and f["dres"] <= feastol),
             "gap": bool(f["gap"] <= abstol or (f["relgap"] is not None and f["relgap"] <= reltol)),
             "pinf": bool(f.get("pinfres") is not None and f["pinfres"] <= feastol),
             "dinf": bool(f.get("dinfres") is not None and f["dinfres"] <= feastol)}
        r.events.append({"ev": "Iter", "k": int(f["iters"]), "p": p})
        r.raw_iters.append(dict(f))
    elif ev == "cpl.ls":
        r.ls.append(dict(f))


def _wrap_factory(name):
    fac = _orig[name]

    def factory(*a, **k):
        factor = fac(*a, **k)
        mnl = a[3] if len(a) > 3 else k.get("mnl", 0)

        def factor2(W, *fa, **fk):
            r = _cur()
            if r is None:
                return factor(W, *fa, **fk)
            idx = r.nf
            r.nf += 1
            wok = True
            if r.check_w is not None:
                try:
                    wok = bool(r.check_w(W, mnl))
                except Exception:
                    wok = False
            if r.faulty("factor", idx):
                r.events.append({"ev": "Kkt", "kind": "factor", "ok": False, "w": wok, "injected": True})
                raise ArithmeticError("injected factor fault %d" % idx)
            try:
                solve = factor(W, *fa, **fk)
            except ArithmeticError:
                r.events.append({"ev": "Kkt", "kind": "factor", "ok": False, "w": wok})
                raise
            r.events.append({"ev": "Kkt", "kind": "factor", "ok": True, "w": wok})

            def solve2(x, y, z):
                r2 = _cur()
                if r2 is None:
                    return solve(x, y, z)
                j = r2.ns
                r2.ns += 1
                if r2.faulty("solve", j):
                    r2.events.append({"ev": "Kkt", "kind": "solve", "ok": False, "w": True, "injected": True})
                    raise ArithmeticError("injected solve fault %d" % j)
                try:
                    out = solve(x, y, z)
                except ArithmeticError:
                    r2.events.append({"ev": "Kkt", "kind": "solve", "ok": False, "w": True})
                    raise
                r2.events.append({"ev": "Kkt", "kind": "solve", "ok": True, "w": True})
                return out
            return solve2
        return factor2
    factory.__name__ = name
    return factory


def install():
    """wrap cvxopt.misc.kkt_* and install the hook sink (idempotent)"""
    if _orig:
        return
    for n in _KKT_NAMES:
        _orig[n] = getattr(misc, n)
    for n in _KKT_NAMES:
        setattr(misc, n, _wrap_factory(n))
    cvxopt._verif_sink = _sink


def uninstall():
    for n, f in _orig.items():
        setattr(misc, n, f)
    _orig.clear()
    cvxopt._verif_sink = None


SOLVER_OF = {"conelp": "conelp", "lp": "conelp", "socp": "conelp", "sdp": "conelp",
             "coneqp": "coneqp", "qp": "coneqp", "cpl": "cpl", "cp": "cpl", "gp": "cpl"}


def record(entry, fn, args, kwargs, maxiters, bothstarts=False, truth="none", fault=None, check_w=None):
    """call fn(*args, **kwargs) under the recorder.
    returns (trace_events_without_Return_cert, result_or_None, exception_or_None, rec)"""
    install()
    rec = Rec(fault=fault, check_w=check_w)
    rec.events.append({"ev": "Start", "cfg": {"solver": SOLVER_OF[entry], "maxiters": int(maxiters),
                                              "bothstarts": bool(bothstarts), "truth": truth}})
    _tls.rec = rec
    res, exc = None, None
    try:
        res = fn(*args, **kwargs)
    except BaseException as e:      # noqa - every exception type is an observation
        exc = e
    finally:
        _tls.rec = None
    return rec.events, res, exc, rec


def finish_trace(events, res, exc, cert=None, iters=None):
    ev = list(events)
    if exc is not None:
        ev.append({"ev": "Raise", "cls": type(exc).__name__})
    else:
        st = res["status"]
        k = iters if iters is not None else res.get("iterations", 0)
        ev.append({"ev": "Return", "status": st, "iters": int(k), "cert": cert or {}})
    # strip helper keys TLC does not need
    out = []
    for e in ev:
        e = {k: v for k, v in e.items() if k != "injected"}
        out.append(e)
    return out
