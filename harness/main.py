"""./check entry point: build /repo's working tree, dispatch to the property's driver."""
import argparse, importlib, os, sys

VERIF = os.path.dirname(os.path.dirname(os.path.abspath(__file__)))


def main():
    ap = argparse.ArgumentParser()
    ap.add_argument("pid")
    ap.add_argument("--tier", default=os.environ.get("VERIF_TIER", "quick"), choices=["quick", "thorough"])
    ap.add_argument("--replay", default=None)
    a = ap.parse_args()
    tier = os.environ.get("VERIF_TIER") or a.tier
    if tier not in ("quick", "thorough"):
        tier = "quick"
    seed = int(os.environ.get("VERIF_SEED", "20260923"))
    if a.replay:
        import json
        try:
            rec = json.load(open(a.replay))
            tier, seed = rec["tier"], int(rec["seed"])
            os.environ["VERIF_REPLAY_SIG"] = rec["signature"]
            os.environ["VERIF_REPLAY_FILE"] = os.path.abspath(a.replay)
        except Exception as e:
            sys.stderr.write("cannot read replay file %s: %s\n" % (a.replay, e))
            sys.exit(2)
    os.environ["VERIF_TIER"] = tier
    os.environ.setdefault("VERIF_PMAP_TIMEOUT", "900" if tier == "quick" else "7200")
    from harness import build
    pkg = build.ensure_build(guard=False)
    sys.path.insert(0, pkg)
    os.environ["VERIF_PKG"] = pkg
    os.environ["PYTHONPATH"] = pkg + os.pathsep + VERIF
    mod = importlib.import_module("harness.checks." + a.pid.lower())
    mod.run(tier, seed, a.replay)


if __name__ == "__main__":
    main()
