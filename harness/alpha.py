"""The abstraction function `alpha`: maps floats returned by the solvers to the
booleans the TLA+ contract (specs/SolverContract.tla) talks about.

Everything is evaluated in exact rational arithmetic (fractions.Fraction;
Fraction(float) is exact) from the *caller's* data and the *documented*
formulas (doc/source/coneprog.rst, solvers.rst).  It never calls a kernel of
cvxopt.misc / misc_solvers: it is the independent judge of those kernels.

Conventions.  A cone vector of dims = {l, q, s} is a list of cdim Fractions in
cvxopt's layout ('s' blocks as full column-major m x m matrices of which only
the lower triangle is referenced).  wt(dims) gives the weights that turn the
layout into the symmetric inner product: 1 on 'l', 'q' and diagonal entries,
2 on strictly lower, 0 on strictly upper entries.
"""
from fractions import Fraction as Fr
import math

U = Fr(1, 2 ** 52)


def fvec(m):
    """cvxopt dense matrix / list -> list of Fractions (column-major)"""
    if m is None:
        return None
    return [Fr(float(v)) for v in m]


def fmat(M, nrows=None, ncols=None):
    """cvxopt dense or sparse matrix -> list of columns of Fractions"""
    import cvxopt
    if M is None:
        return [[] for _ in range(ncols or 0)]
    if isinstance(M, cvxopt.spmatrix):
        M = cvxopt.matrix(M)
    r, c = M.size
    flat = [Fr(float(v)) for v in M]
    return [flat[j * r:(j + 1) * r] for j in range(c)]


def cdim_of(dims):
    return dims['l'] + sum(dims['q']) + sum(m * m for m in dims['s'])


def wt(dims):
    w = [1] * (dims['l'] + sum(dims['q']))
    for m in dims['s']:
        for j in range(m):
            for i in range(m):
                w.append(1 if i == j else (2 if i > j else 0))
    return w


def sdot(x, y, w):
    return sum(wi * a * b for wi, a, b in zip(w, x, y) if wi)


def dot(x, y):
    return sum(a * b for a, b in zip(x, y))


def identity(dims):
    e = [Fr(1)] * dims['l']
    for m in dims['q']:
        e += [Fr(1)] + [Fr(0)] * (m - 1)
    for m in dims['s']:
        for j in range(m):
            for i in range(m):
                e.append(Fr(1) if i == j else Fr(0))
    return e


def _pd(M, n):
    """M: dict (i,j)->Fraction for i>=j (lower triangle). exact test of positive definiteness"""
    A = [[M[(max(i, j), min(i, j))] for j in range(n)] for i in range(n)]
    for k in range(n):
        p = A[k][k]
        if p <= 0:
            return False
        for i in range(k + 1, n):
            f = A[i][k] / p
            if f:
                for j in range(k + 1, n):
                    A[i][j] -= f * A[k][j]
    return True


def in_cone(v, dims, shift=Fr(0), strict=False):
    """is v + shift*e in the cone (strict: in its interior)?  exact."""
    k = 0
    for i in range(dims['l']):
        a = v[k] + shift
        if a < 0 or (strict and a == 0):
            return False
        k += 1
    for m in dims['q']:
        a = v[k] + shift
        t = sum(x * x for x in v[k + 1:k + m])
        if a < 0 or a * a < t or (strict and a * a == t):
            return False
        k += m
    for m in dims['s']:
        if m:
            M = {}
            for j in range(m):
                for i in range(j, m):
                    M[(i, j)] = v[k + j * m + i] + (shift if i == j else 0)
            if strict:
                if not _pd(M, m):
                    return False
            else:
                # PSD  <=>  M + eps I is PD for every eps > 0; tested exactly through
                # the closure: M + eps*I PD for a tiny rational eps smaller than any
                # tolerance used by callers (callers always add their own shift)
                for i in range(m):
                    M[(i, i)] += Fr(1, 10 ** 30)
                if not _pd(M, m):
                    return False
        k += m * m
    return True


def maxabs(v):
    return max([abs(x) for x in v] + [Fr(0)])


def slack_matches(v, dims, reported, delta):
    """is `reported` the distance of v to the boundary of the cone, min{t : v - t e in cone} up to delta?
    (the documented 'primal slack' / 'dual slack': smallest 'eigenvalue' of v w.r.t. the cone)"""
    if cdim_of(dims) == 0:
        return True      # no cone: any reported slack is vacuous
    r = Fr(float(reported))
    return in_cone(v, dims, shift=-(r - delta)) and not in_cone(v, dims, shift=-(r + delta), strict=True)


def close(a, b, err):
    """float field a equals exact value b up to the forward error bound err"""
    if a is None or b is None:
        return a is None and b is None
    return abs(Fr(float(a)) - b) <= err


def sq_close(field, exact_sq, err_abs):
    """field (a float, nonnegative) equals sqrt(exact_sq) up to err_abs"""
    if field is None:
        return False
    f = Fr(float(field))
    if f < 0:
        return False
    lo = max(f - err_abs, 0)
    hi = f + err_abs
    return lo * lo <= exact_sq <= hi * hi


# ---------------------------------------------------------------------------
class ConeProblem(object):
    """caller's data of a cone LP / QP in exact form"""

    def __init__(self, c, G, h, dims, A=None, b=None, P=None):
        self.c = fvec(c)
        self.n = len(self.c)
        self.dims = {'l': dims['l'], 'q': list(dims['q']), 's': list(dims['s'])}
        self.cdim = cdim_of(self.dims)
        self.G = fmat(G, ncols=self.n) if G is not None else [[] for _ in range(self.n)]
        self.h = fvec(h) if h is not None else []
        self.A = fmat(A, ncols=self.n) if A is not None else [[] for _ in range(self.n)]
        self.b = fvec(b) if b is not None else []
        self.p = len(self.b)
        self.w = wt(self.dims)
        self.P = None
        if P is not None:
            Pm = fmat(P)
            # only the lower triangle of P is referenced
            self.P = [[Pm[min(i, j)][max(i, j)] for j in range(self.n)] for i in range(self.n)]
        self.mag = 1 + max([maxabs(self.c), maxabs(self.h), maxabs(self.b)] + [maxabs(col) for col in self.G] +
                           [maxabs(col) for col in self.A] + ([maxabs(r) for r in self.P] if self.P else []))

    # G x  (all rows), G' z (symmetric inner product on 's' blocks)
    def Gx(self, x):
        return [sum(self.G[j][r] * x[j] for j in range(self.n)) for r in range(self.cdim)]

    def GTz(self, z):
        return [sdot(self.G[j], z, self.w) for j in range(self.n)]

    def Ax(self, x):
        return [sum(self.A[j][r] * x[j] for j in range(self.n)) for r in range(self.p)]

    def ATy(self, y):
        return [dot(self.A[j], y) for j in range(self.n)]

    def Px(self, x):
        return [dot(self.P[i], x) for i in range(self.n)]

    def nrm0(self):
        rx0 = max(Fr(1), dot(self.c, self.c))          # squared
        ry0 = max(Fr(1), dot(self.b, self.b))
        rz0 = max(Fr(1), sdot(self.h, self.h, self.w))
        return rx0, ry0, rz0


def _symmetric(v, dims):
    """the returned s, z must have symmetric 's' blocks (both triangles equal, up to 1e-9 of the magnitude)"""
    k = dims['l'] + sum(dims['q'])
    tol = Fr(1, 10 ** 9) * (1 + maxabs(v))
    for m in dims['s']:
        for j in range(m):
            for i in range(j + 1, m):
                if abs(v[k + j * m + i] - v[k + i * m + j]) > tol:
                    return False
        k += m * m
    return True


def conelp_cert(pr, sol, opts, truth=None, bounds=None):
    """certificate booleans for a conelp-type result dictionary.
    pr: ConeProblem; sol: dict with x,s,y,z (cvxopt matrices or None) and the accuracy fields;
    opts: effective abstol, reltol, feastol, maxiters."""
    st = sol['status']
    feastol, abstol, reltol = Fr(float(opts['feastol'])), Fr(float(opts['abstol'])), Fr(float(opts['reltol']))
    cert = {}
    det = {}
    rx0, ry0, rz0 = pr.nrm0()
    w = pr.w
    x, s, y, z = fvec(sol['x']), fvec(sol['s']), fvec(sol['y']), fvec(sol['z'])
    if y is None and st != 'dual infeasible' and pr.p == 0:
        y = []
    solmag = 1 + max([maxabs(v) for v in (x, s, y, z) if v is not None] + [Fr(0)])
    # forward error bound of one residual component: (number of terms) * u * |data| * |solution|
    err = 64 * (pr.n + pr.cdim + pr.p + 4) * U * pr.mag * solmag
    nerr = err * (pr.n + pr.cdim + pr.p + 1)
    if st in ('optimal', 'unknown'):
        rz = [a + b - c for a, b, c in zip(pr.Gx(x), s, pr.h)]
        ry = [a - b for a, b in zip(pr.Ax(x), pr.b)]
        rxv = [a + b + c for a, b, c in zip(pr.GTz(z), pr.ATy(y), pr.c)]
        resz2, resy2, resx2 = sdot(rz, rz, w), dot(ry, ry), dot(rxv, rxv)
        # pres <= feastol  (on squares, with the error bound as slack)
        def le_tol(res2, n0sq):
            # sqrt(res2)/sqrt(n0sq) <= feastol + slack
            bound = feastol * feastol * n0sq
            if res2 <= bound:
                return True
            # allow sqrt(res2) <= feastol*sqrt(n0sq)*(1+1e-6) + nerr
            n0 = Fr(math.sqrt(float(n0sq))) * (1 + Fr(1, 10 ** 6))
            lim = feastol * n0 * (1 + Fr(1, 10 ** 6)) + nerr
            return res2 <= lim * lim
        cert['pres_ok'] = le_tol(resz2, rz0) and le_tol(resy2, ry0)
        cert['dres_ok'] = le_tol(resx2, rx0)
        tolc = Fr(1, 10 ** 9) * solmag
        cert['s_symmetric'] = _symmetric(s, pr.dims)
        cert['z_symmetric'] = _symmetric(z, pr.dims)
        cert['s_in_cone'] = in_cone(s, pr.dims, shift=tolc) and cert['s_symmetric']
        cert['z_in_cone'] = in_cone(z, pr.dims, shift=tolc) and cert['z_symmetric']
        cert['s_interior'] = in_cone(s, pr.dims, strict=True)
        cert['z_interior'] = in_cone(z, pr.dims, strict=True)
        gap = sdot(s, z, w)
        pcost = dot(pr.c, x)
        dcost = -(dot(pr.b, y) + sdot(pr.h, z, w))
        gerr = err * solmag * (pr.cdim + 1)
        gap_abs = gap <= abstol + gerr
        gap_rel = False
        if pcost < 0 and gap <= reltol * (-pcost) * (1 + Fr(1, 10 ** 6)) + gerr:
            gap_rel = True
        if dcost > 0 and gap <= reltol * dcost * (1 + Fr(1, 10 ** 6)) + gerr:
            gap_rel = True
        cert['gap_ok'] = gap_abs or gap_rel
        # accuracy fields equal the recomputed values
        f = {}
        f['pobj'] = close(sol['primal objective'], pcost, gerr)
        f['dobj'] = close(sol['dual objective'], dcost, gerr)
        f['gap'] = close(sol['gap'], gap, gerr)
        rg = sol['relative gap']
        cands = []
        if pcost < 0:
            cands.append(gap / -pcost)
        if dcost > 0:
            cands.append(gap / dcost)
        if abs(pcost) <= 4 * gerr or abs(dcost) <= 4 * gerr:
            f['relgap'] = True       # the sign of an objective that is zero to rounding decides the formula: not judged
        elif not cands:
            f['relgap'] = rg is None
        else:
            # documented: gap / max(-pcost, dcost); the solver uses -pcost if pcost < 0 else dcost; both accepted
            den = [(-pcost) if pcost < 0 else None, dcost if dcost > 0 else None]
            f['relgap'] = rg is not None and any(
                abs(Fr(float(rg)) - cnd) <= gerr / min(d for d in den if d) + abs(cnd) * Fr(1, 10 ** 9) for cnd in cands)
        pres2 = max(resz2 / rz0, resy2 / ry0)
        f['pinf'] = sq_close(sol['primal infeasibility'], pres2, nerr)
        f['dinf'] = sq_close(sol['dual infeasibility'], resx2 / rx0, nerr)
        dl = Fr(1, 10 ** 9) * solmag
        f['pslack'] = slack_matches(s, pr.dims, sol['primal slack'], dl)
        f['dslack'] = slack_matches(z, pr.dims, sol['dual slack'], dl)
        f['iters'] = isinstance(sol.get('iterations', 0), int) and 0 <= sol.get('iterations', 0) <= opts['maxiters']
        cert['fields_ok'] = all(f.values())
        det['fields'] = {k: v for k, v in f.items() if not v}
        # near-1e5 level (C05: 'unknown' at worst with residuals and gap already small)
        t5 = Fr(1, 10 ** 5)
        cert['near_1e5'] = (resz2 <= t5 * t5 * rz0 and resy2 <= t5 * t5 * ry0 and resx2 <= t5 * t5 * rx0 and
                            (gap <= t5 or (pcost < 0 and gap <= t5 * -pcost) or (dcost > 0 and gap <= t5 * dcost)))
        if bounds is not None:
            lo, hi = bounds      # exact weak-duality bounds from the plant:  lo <= p* <= hi
            tol = Fr(1, 10 ** 5) * (1 + abs(pcost))
            cert['objective_in_bounds'] = (lo - tol <= pcost <= hi + tol) if st == 'optimal' else True
        else:
            cert['objective_in_bounds'] = True
        det['pres'] = float(math.sqrt(pres2)); det['dres'] = float(math.sqrt(resx2 / rx0)); det['gap'] = float(gap)
    elif st == 'primal infeasible':
        cert['xs_none'] = sol['x'] is None and sol['s'] is None
        tolc = Fr(1, 10 ** 9) * solmag
        cert['z_in_cone'] = z is not None and in_cone(z, pr.dims, shift=tolc) and _symmetric(z, pr.dims)
        hzby = sdot(pr.h, z, w) + dot(pr.b, y)
        cert['hzby_minus1'] = abs(hzby + 1) <= err * solmag * (pr.cdim + pr.p + 1) + Fr(1, 10 ** 9)
        r = [a + b for a, b in zip(pr.GTz(z), pr.ATy(y))]
        r2 = dot(r, r)
        lim = feastol * Fr(math.sqrt(float(rx0))) * (1 + Fr(1, 10 ** 6)) + nerr
        cert['pinfres_ok'] = r2 <= lim * lim
        f = {}
        f['res'] = sq_close(sol['residual as primal infeasibility certificate'], r2 / rx0, nerr)
        f['dslack'] = slack_matches(z, pr.dims, sol['dual slack'], Fr(1, 10 ** 9) * solmag)
        f['dobj'] = sol['dual objective'] == 1.0
        f['none'] = all(sol[k] is None for k in ('gap', 'relative gap', 'primal objective', 'primal infeasibility',
                                                 'dual infeasibility', 'primal slack',
                                                 'residual as dual infeasibility certificate'))
        cert['fields_ok'] = all(f.values())
        det['fields'] = {k: v for k, v in f.items() if not v}
    elif st == 'dual infeasible':
        cert['yz_none'] = sol['y'] is None and sol['z'] is None
        tolc = Fr(1, 10 ** 9) * solmag
        cert['s_in_cone'] = s is not None and in_cone(s, pr.dims, shift=tolc) and _symmetric(s, pr.dims)
        cx = dot(pr.c, x)
        cert['cx_minus1'] = abs(cx + 1) <= err * solmag * (pr.n + 1) + Fr(1, 10 ** 9)
        rz = [a + b for a, b in zip(pr.Gx(x), s)]
        ry = pr.Ax(x)
        rz2, ry2 = sdot(rz, rz, w), dot(ry, ry)
        limz = feastol * Fr(math.sqrt(float(rz0))) * (1 + Fr(1, 10 ** 6)) + nerr
        limy = feastol * Fr(math.sqrt(float(ry0))) * (1 + Fr(1, 10 ** 6)) + nerr
        cert['dinfres_ok'] = rz2 <= limz * limz and ry2 <= limy * limy
        f = {}
        f['res'] = sq_close(sol['residual as dual infeasibility certificate'], max(rz2 / rz0, ry2 / ry0), nerr)
        f['pslack'] = slack_matches(s, pr.dims, sol['primal slack'], Fr(1, 10 ** 9) * solmag)
        f['pobj'] = sol['primal objective'] == -1.0
        f['none'] = all(sol[k] is None for k in ('gap', 'relative gap', 'dual objective', 'primal infeasibility',
                                                 'dual infeasibility', 'dual slack',
                                                 'residual as primal infeasibility certificate'))
        cert['fields_ok'] = all(f.values())
        det['fields'] = {k: v for k, v in f.items() if not v}
    return cert, det


def coneqp_cert(pr, q, sol, opts, bounds=None):
    """pr: ConeProblem with P (c unused); q: list of Fractions."""
    st = sol['status']
    feastol, abstol, reltol = Fr(float(opts['feastol'])), Fr(float(opts['abstol'])), Fr(float(opts['reltol']))
    cert, det = {}, {}
    w = pr.w
    x, s, y, z = fvec(sol['x']), fvec(sol['s']), fvec(sol['y']), fvec(sol['z'])
    rx0 = max(Fr(1), dot(q, q))
    ry0 = max(Fr(1), dot(pr.b, pr.b))
    rz0 = max(Fr(1), sdot(pr.h, pr.h, w))
    solmag = 1 + max([maxabs(v) for v in (x, s, y, z)])
    mag = max(pr.mag, 1 + maxabs(q))
    err = 64 * (pr.n + pr.cdim + pr.p + 4) * U * mag * solmag
    nerr = err * (pr.n + pr.cdim + pr.p + 1)
    Px = pr.Px(x)
    rxv = [a + b + c + d for a, b, c, d in zip(Px, pr.GTz(z), pr.ATy(y), q)]
    rz = [a + b - c for a, b, c in zip(pr.Gx(x), s, pr.h)]
    ry = [a - b for a, b in zip(pr.Ax(x), pr.b)]
    resx2, resy2, resz2 = dot(rxv, rxv), dot(ry, ry), sdot(rz, rz, w)

    def le_tol(res2, n0sq):
        if res2 <= feastol * feastol * n0sq:
            return True
        lim = feastol * Fr(math.sqrt(float(n0sq))) * (1 + Fr(1, 10 ** 6)) ** 2 + nerr
        return res2 <= lim * lim
    cert['dres_ok'] = le_tol(resx2, rx0)
    cert['pres_ok'] = le_tol(resz2, rz0) and le_tol(resy2, ry0)
    tolc = Fr(1, 10 ** 9) * solmag
    cert['s_in_cone'] = in_cone(s, pr.dims, shift=tolc) and _symmetric(s, pr.dims)
    cert['z_in_cone'] = in_cone(z, pr.dims, shift=tolc) and _symmetric(z, pr.dims)
    cert['s_interior'] = in_cone(s, pr.dims, strict=True)
    cert['z_interior'] = in_cone(z, pr.dims, strict=True)
    gap = sdot(s, z, w)
    pcost = dot(x, Px) / 2 + dot(q, x)
    # documented dual objective  L(x,y,z) = pcost + z'(Gx-h) + y'(Ax-b)
    Gxh = [a - b for a, b in zip(pr.Gx(x), pr.h)]
    dcost = pcost + sdot(z, Gxh, w) + dot(y, ry)
    gerr = err * solmag * (pr.cdim + pr.n + 1)
    ok = gap <= abstol + gerr
    if pcost < 0 and gap <= reltol * -pcost * (1 + Fr(1, 10 ** 6)) + gerr:
        ok = True
    if dcost > 0 and gap <= reltol * dcost * (1 + Fr(1, 10 ** 6)) + gerr:
        ok = True
    cert['gap_ok'] = ok
    f = {}
    f['pobj'] = close(sol['primal objective'], pcost, gerr)
    f['dobj'] = close(sol['dual objective'], dcost, gerr)
    f['gap'] = close(sol['gap'], gap, gerr)
    rg = sol['relative gap']
    cands = []
    if pcost < 0:
        cands.append(gap / -pcost)
    if dcost > 0:
        cands.append(gap / dcost)
    if abs(pcost) <= 4 * gerr or abs(dcost) <= 4 * gerr:
        f['relgap'] = True           # sign of a zero-to-rounding objective decides the formula: not judged
    elif not cands:
        f['relgap'] = rg is None
    else:
        mden = min(([-pcost] if pcost < 0 else []) + ([dcost] if dcost > 0 else []))
        f['relgap'] = rg is not None and any(abs(Fr(float(rg)) - cnd) <= gerr / mden + abs(cnd) * Fr(1, 10 ** 9) for cnd in cands)
    f['pinf'] = sq_close(sol['primal infeasibility'], max(resz2 / rz0, resy2 / ry0), nerr)
    f['dinf'] = sq_close(sol['dual infeasibility'], resx2 / rx0, nerr)
    dl = Fr(1, 10 ** 9) * solmag
    f['pslack'] = slack_matches(s, pr.dims, sol['primal slack'], dl)
    f['dslack'] = slack_matches(z, pr.dims, sol['dual slack'], dl)
    f['iters'] = isinstance(sol.get('iterations', 0), int) and 0 <= sol.get('iterations', 0) <= opts['maxiters']
    cert['fields_ok'] = all(f.values())
    det['fields'] = {k: v for k, v in f.items() if not v}
    t5 = Fr(1, 10 ** 5)
    cert['near_1e5'] = (resz2 <= t5 * t5 * rz0 and resy2 <= t5 * t5 * ry0 and resx2 <= t5 * t5 * rx0 and
                        (gap <= t5 or (pcost < 0 and gap <= t5 * -pcost) or (dcost > 0 and gap <= t5 * dcost)))
    if bounds is not None and st == 'optimal':
        lo, hi = bounds
        tol = Fr(1, 10 ** 5) * (1 + abs(pcost))
        cert['objective_in_bounds'] = lo - tol <= pcost <= hi + tol
    else:
        cert['objective_in_bounds'] = True
    det['pres'] = float(math.sqrt(max(resz2 / rz0, resy2 / ry0))); det['dres'] = float(math.sqrt(resx2 / rx0)); det['gap'] = float(gap)
    return cert, det


# ---------------------------------------------------------------------------
# nonlinear solvers cpl / cp / gp
# ---------------------------------------------------------------------------
def cpl_cert(fam, mode, c, pr, sol, opts, first):
    """fam: function family (harness/nlfam.py) evaluated independently; mode 'cpl' (linear objective c, all functions
    of fam are constraints) or 'cp' (fam function 0 is the objective, the rest constraints; also used for gp).
    pr: ConeProblem of the linear part (c ignored for cp)."""
    feastol, abstol, reltol = Fr(float(opts['feastol'])), Fr(float(opts['abstol'])), Fr(float(opts['reltol']))
    cert, det = {}, {}
    n = fam.n
    nf = len(fam.fs)
    cons = list(range(first if mode == 'cpl' else 1, nf))          # indices of the constraint functions
    mnl = len(cons)
    x = fvec(sol['x'])
    snl, znl = fvec(sol['snl']), fvec(sol['znl'])
    sl, zl = fvec(sol['sl']), fvec(sol['zl'])
    y = fvec(sol['y'])
    cert['split_ok'] = (len(x) == n and len(snl) == mnl and len(znl) == mnl and len(sl) == pr.cdim and len(zl) == pr.cdim
                        and len(y) == pr.p)
    if not cert['split_ok']:
        return cert, det
    cert['x_in_domain'] = bool(fam.in_domain(x))
    if not cert['x_in_domain']:
        return cert, det
    w = pr.w
    x0 = [Fr(v) for v in fam.x0]
    e = identity(pr.dims)
    allk = list(range(first if mode == 'cpl' else 0, nf))
    # documented normalisers at the starting point x0 = F(), s = z = e (cp: epigraph problem, t0 = 0)
    g0 = [Fr(0)] * n
    for k in allk:
        g0 = [a + b for a, b in zip(g0, fam.grad_exact(k, x0))]
    if mode == 'cpl':
        g0 = [a + b for a, b in zip(g0, pr.c)]
    g0 = [a + b for a, b in zip(g0, pr.GTz(e))]
    dres0 = max(Fr(1), dot(g0, g0))          # squared
    r0 = [fam.f_exact(k, x0) + 1 for k in allk]
    r0 += [a + b - c_ for a, b, c_ in zip(pr.Gx(x0), e, pr.h)]
    rz0w = [1] * len(allk) + list(w)
    ry0 = [a - b for a, b in zip(pr.Ax(x0), pr.b)]
    pres0 = max(Fr(1), sdot(r0, r0, rz0w) + dot(ry0, ry0))     # squared
    solmag = 1 + max([maxabs(v) for v in (x, snl, znl, sl, zl, y)])
    gmag = 1 + max(maxabs(fam.grad_exact(k, x)) for k in allk)
    err = 64 * (n + pr.cdim + pr.p + mnl + 4) * U * (pr.mag + gmag) * solmag * gmag + fam.ferr(x)
    nerr = err * (n + pr.cdim + pr.p + mnl + 1)
    # stationarity
    if mode == 'cpl':
        r = list(pr.c)
        gobj = Fr(0)
    else:
        r = fam.grad_exact(0, x)
        gobj = Fr(math.sqrt(float(dot(r, r))))
    for i, k in enumerate(cons):
        gk = fam.grad_exact(k, x)
        r = [a + znl[i] * b for a, b in zip(r, gk)]
    r = [a + b + c_ for a, b, c_ in zip(r, pr.GTz(zl), pr.ATy(y))]
    resx2 = dot(r, r)
    lim = feastol * Fr(math.sqrt(float(dres0))) * (1 + gobj) * (1 + Fr(1, 10 ** 6)) + nerr
    cert['dres_ok'] = resx2 <= lim * lim
    # primal residual
    rp = [fam.f_exact(k, x) + snl[i] for i, k in enumerate(cons)]
    rz = [a + b - c_ for a, b, c_ in zip(pr.Gx(x), sl, pr.h)]
    ry = [a - b for a, b in zip(pr.Ax(x), pr.b)]
    resp2 = dot(rp, rp) + sdot(rz, rz, w) + dot(ry, ry)
    lim = feastol * Fr(math.sqrt(float(pres0))) * (1 + Fr(1, 10 ** 6)) + nerr
    cert['pres_ok'] = resp2 <= lim * lim
    tolc = Fr(1, 10 ** 9) * solmag
    cert['s_in_cone'] = all(v >= -tolc for v in snl) and in_cone(sl, pr.dims, shift=tolc) and _symmetric(sl, pr.dims)
    cert['z_in_cone'] = all(v >= -tolc for v in znl) and in_cone(zl, pr.dims, shift=tolc) and _symmetric(zl, pr.dims)
    cert['s_interior'] = all(v > 0 for v in snl) and in_cone(sl, pr.dims, strict=True)
    cert['z_interior'] = all(v > 0 for v in znl) and in_cone(zl, pr.dims, strict=True)
    gap = dot(snl, znl) + sdot(sl, zl, w)
    pobj = dot(pr.c, x) if mode == 'cpl' else fam.f_exact(0, x)
    gerr = err * solmag * (pr.cdim + mnl + 1)
    # dual objective (documented): c'x + znl'f(x) + zl'(Gx-h) + y'(Ax-b)
    Gxh = [a - b for a, b in zip(pr.Gx(x), pr.h)]
    dobj = pobj + sum(znl[i] * fam.f_exact(k, x) for i, k in enumerate(cons)) + sdot(zl, Gxh, w) + dot(y, ry)
    slackf = 1 + Fr(1, 1000)
    ok = gap <= abstol * slackf + gerr
    if pobj < 0 and gap <= reltol * -pobj * slackf + gerr:
        ok = True
    if dobj > 0 and gap <= reltol * dobj * slackf + gerr:
        ok = True
    cert['gap_ok'] = ok
    f = {}
    if mode == 'cpl':
        f['pobj'] = close(sol['primal objective'], pobj, gerr)
        f['dobj'] = close(sol['dual objective'], dobj, gerr + abs(dobj) * Fr(1, 10 ** 9))
        f['gap'] = close(sol['gap'], gap, gerr)
        f['pinf'] = sq_close(sol['primal infeasibility'], resp2 / pres0, nerr)
        f['dinf'] = sq_close(sol['dual infeasibility'], resx2 / dres0, nerr)
    else:
        # cp / gp copy the accuracy fields of the epigraph problem: t is not returned, so only a weak comparison
        t4 = max(Fr(1, 10 ** 4), 100 * max(feastol, abstol, reltol))
        if sol['status'] == 'optimal':
            f['pobj'] = abs(Fr(float(sol['primal objective'])) - pobj) <= t4 * (1 + abs(pobj))
        # the epigraph gap contains the extra term snl[0]*znl[0] >= 0
        f['gap'] = Fr(float(sol['gap'])) + gerr >= gap - gerr
    cert['fields_ok'] = all(f.values())
    det['fields'] = {k: v for k, v in f.items() if not v}
    t5 = Fr(1, 10 ** 5)
    cert['near_1e5'] = resp2 <= t5 * t5 * pres0 and resx2 <= (t5 * (1 + gobj)) ** 2 * dres0 and (
        gap <= t5 or (pobj < 0 and gap <= t5 * -pobj) or (dobj > 0 and gap <= t5 * dobj))
    cert['objective_in_bounds'] = True
    det['pres'] = float(math.sqrt(resp2 / pres0)); det['dres'] = float(math.sqrt(resx2 / dres0)); det['gap'] = float(gap)
    det['pobj'] = float(pobj)
    return cert, det


# ---------------------------------------------------------------------------
# Nesterov-Todd scalings in exact arithmetic (independent of cvxopt.misc.scale)
# ---------------------------------------------------------------------------
def _blocks(d, mnl):
    out = [("l", 0, mnl + d['l'])]
    k = mnl + d['l']
    for m in d['q']:
        out.append(("q", k, m)); k += m
    for m in d['s']:
        out.append(("s", k, m)); k += m * m
    return out


def scale_exact(x, W, d, mnl, trans=False, inv=False):
    """W: dict of Fractions: dnl, d, beta, v (lists), r, rti (column-major lists).  x: list of Fractions (cone layout;
    's' blocks are read through their lower triangle).  Returns W x / W'x / W^-1 x / W^-T x (full symmetric 's' blocks)."""
    out = list(x)
    dd = list(W.get('dnl', [])) + list(W['d'])
    for i in range(mnl + d['l']):
        out[i] = x[i] / dd[i] if inv else x[i] * dd[i]
    qi = si = 0
    for kind, o, m in _blocks(d, mnl)[1:]:
        if kind == "q":
            v, b = W['v'][qi], W['beta'][qi]
            xs = x[o:o + m]
            Jx = [xs[0]] + [-a for a in xs[1:]]
            if not inv:
                vx = sum(a * c for a, c in zip(v, xs))
                for i in range(m):
                    out[o + i] = b * (2 * v[i] * vx - Jx[i])
            else:
                Jv = [v[0]] + [-a for a in v[1:]]
                vJx = sum(a * c for a, c in zip(v, Jx))
                for i in range(m):
                    out[o + i] = (2 * Jv[i] * vJx - Jx[i]) / b
            qi += 1
        else:
            M = W['rti'][si] if inv else W['r'][si]
            useT = (trans == inv)
            def L(a, c, M=M, m=m, useT=useT):
                return M[a * m + c] if useT else M[c * m + a]       # useT: M'[a][c] = M[c][a] = M[a*m + c] (column-major)
            def X(a, c, o=o, m=m):
                a, c = (a, c) if a >= c else (c, a)
                return x[o + c * m + a]
            for j in range(m):
                for i in range(m):
                    out[o + j * m + i] = sum(L(i, a) * X(a, c) * L(j, c) for a in range(m) for c in range(m))
            si += 1
    return out


def w_invariants(W, d, mnl, tol=Fr(1, 10 ** 10)):
    """documented invariants of a scaling dictionary with float entries (cvxopt matrices), judged in exact arithmetic relative
    to the norms of the factors: d > 0, d*di = 1, beta > 0, v0 > 0, v'Jv = 1, r nonsingular with r' * rti = I"""
    bad = []
    pairs = [('d', 'di')] + ([('dnl', 'dnli')] if 'dnl' in W else [])
    for a, b in pairs:
        for x, y in zip(fvec(W[a]), fvec(W[b])):
            if x <= 0:
                bad.append(a + "<=0")
            elif abs(x * y - 1) > tol:
                bad.append(a + "*" + b + "!=1")
    for k, (v, beta) in enumerate(zip(W['v'], W['beta'])):
        v = fvec(v)
        if Fr(float(beta)) <= 0:
            bad.append("beta<=0")
        if v and v[0] <= 0:
            bad.append("v0<=0")
        if v:
            j = v[0] * v[0] - sum(a * a for a in v[1:])
            if abs(j - 1) > tol * (1 + v[0] * v[0]):
                bad.append("v'Jv!=1")
    for r, rti in zip(W['r'], W['rti']):
        m = r.size[0]
        R, T = fvec(r), fvec(rti)
        nr = max([abs(a) for a in R] + [Fr(0)]) * max([abs(a) for a in T] + [Fr(0)])
        for i in range(m):
            for j in range(m):
                e = sum(R[i * m + t] * T[j * m + t] for t in range(m)) - (1 if i == j else 0)     # (r' rti)[i][j]
                if abs(e) > tol * (1 + nr) * m:
                    bad.append("r'*rti!=I")
    return sorted(set(bad))
