"""Shared check infrastructure: evidence, findings, violation reporting."""
import json, os, sys, time, hashlib

VERIF = os.path.dirname(os.path.dirname(os.path.abspath(__file__)))
EVID = os.path.join(VERIF, "evidence")
REPLAYS = os.path.join(VERIF, "replays")
FINDINGS = os.path.join(VERIF, "known_findings.json")


def load_findings():
    try:
        with open(FINDINGS) as fh:
            return json.load(fh)["findings"]
    except FileNotFoundError:
        return []


class Check(object):
    def __init__(self, pid, tier, seed, level="model_checking"):
        self.pid = pid; self.tier = tier; self.seed = seed; self.level = level
        self.t0 = time.time()
        self.states = 0; self.transitions = 0
        self.traces = 0
        self.evaluations = 0
        self.distinct = set()
        self.samples = []
        self.viol = {}          # signature -> detail
        self.known_seen = {}
        self.rule = ""
        self.assumptions = []
        self.trusted = []
        self.extra = {}
        self.tlc_runs = []
        self.drift = []
        self.machinery_errors = []
        self.findings = [f for f in load_findings() if f["property"] == pid]
        # ./check <ID> --replay <file>: the run recorded in the file (same seed, same tier) is repeated on the current tree and only the
        # recorded signature is reported
        self.replay_sig = os.environ.get("VERIF_REPLAY_SIG")

    def clean_replays(self):
        import shutil
        if self.replay_sig:
            return
        shutil.rmtree(os.path.join(REPLAYS, self.pid), ignore_errors=True)

    # --- accounting -------------------------------------------------------
    def add_tlc(self, name, r):
        self.states += r.distinct
        self.transitions += r.generated
        self.tlc_runs.append({"run": name, "distinct_states": r.distinct, "states_generated": r.generated,
                              "wall_s": round(r.wall, 2), "ok": r.ok, "violated": r.violated, "error": r.error,
                              "diameter": r.diameter})
        if r.coverage:
            self.extra.setdefault("coverage_by_action", {})[name] = r.coverage

    def require_tlc_ok(self, name, r):
        self.add_tlc(name, r)
        if r.error or (r.rc not in (0,) and not r.violated):
            self.machinery_errors.append("TLC run %s failed: %s\n%s" % (name, r.error, r.out[-3000:]))
            return False
        return True

    def sample(self, s, cap=5):
        if len(self.samples) < cap:
            self.samples.append(s)

    def nontrivial(self, key):
        self.distinct.add(key if isinstance(key, (str, int, tuple)) else json.dumps(key, sort_keys=True))

    def violation(self, signature, summary, detail=None):
        """signature: canonical 'site|class' string identifying the failing input class."""
        for f in self.findings:
            if f.get("status") == "open" and f["signature"] == signature:
                self.known_seen.setdefault(signature, {"summary": f["summary"], "count": 0})
                self.known_seen[signature]["count"] += 1
                return
        if signature not in self.viol:
            self.viol[signature] = {"summary": summary, "detail": detail, "count": 0}
        self.viol[signature]["count"] += 1

    # --- finish -------------------------------------------------------------
    def finish(self):
        # the implementation under test must have been the overlay built from the repository, never the wheel in /venv: if the build directory
        # disappeared while the check ran (another process pruned it) the children imported something else and nothing observed can be trusted
        pkg = os.environ.get("VERIF_PKG")
        if pkg and not os.path.exists(os.path.join(pkg, "cvxopt", "__init__.py")):
            self.machinery_errors.append("the overlay build %s vanished while the check was running" % pkg)
        if self.replay_sig:
            for m in self.machinery_errors:
                sys.stderr.write("MACHINERY ERROR: " + m + "\n")
            if self.machinery_errors:
                sys.exit(2)
            v = self.viol.get(self.replay_sig)
            if v:
                print("VIOLATION property=%s replay=%s  # %s [%s] x%d" % (self.pid, os.environ.get("VERIF_REPLAY_FILE", ""), v["summary"], self.replay_sig, v["count"]))
                sys.exit(1)
            k = self.known_seen.get(self.replay_sig)
            if k:
                print("KNOWN-FINDING: property=%s %s [%s] (seen %d times)" % (self.pid, k["summary"], self.replay_sig, k["count"]))
            print("replay %s: [%s] not reproduced on this tree (seed %s, tier %s)" % (self.pid, self.replay_sig, self.seed, self.tier))
            sys.exit(0)
        os.makedirs(EVID, exist_ok=True)
        wall = time.time() - self.t0
        cov = {
            "states": self.states, "transitions": self.transitions,
            "traces_validated_against_impl": self.traces,
            "evaluations": self.evaluations,
            "distinct_nontrivial": len(self.distinct),
            "rule": self.rule,
            "samples": self.samples if self.samples else ["(none recorded)"],
            "tlc_runs": self.tlc_runs,
            "trusted_base": self.trusted,
            "known_findings_seen": self.known_seen,
            "drift": self.drift[:20],
        }
        cov.update(self.extra)
        ev = {"property_id": self.pid, "tier": self.tier, "seed": self.seed, "level": self.level,
              "coverage": cov, "assumptions": self.assumptions, "wall_s": round(wall, 2),
              "violations": len(self.viol)}
        if self.machinery_errors:
            ev["coverage"]["machinery_errors"] = [m[:2000] for m in self.machinery_errors]
        with open(os.path.join(EVID, self.pid + ".json"), "w") as fh:
            json.dump(ev, fh, indent=1, sort_keys=True, default=str)
        for sig, k in sorted(self.known_seen.items()):
            print("KNOWN-FINDING: property=%s %s [%s] (seen %d times)" % (self.pid, k["summary"], sig, k["count"]))
        if self.machinery_errors:
            for m in self.machinery_errors:
                sys.stderr.write("MACHINERY ERROR: " + m + "\n")
            print("check %s: machinery failure" % self.pid)
            sys.exit(2)
        if self.viol:
            d = os.path.join(REPLAYS, self.pid)
            os.makedirs(d, exist_ok=True)
            for sig, v in sorted(self.viol.items()):
                name = hashlib.sha1(sig.encode()).hexdigest()[:12] + ".json"
                path = os.path.join(d, name)
                with open(path, "w") as fh:
                    json.dump({"property": self.pid, "signature": sig, "summary": v["summary"],
                               "count": v["count"], "detail": v["detail"], "seed": self.seed, "tier": self.tier},
                              fh, indent=1, default=str)
                print("VIOLATION property=%s replay=%s  # %s [%s] x%d" % (self.pid, path, v["summary"], sig, v["count"]))
            sys.exit(1)
        print("check %s (%s): OK  states=%d transitions=%d traces=%d evaluations=%d distinct=%d wall=%.1fs" % (
            self.pid, self.tier, self.states, self.transitions, self.traces, self.evaluations, len(self.distinct), wall))
        sys.exit(0)


def pmap(ck, func, jobs, what, timeout=900, procs=16, chunksize=1, ctx=None):
    """multiprocessing map with a wall-clock limit.  Jobs that have not finished at the deadline (non-termination of the
    implementation under test, or a worker killed by a signal) are reported as a violation '<what>|hang-or-crash'; the results
    of all finished jobs are returned (in job order, unfinished ones dropped), so the check still judges everything else."""
    import multiprocessing as mp, time
    c = mp.get_context(ctx) if ctx else mp
    pool = c.Pool(procs)
    try:
        asyncs = [pool.apply_async(func, (j,)) for j in jobs]
        deadline = time.time() + timeout
        out, hung = [], []
        for k, a in enumerate(asyncs):
            try:
                out.append(a.get(timeout=max(0.1, deadline - time.time())))
            except mp.TimeoutError:
                hung.append(k)
        if hung:
            ck.violation("%s|hang-or-crash" % what, "%s: %d of %d jobs did not finish within %d s (non-termination of the implementation, "
                         "or a crashed worker); first: %s" % (what, len(hung), len(jobs), timeout, repr(jobs[hung[0]])[:400]),
                         {"hung_jobs": [repr(jobs[k])[:2000] for k in hung[:5]]})
        return out
    finally:
        pool.terminate()
