"""Drives planted instances through the real solvers under the recorder and
computes the certificate (alpha) of every result."""
import math
from fractions import Fraction as Fr
import cvxopt
from cvxopt import matrix, spmatrix, sparse, solvers, misc
from harness import alpha, solverrec

DEFAULTS = {"maxiters": 100, "abstol": 1e-7, "reltol": 1e-6, "feastol": 1e-7}


def mat(cols, nrows, storage="dense"):
    """list of columns -> cvxopt matrix"""
    n = len(cols)
    M = matrix(0.0, (nrows, n))
    for j, col in enumerate(cols):
        for i, v in enumerate(col):
            M[i, j] = float(v)
    if storage == "sparse":
        return sparse(M)
    return M


def vec(v):
    return matrix([float(a) for a in v], (len(v), 1), 'd')


def problem(I, storage="dense"):
    d = I["dims"]
    K = alpha.cdim_of(d)
    c = vec(I["c"])
    G = mat(I["G"], K, storage)
    h = vec(I["h"])
    A = mat(I["A"], I["p"], storage)
    b = vec(I["b"])
    dims = {"l": d["l"], "q": list(d["q"]), "s": list(d["s"])}
    P = None
    if "R" in I:
        k = len(I["R"][0]) if I["n"] else 0
        R = mat(I["R"], k)
        P = R.T * R if k else matrix(0.0, (I["n"], I["n"]))
        if storage == "sparse":
            P = sparse(P)
    return c, G, h, dims, A, b, P


def eff_options(opts):
    o = dict(DEFAULTS)
    if opts:
        o.update({k: v for k, v in opts.items() if k in o})
    return o


def bounds_of(I):
    """exact weak-duality bounds from the planted witnesses (solvable plants): lo <= p* <= hi"""
    if I["kind"] != "solvable":
        return None
    w = alpha.wt(I["dims"])
    x0, z0, y0 = I["x0"], I["z0"], I["y0"]
    if "R" in I:
        k = len(I["R"][0]) if I["n"] else 0
        Rx = [sum(I["R"][j][r] * x0[j] for j in range(I["n"])) for r in range(k)]
        hi = Fr(sum(a * a for a in Rx), 2) + sum(a * b for a, b in zip(I["c"], x0))
        lo = hi - sum(wi * a * b for wi, a, b in zip(w, I["s0"], z0))
        return lo, hi
    hi = Fr(sum(a * b for a, b in zip(I["c"], x0)))
    lo = Fr(-(sum(wi * a * b for wi, a, b in zip(w, I["h"], z0)) + sum(a * b for a, b in zip(I["b"], y0))))
    return lo, hi


def starts_of(I, which):
    """valid user start points derived from the plant"""
    ps = ds = None
    if which in ("primal", "both") and I["kind"] in ("solvable", "dinf"):
        ps = {"x": vec(I["x0"]), "s": vec(I["s0"])}
    if which in ("dual", "both") and I["kind"] in ("solvable",):
        ds = {"y": vec(I["y0"]), "z": vec(I["z0"])}
    return ps, ds


def _stack(parts):
    out = []
    for p in parts:
        out += list(p)
    return matrix(out, (len(out), 1), 'd') if out else matrix(0.0, (0, 1))


def run_conelp(I, entry="conelp", kktsolver=None, storage="dense", starts="none", options=None, fault=None,
               check_w=None, solver=None, truth=True):
    """returns (trace, info)"""
    c, G, h, dims, A, b, _ = problem(I, storage)
    o = eff_options(options)
    kw = {}
    if options is not None:
        kw["options"] = dict(options, show_progress=False)
    else:
        kw["options"] = {"show_progress": False}
    if kktsolver is not None:
        kw["kktsolver"] = kktsolver
    ps, ds = starts_of(I, starts)
    if ps is not None:
        kw["primalstart"] = ps
    if ds is not None:
        kw["dualstart"] = ds
    if solver is not None:
        kw["solver"] = solver
        kw["options"] = dict(kw["options"], glpk={"msg_lev": "GLP_MSG_OFF"})
    l, q, s = dims["l"], dims["q"], dims["s"]
    if entry == "conelp":
        fn, args = solvers.conelp, (c, G, h, dims, A, b)
        kw2 = dict(kw)
    elif entry == "lp":
        fn, args, kw2 = solvers.lp, (c, G, h, A, b), dict(kw)
    elif entry == "socp":
        Gl, hl = G[:l, :], h[:l]
        Gq, hq, k = [], [], l
        for m in q:
            Gq.append(G[k:k + m, :]); hq.append(h[k:k + m]); k += m
        kw2 = dict(kw)
        if ps is not None:
            kw2["primalstart"] = {"x": ps["x"], "sl": ps["s"][:l], "sq": _split(ps["s"], l, q)}
        if ds is not None:
            kw2["dualstart"] = {"y": ds["y"], "zl": ds["z"][:l], "zq": _split(ds["z"], l, q)}
        fn, args = solvers.socp, (c, Gl, hl, Gq, hq, A, b)
    elif entry == "sdp":
        Gl, hl = G[:l, :], h[:l]
        Gs, hs, k = [], [], l
        for m in s:
            Gs.append(G[k:k + m * m, :]); hs.append(matrix(h[k:k + m * m], (m, m))); k += m * m
        kw2 = dict(kw)
        if ps is not None:
            kw2["primalstart"] = {"x": ps["x"], "sl": ps["s"][:l], "ss": _splits(ps["s"], l, s)}
        if ds is not None:
            kw2["dualstart"] = {"y": ds["y"], "zl": ds["z"][:l], "zs": _splits(ds["z"], l, s)}
        fn, args = solvers.sdp, (c, Gl, hl, Gs, hs, A, b)
    else:
        raise ValueError(entry)
    events, res, exc, rec = solverrec.record(entry, fn, args, kw2, o["maxiters"], bothstarts=(ps is not None and ds is not None),
                                             truth=(I["kind"] if truth else "none"), fault=fault, check_w=check_w)
    cert, det = {"_": True}, {}
    if res is not None:
        sol = dict(res)
        split_ok = True
        if entry == "socp":
            split_ok = _shapes_ok(res, "sl", "sq", l, q, False) and _shapes_ok(res, "zl", "zq", l, q, False)
            sol["s"] = None if res["sl"] is None else _stack([res["sl"]] + list(res["sq"]))
            sol["z"] = None if res["zl"] is None else _stack([res["zl"]] + list(res["zq"]))
        elif entry == "sdp":
            split_ok = _shapes_ok(res, "sl", "ss", l, s, True) and _shapes_ok(res, "zl", "zs", l, s, True)
            sol["s"] = None if res["sl"] is None else _stack([res["sl"]] + [m[:] for m in res["ss"]])
            sol["z"] = None if res["zl"] is None else _stack([res["zl"]] + [m[:] for m in res["zs"]])
        pr = alpha.ConeProblem(c, G, h, dims, A, b)
        try:
            cert, det = alpha.conelp_cert(pr, sol, o, bounds=bounds_of(I) if truth else None)
        except Exception as e:      # a malformed result dictionary is itself a finding: no certificate at all
            cert, det = {"_": True}, {"alpha_error": repr(e)}
        cert["split_ok"] = bool(split_ok)
        cert["_"] = True
        if solver == "glpk" and res["status"] in ("primal infeasible", "dual infeasible"):
            # documented: with the GLPK option all entries of the result are None for these statuses
            cert["glpk_all_none"] = all(v is None for k, v in res.items() if k != "status")
    trace = solverrec.finish_trace(events, res, exc, cert)
    info = {"status": None if res is None else res["status"], "exc": None if exc is None else repr(exc),
            "nf": rec.nf, "ns": rec.ns, "det": det, "res": res, "rec": rec}
    return trace, info


def _split(v, l, q):
    out, k = [], l
    for m in q:
        out.append(v[k:k + m]); k += m
    return out


def _splits(v, l, s):
    out, k = [], l
    for m in s:
        out.append(matrix(v[k:k + m * m], (m, m))); k += m * m
    return out


def _shapes_ok(res, kl, kb, l, blocks, square):
    if res[kl] is None:
        return res[kb] is None
    if res[kl].size != (l, 1):
        return False
    if len(res[kb]) != len(blocks):
        return False
    for m, B in zip(blocks, res[kb]):
        if B.size != ((m, m) if square else (m, 1)):
            return False
    return True


def run_coneqp(I, entry="coneqp", kktsolver=None, storage="dense", initvals=None, options=None, fault=None,
               check_w=None, truth=True, junk_upper=False):
    c, G, h, dims, A, b, P = problem(I, storage)
    q = c
    o = eff_options(options)
    kw = {"options": dict(options or {}, show_progress=False)}
    if kktsolver is not None:
        kw["kktsolver"] = kktsolver
    iv = None
    if initvals:
        iv = {}
        src = {"x": I["x0"], "s": I["s0"], "y": I["y0"], "z": I["z0"]}
        for k in initvals:
            iv[k] = vec(src[k])
        kw["initvals"] = iv
    Pc = P
    if junk_upper:
        Pc = matrix(P) if isinstance(P, spmatrix) else +P
        n = I["n"]
        for j in range(n):
            for i in range(j):
                Pc[i, j] = 77.0
        if storage == "sparse":
            Pc = sparse(Pc)
    if entry == "coneqp":
        fn, args = solvers.coneqp, (Pc, q, G, h, dims, A, b)
    else:
        fn, args = solvers.qp, (Pc, q, G, h, A, b)
    events, res, exc, rec = solverrec.record(entry, fn, args, kw, o["maxiters"], bothstarts=bool(iv), truth=(I["kind"] if truth else "none"),
                                             fault=fault, check_w=check_w)
    cert, det = {"_": True}, {}
    if res is not None:
        # the certificate reads P from its LOWER triangle only (documented); junk above the diagonal must not matter
        Pl = matrix(Pc) if isinstance(Pc, spmatrix) else +Pc
        for j in range(I["n"]):
            for i in range(j):
                Pl[i, j] = Pl[j, i]
        pr = alpha.ConeProblem(q, G, h, dims, A, b, P=Pl)
        try:
            cert, det = alpha.coneqp_cert(pr, alpha.fvec(q), res, o, bounds=bounds_of(I) if truth else None)
        except Exception as e:
            cert, det = {"_": True}, {"alpha_error": repr(e)}
        cert["split_ok"] = True
        cert["_"] = True
    trace = solverrec.finish_trace(events, res, exc, cert)
    info = {"status": None if res is None else res["status"], "exc": None if exc is None else repr(exc),
            "nf": rec.nf, "ns": rec.ns, "det": det, "res": res, "rec": rec}
    return trace, info


# ---------------------------------------------------------------------------
# nonlinear solvers
# ---------------------------------------------------------------------------
def run_nl(case, entry="cp", kktsolver=None, storage="dense", options=None, fault=None, check_w=None, truth=True,
           sparse_F=False):
    """case: dict with 'fam' (nlfam object), 'lin' (planted instance used for G,h,dims,A,b; may be None), 'c' (cpl only)
    entry: 'cp' | 'cpl' | 'gp'"""
    from harness import nlfam
    from cvxopt import solvers
    fam = case["fam"]
    fam.calls = []
    I = case.get("lin")
    n = fam.n
    o = eff_options(options)
    kw = {"options": dict(options or {}, show_progress=False)}
    if kktsolver is not None:
        kw["kktsolver"] = kktsolver
    if I is not None:
        c_, G, h, dims, A, b, _ = problem(I, storage)
    else:
        G, h, dims = matrix(0.0, (0, n)), matrix(0.0, (0, 1)), {"l": 0, "q": [], "s": []}
        A, b = matrix(0.0, (0, n)), matrix(0.0, (0, 1))
        if storage == "sparse":
            G, A = sparse(G), sparse(A)
    if entry == "cpl":
        c = vec(case["c"])
        F = fam.make_F(first=case.get("first", 1), sparse_out=sparse_F)
        fn, args = solvers.cpl, (c, F, G, h, dims, A, b)
        mode, first = "cpl", case.get("first", 1)
    elif entry == "cp":
        c = matrix(0.0, (n, 1))
        F = fam.make_F(first=0, sparse_out=sparse_F)
        fn, args = solvers.cp, (F, G, h, dims, A, b)
        mode, first = "cp", 0
    else:
        c = matrix(0.0, (n, 1))
        Fm = matrix([[float(fam.Fm[r][j]) for r in range(sum(fam.K))] for j in range(n)])
        g = vec(fam.g)
        if storage == "sparse":
            Fm = sparse(Fm)
        fn, args = solvers.gp, (list(fam.K), Fm, g, G, h, A, b)
        mode, first = "cp", 0
    events, res, exc, rec = solverrec.record(entry, fn, args, kw, o["maxiters"], bothstarts=False,
                                             truth=("solvable" if truth else "none"), fault=fault, check_w=check_w)
    cert, det = {"_": True}, {}
    iters = rec.raw_iters[-1]["iters"] if rec.raw_iters else 0
    if res is not None:
        pr = alpha.ConeProblem(c, G, h, dims, A, b)
        try:
            cert, det = alpha.cpl_cert(fam, mode, c, pr, res, o, first)
        except Exception as e:
            cert, det = {"_": True}, {"alpha_error": repr(e)}
        cert["_"] = True
    trace = solverrec.finish_trace(events, res, exc, cert, iters=iters)
    info = {"status": None if res is None else res["status"], "exc": None if exc is None else repr(exc),
            "nf": rec.nf, "ns": rec.ns, "det": det, "res": res, "rec": rec, "refused": getattr(fam, "refused", 0),
            "ls": rec.ls}
    return trace, info


def chol2_first_factor_detects(I, storage):
    """Would the first Cholesky factorisation of kkt_chol2 (S = P + G'G, identity scaling) raise ArithmeticError on this
    exactly singular S?  Same library calls as the code under test, same data: a deterministic classification of the input."""
    from cvxopt import lapack, cholmod, base
    c, G, h, dims, A, b, P = problem(I, storage)
    n = I["n"]
    try:
        if storage == "dense" or isinstance(G, matrix):
            S = matrix(0.0, (n, n))
            base.syrk(matrix(G), S, trans='T')
            if P is not None:
                S += matrix(P)
            lapack.potrf(S)
        else:
            S = spmatrix([], [], [], (n, n), 'd')
            base.syrk(G, S, trans='T')
            if P is not None:
                S += P
            F = cholmod.symbolic(S)
            cholmod.numeric(S, F)
        return False
    except ArithmeticError:
        return True
