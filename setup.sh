#!/bin/bash
# offline setup: verify the tools, byte-compile the harness, warm the overlay builds of /repo
set -e
cd "$(dirname "$0")"
command -v java >/dev/null && test -f /opt/veriftools/tla/tla2tools.jar
/venv/bin/python -m compileall -q harness >/dev/null
/venv/bin/python harness/build.py >/dev/null
/venv/bin/python harness/build.py --guard >/dev/null
mkdir -p evidence .work
echo "setup ok"
