#!/bin/bash
# offline setup: verify the tools, byte-compile the harness, warm the overlay builds of /repo
set -e
cd "$(dirname "$0")"
command -v java >/dev/null && test -f /opt/veriftools/tla/tla2tools.jar
/venv/bin/python -m compileall -q harness >/dev/null
/venv/bin/python harness/build.py >/dev/null
/venv/bin/python harness/build.py --guard >/dev/null
mkdir -p evidence .work
# numpy (offline wheelhouse) as a producer / consumer of the buffer protocol for C20; installed under .deps, never into /venv
if [ ! -d .deps/numpy ]; then
  /venv/bin/pip install -q --no-index --find-links /opt/veriftools/wheels --target .deps numpy >/dev/null
fi
echo "setup ok"
