------------------------------- MODULE ConeLP -------------------------------
(***************************************************************************)
(* Faithful control model of cvxopt.coneprog.conelp (coneprog.py): one     *)
(* action per KKT factorisation / KKT solve / iteration top / return, in    *)
(* the order the code performs them, with the exception handling the code   *)
(* has at each site.  It drives the variables of SolverContract through     *)
(* the contract's own actions, so every behaviour of this module is a       *)
(* behaviour of the contract and the contract's invariants (C01, C02, C10)  *)
(* are checked on it directly.                                              *)
(*                                                                          *)
(* Environment choices (nondeterministic): which start points the caller    *)
(* gives, the stopping predicates at every iteration top, whether the       *)
(* constructed start point happens to be optimal (shortcut), and WHERE a    *)
(* KKT call fails (at most MaxFaults failures).                             *)
(*                                                                          *)
(* F6Guarded = FALSE models the code before the repair (the two f6 solves   *)
(* of an iteration were outside the try block): TLC then reports the        *)
(* violation of Contained.                                                  *)
(***************************************************************************)
EXTENDS SolverContract

CONSTANTS MaxIters, Refinement, MaxFaults, F6Guarded

VARIABLES pc, startP, startD, j, nfaults, fclass
\* fclass: <<phase, kind, position of the failing call among the KKT calls since the last iteration top>>
fvars == <<pc, startP, startD, j, nfaults, fclass>>
allvars == <<cvars, fvars>>

Bool == {TRUE, FALSE}
Preds == [feas : Bool, gap : Bool, pinf : Bool, dinf : Bool]
GoodCert(st) ==
    CASE st = "optimal" -> [pres_ok |-> TRUE, dres_ok |-> TRUE, s_in_cone |-> TRUE, z_in_cone |-> TRUE, gap_ok |-> TRUE,
                            fields_ok |-> TRUE, split_ok |-> TRUE, objective_in_bounds |-> TRUE]
      [] st = "unknown" -> [s_interior |-> TRUE, z_interior |-> TRUE, fields_ok |-> TRUE, near_1e5 |-> TRUE]
      [] st = "primal infeasible" -> [xs_none |-> TRUE, z_in_cone |-> TRUE, hzby_minus1 |-> TRUE, pinfres_ok |-> TRUE, fields_ok |-> TRUE]
      [] st = "dual infeasible" -> [yz_none |-> TRUE, s_in_cone |-> TRUE, cx_minus1 |-> TRUE, dinfres_ok |-> TRUE, fields_ok |-> TRUE]

Init == /\ CInit
        /\ pc = "validate" /\ startP \in Bool /\ startD \in Bool /\ j = 0 /\ nfaults = 0
        /\ fclass = <<"none", "none", 0>>

\* one KKT call of the given kind at position j; ok or (if the fault budget allows) failing
KktCall(kind, ok) ==
    /\ (ok \/ nfaults < MaxFaults)
    /\ Kkt(kind, ok, TRUE)
    /\ nfaults' = IF ok THEN nfaults ELSE nfaults + 1
    /\ fclass' = IF ~ok /\ nfaults = 0 THEN <<Phase, kind, j>> ELSE fclass
    /\ j' = j + 1

Validate ==
    /\ pc = "validate"
    /\ Start([solver |-> "conelp", maxiters |-> MaxIters, bothstarts |-> (startP /\ startD), truth |-> "none"])
    /\ pc' = IF startP /\ startD THEN "itertop" ELSE "initfactor"
    /\ UNCHANGED <<startP, startD, j, nfaults, fclass>>

\* coneprog.py "if primalstart is None or dualstart is None: ... try: f = kktsolver(W) except ArithmeticError: raise ValueError"
InitFactor(ok) ==
    /\ pc = "initfactor" /\ KktCall("factor", ok)
    /\ pc' = IF ~ok THEN "raise_ve" ELSE IF ~startP THEN "initp" ELSE "initd"
    /\ UNCHANGED <<startP, startD>>
InitSolveP(ok) ==
    /\ pc = "initp" /\ KktCall("solve", ok)
    /\ pc' = IF ~ok THEN "raise_ve" ELSE IF ~startD THEN "initd" ELSE "itertop"
    /\ UNCHANGED <<startP, startD>>
InitSolveD(ok) ==
    /\ pc = "initd" /\ KktCall("solve", ok)
    /\ pc' = IF ~ok THEN "raise_ve" ELSE IF ~startP /\ ~startD THEN "shortcut" ELSE "itertop"
    /\ UNCHANGED <<startP, startD>>

\* both start points were constructed and happen to be optimal: return before the first iteration
Shortcut(taken) ==
    /\ pc = "shortcut"
    /\ IF taken THEN /\ Return("optimal", 0, GoodCert("optimal")) /\ pc' = "done"
                ELSE /\ pc' = "itertop" /\ UNCHANGED cvars
    /\ UNCHANGED <<startP, startD, j, nfaults, fclass>>

IterTop(p) ==
    /\ pc = "itertop"
    /\ Iter(IF sawIter THEN iters + 1 ELSE 0, p)
    /\ pc' = "decide" /\ j' = 0
    /\ UNCHANGED <<startP, startD, nfaults, fclass>>

Decision(p, k) == IF k = MaxIters THEN "unknown"
                  ELSE IF p.feas /\ p.gap THEN "optimal"
                  ELSE IF p.pinf THEN "primal infeasible"
                  ELSE IF p.dinf THEN "dual infeasible" ELSE "continue"
Decide ==
    /\ pc = "decide"
    /\ LET d == Decision(lastPreds, iters) IN
       IF d = "continue" THEN pc' = "factor" /\ UNCHANGED cvars
       ELSE Return(d, iters, GoodCert(d)) /\ pc' = "done"
    /\ UNCHANGED <<startP, startD, j, nfaults, fclass>>

\* the handler of the try block around kktsolver(W) and the first f3 solve (coneprog.py)
Handler == IF iters = 0 /\ startP /\ startD THEN "raise_ve" ELSE "ret_unknown"

Factor(ok) ==
    /\ pc = "factor" /\ KktCall("factor", ok)
    /\ pc' = IF ok THEN "solve1" ELSE Handler
    /\ UNCHANGED <<startP, startD>>
SolveFirst(ok) ==
    /\ pc = "solve1" /\ KktCall("solve", ok)
    /\ pc' = IF ok THEN "f6" ELSE Handler
    /\ UNCHANGED <<startP, startD>>
\* the affine-scaling and the corrector step: 2 calls of f6, each (1 + Refinement) KKT solves
F6Solve(ok) ==
    /\ pc = "f6" /\ KktCall("solve", ok)
    /\ pc' = IF ~ok THEN (IF F6Guarded THEN Handler ELSE "escape")
             ELSE IF j + 1 = 2 + 2 * (1 + Refinement) THEN "update" ELSE "f6"
    /\ UNCHANGED <<startP, startD>>
Update ==
    /\ pc = "update" /\ pc' = "itertop"
    /\ UNCHANGED <<cvars, startP, startD, j, nfaults, fclass>>

RaiseVE   == pc = "raise_ve" /\ Raise("ValueError") /\ pc' = "done" /\ UNCHANGED <<startP, startD, j, nfaults, fclass>>
RetUnknown == pc = "ret_unknown" /\ Return("unknown", iters, GoodCert("unknown")) /\ pc' = "done"
              /\ UNCHANGED <<startP, startD, j, nfaults, fclass>>
\* named deviation (code before the repair): the ArithmeticError of an f6 solve leaves conelp
SolveFaultEscapes == pc = "escape" /\ Raise("ArithmeticError") /\ pc' = "done" /\ UNCHANGED <<startP, startD, j, nfaults, fclass>>

Next == \/ Validate \/ Decide \/ Update \/ RaiseVE \/ RetUnknown \/ SolveFaultEscapes
        \/ \E ok \in Bool : InitFactor(ok) \/ InitSolveP(ok) \/ InitSolveD(ok) \/ Factor(ok) \/ SolveFirst(ok) \/ F6Solve(ok)
        \/ \E t \in Bool : Shortcut(t)
        \/ \E p \in Preds : IterTop(p)
Spec == Init /\ [][Next]_allvars

\* design-level invariants of the faithful model
PcOK == pc \in {"validate", "initfactor", "initp", "initd", "shortcut", "itertop", "decide", "factor", "solve1", "f6",
                "update", "raise_ve", "ret_unknown", "escape", "done"}
ItersBounded == iters <= MaxIters
Terminates == pc = "done" <=> phase = "done"
\* the faithful model is precise about iteration-0 faults: ValueError iff both start points were given
Iter0Rule == Done /\ pending /\ faultPhase = "iter0" =>
                 IF startP /\ startD THEN outcome.kind = "raise" ELSE (outcome.kind = "return" /\ Status = "unknown")
\* set of fault classes (for coverage accounting in the binding)
FaultClass == fclass
=============================================================================
