---------------------------- MODULE MC_BlasClamp ----------------------------
(* C19: the accept / reject decision of the BLAS wrappers for argument values near 2^31.  The buffers of the generated calls have fewer than
   1000 cells, so every footprint computed from an integer argument beyond 10000 in absolute value exceeds them exactly as the true value does:
   the call is evaluated with such arguments clamped to +-10000 (TLC's integers are 32 bits; the wrapper's own arithmetic must not overflow
   either - that is the property).  Only the verdict and the unchanged buffers of rejected calls are used. *)
EXTENDS Blas, Json, IOUtils

Cases == JsonDeserialize(IOEnv.CASE_FILE)
IntKeys == {"n", "m", "k", "kl", "ku", "inc", "incx", "incy", "offset", "offsetx", "offsety", "offsetA", "offsetB", "offsetC", "ldA", "ldB", "ldC"}
Cl(v) == IF v > 10000 THEN 10000 ELSE IF v < -10000 THEN -10000 ELSE v
Clamp(c) == [c EXCEPT !.a = [k \in DOMAIN c.a |-> IF k \in IntKeys THEN Cl(c.a[k]) ELSE c.a[k]]]
Out(c) == LET r == Run(Clamp(c)) IN [v |-> r.v, ret |-> r.ret, out |-> [nm \in DOMAIN r.out |-> r.out[nm].d]]
ASSUME JsonSerialize(IOEnv.OUT_FILE, [res |-> [i \in 1..Len(Cases) |-> Out(Cases[i])]])

VARIABLE dummy
Init == dummy = 0
Next == UNCHANGED dummy
Spec == Init /\ [][Next]_dummy
=============================================================================
