---------------------------- MODULE MC_BlasClamp ----------------------------
(* C19: the accept / reject decision of the BLAS wrappers for argument values near 2^31.  The buffers of the generated calls have fewer than
   1000 cells, so every footprint computed from an integer argument beyond 10000 in absolute value exceeds them exactly as the true value does:
   the call is evaluated with such arguments compressed (see below) (TLC's integers are 32 bits; the wrapper's own arithmetic must not overflow
   either - that is the property).  Only the verdict and the unchanged buffers of rejected calls are used. *)
EXTENDS Blas, Json, IOUtils, FiniteSets

Cases == JsonDeserialize(IOEnv.CASE_FILE)
IntKeys == {"n", "m", "k", "kl", "ku", "inc", "incx", "incy", "offset", "offsetx", "offsety", "offsetA", "offsetB", "offsetC", "ldA", "ldB", "ldC"}
\* Three compressions of the integers beyond 10000: flat, order preserving, and order preserving with the leading dimensions dominating every other
\* argument.  A relation BETWEEN two huge arguments (kl + ku + 1 <= ldA, ...) is not preserved by a compression, so the call is "err" only when all
\* three agree, "ok" only when all three agree, and "undecided" (not judged) otherwise.
Abs_(v) == IF v < 0 THEN -v ELSE v
Keys(c) == IntKeys \cap DOMAIN c.a
Bigs(c) == {Abs_(c.a[k]) : k \in {q \in Keys(c) : Abs_(c.a[q]) > 10000}}
Rank(v, c) == Cardinality({w \in Bigs(c) : w <= v})
Sg(v) == IF v < 0 THEN -1 ELSE 1
Cl(v, k, c, scheme) ==
    IF Abs_(v) <= 10000 THEN v
    ELSE IF scheme = 1 THEN Sg(v) * 10000
    ELSE IF scheme = 3 /\ k \in {"ldA", "ldB", "ldC"} THEN Sg(v) * (100000 + 1000 * Rank(Abs_(v), c))
    ELSE Sg(v) * (10000 + 1000 * Rank(Abs_(v), c))
Clamp(c, scheme) == [c EXCEPT !.a = [k \in DOMAIN c.a |-> IF k \in IntKeys THEN Cl(c.a[k], k, c, scheme) ELSE c.a[k]]]
Out(c) == LET r == Run(Clamp(c, 1))
              multi == Cardinality({q \in Keys(c) : Abs_(c.a[q]) > 10000}) >= 2
              v2 == IF multi THEN Run(Clamp(c, 2)).v ELSE r.v
              v3 == IF multi THEN Run(Clamp(c, 3)).v ELSE r.v
              v == IF r.v = v2 /\ v2 = v3 THEN r.v ELSE "undecided"
          IN [v |-> v, ret |-> r.ret, out |-> [nm \in DOMAIN r.out |-> r.out[nm].d]]
ASSUME JsonSerialize(IOEnv.OUT_FILE, [res |-> [i \in 1..Len(Cases) |-> Out(Cases[i])]])

VARIABLE dummy
Init == dummy = 0
Next == UNCHANGED dummy
Spec == Init /\ [][Next]_dummy
=============================================================================
