---------------------------- MODULE SolverThreads ----------------------------
(***************************************************************************)
(* Concurrency model for C09: two solver calls run in two threads while a   *)
(* third thread rewrites the global options dictionary.  A call reads its   *)
(* options once at entry (one atomic read per key), then works on private   *)
(* state only, then returns a result that is a function of the problem and  *)
(* of the option values it read.                                            *)
(*                                                                          *)
(* Assumptions about the code, both checked by the binding:                 *)
(*   A1  options are read only before the first KKT call                    *)
(*   A2  a call writes no shared location                                   *)
(* TLC explores all interleavings.  Isolation: a call that passes its own   *)
(* options dictionary returns the sequential result whatever the writer     *)
(* does; a call that relies on the global dictionary returns the result for *)
(* one of the values the global had during the call (no other value).       *)
(***************************************************************************)
EXTENDS Integers, Sequences, FiniteSets, TLC

Callers == {"t1", "t2"}
Vals == {"A", "B"}                 \* two settings of an option
CONSTANTS UsePer                   \* UsePer[c] \in BOOLEAN: caller c passes options=
OwnVal(c) == IF c = "t1" THEN "A" ELSE "B"

VARIABLES global, pc, seen, nread, result, history
\* history: set of values the global dictionary has had since the beginning
vars == <<global, pc, seen, nread, result, history>>
NKeys == 2                          \* each call reads two keys, one atomic step each

Init == /\ global = "A" /\ pc = [c \in Callers |-> "enter"] /\ seen = [c \in Callers |-> <<>>]
        /\ nread = [c \in Callers |-> 0] /\ result = [c \in Callers |-> "none"] /\ history = {"A"}

Write(v) == /\ global' = v /\ history' = history \cup {v}
            /\ UNCHANGED <<pc, seen, nread, result>>

ReadOption(c) == /\ pc[c] = "enter" /\ nread[c] < NKeys
                 /\ seen' = [seen EXCEPT ![c] = Append(@, IF UsePer[c] THEN OwnVal(c) ELSE global)]
                 /\ nread' = [nread EXCEPT ![c] = @ + 1]
                 /\ pc' = [pc EXCEPT ![c] = IF nread[c] + 1 = NKeys THEN "work" ELSE "enter"]
                 /\ UNCHANGED <<global, result, history>>
Work(c) == /\ pc[c] = "work" /\ pc' = [pc EXCEPT ![c] = "return"]
           /\ UNCHANGED <<global, seen, nread, result, history>>
Return(c) == /\ pc[c] = "return" /\ pc' = [pc EXCEPT ![c] = "done"]
             /\ result' = [result EXCEPT ![c] = seen[c]]        \* the result is a function of the options read
             /\ UNCHANGED <<global, seen, nread, history>>

Next == \/ \E v \in Vals : Write(v)
        \/ \E c \in Callers : ReadOption(c) \/ Work(c) \/ Return(c)
Spec == Init /\ [][Next]_vars

\* C09: a call with per-call options gets the sequential result
Isolation == \A c \in Callers : pc[c] = "done" /\ UsePer[c] => result[c] = <<OwnVal(c), OwnVal(c)>>
\* a call relying on the global dictionary only ever sees values the dictionary really had
NoThinAir == \A c \in Callers : pc[c] = "done" => \A i \in 1..Len(result[c]) : result[c][i] \in history \cup {OwnVal(c)}
\* calls never write the shared dictionary
CallersDoNotWrite == [][(\E c \in Callers : ReadOption(c) \/ Work(c) \/ Return(c)) => global' = global]_vars
\* (expected to be VIOLATED when UsePer[c] = FALSE: relying on the global dictionary while it is rewritten is racy)
GlobalReadersSequential == \A c \in Callers : pc[c] = "done" /\ ~UsePer[c] => result[c][1] = result[c][2]
=============================================================================
