---------------------------------- MODULE Blas ----------------------------------
(***************************************************************************)
(* The routines of cvxopt.blas (C17): argument defaults, accept / reject,   *)
(* addressed footprint and reference result, written from the docstrings in *)
(* src/C/blas.c / doc/source/blas.rst.                                      *)
(*                                                                          *)
(* A call c is  [f |-> routine, tc |-> "d" | "z",                           *)
(*               b |-> [A |-> [nr, nc, d], x |-> ..., ...]   the buffers    *)
(*               a |-> [n |-> ..., incx |-> ..., trans |-> ..., ...]]       *)
(* d is the whole buffer in storage order (len = nr * nc) as a sequence of  *)
(* <<re, im>> pairs of integers (im = 0 for 'd'); an omitted integer        *)
(* argument is D (999), an omitted scalar <<D, D>>.                         *)
(*                                                                          *)
(* Run(c) = [v |-> "ok" | "err" | "either", out |-> buffers after the call, *)
(*           ret |-> returned number as <<re, im>> (<<0, 0>> if none)]      *)
(*   "err"    the arguments are rejected (TypeError / ValueError) and every *)
(*            buffer is unchanged,                                          *)
(*   "ok"     the call performs the reference operation on exactly the      *)
(*            addressed cells (everything else in out is unchanged),        *)
(*   "either" nothing is addressed (a zero dimension makes the call return  *)
(*            immediately) and some other argument is invalid: the          *)
(*            documentation does not say which check comes first; the       *)
(*            buffers are unchanged in both cases.                          *)
(***************************************************************************)
EXTENDS Integers, Sequences, FiniteSets, TLC

D == 999
DD == <<D, D>>
Eager(q) == SubSeq(q, 1, Len(q))
Abs(k) == IF k < 0 THEN -k ELSE k
Max(a, b) == IF a >= b THEN a ELSE b
Min(a, b) == IF a <= b THEN a ELSE b

(******************************* numbers *********************************)
Z0 == <<0, 0>>
Z1 == <<1, 0>>
CAdd(x, y) == <<x[1] + y[1], x[2] + y[2]>>
CSub(x, y) == <<x[1] - y[1], x[2] - y[2]>>
CMul(x, y) == <<x[1] * y[1] - x[2] * y[2], x[1] * y[2] + x[2] * y[1]>>
CConj(x) == <<x[1], -x[2]>>
CNeg(x) == <<-x[1], -x[2]>>
RECURSIVE CSum(_)
CSum(s) == IF s = <<>> THEN Z0 ELSE CAdd(Head(s), CSum(Tail(s)))
\* inverse of a unit (1, -1, i, -i)
UInv(u) == CConj(u)
IsUnit(u) == u \in {<<1, 0>>, <<-1, 0>>, <<0, 1>>, <<0, -1>>}

(******************************* views ***********************************)
Len0(b) == b.nr * b.nc
\* cell (0-based) of element i (1..n) of a vector view; BLAS walks backwards for negative increments
VCell(off, inc, n, i) == off + (IF inc > 0 THEN (i - 1) * inc ELSE (n - i) * (-inc))
GetVec(b, off, inc, n) == Eager([i \in 1..n |-> b.d[VCell(off, inc, n, i) + 1]])
PutVec(d, off, inc, n, v) == LET cells == {VCell(off, inc, n, i) : i \in 1..n}
                                 idx(p) == CHOOSE i \in 1..n : VCell(off, inc, n, i) = p
                             IN  Eager([p \in 1..Len(d) |-> IF (p - 1) \in cells THEN v[idx(p - 1)] ELSE d[p]])
NeedVec(off, inc, n) == IF n <= 0 THEN 0 ELSE off + (n - 1) * Abs(inc) + 1
\* general m x n matrix with leading dimension ld
GetGe(b, off, ld, m, n) == Eager([i \in 1..m |-> Eager([j \in 1..n |-> b.d[off + (i - 1) + (j - 1) * ld + 1]])])
NeedGe(off, ld, m, n) == IF m <= 0 \/ n <= 0 THEN 0 ELSE off + (n - 1) * ld + m
\* write M into the cells selected by Sel(i, j)
PutSel(d, off, ld, m, n, M, Sel(_, _)) ==
    Eager([p \in 1..Len(d) |->
        LET q == p - 1 - off
            j == IF q >= 0 /\ ld > 0 THEN (q \div ld) + 1 ELSE 0
            i == IF q >= 0 /\ ld > 0 THEN (q % ld) + 1 ELSE 0
        IN  IF q >= 0 /\ ld > 0 /\ j \in 1..n /\ i \in 1..m /\ Sel(i, j) THEN M[i][j] ELSE d[p]])
All(i, j) == TRUE
\* band storage: A(i, j) is stored in row ku + i - j (0-based) of column j, for max(1, j - ku) <= i <= min(m, j + kl)
GetBand(b, off, ld, m, n, kl, ku) ==
    Eager([i \in 1..m |-> Eager([j \in 1..n |-> IF i - j <= kl /\ j - i <= ku THEN b.d[off + (ku + i - j) + (j - 1) * ld + 1] ELSE Z0])])
NeedBand(off, ld, n, rows) == IF n <= 0 THEN 0 ELSE off + (n - 1) * ld + rows
\* symmetric / Hermitian matrix from one triangle (herm: the other triangle is the conjugate; the imaginary part of the diagonal is not used)
GetSy(b, off, ld, n, uplo, herm) ==
    LET S(i, j) == b.d[off + (i - 1) + (j - 1) * ld + 1]
        InTri(i, j) == IF uplo = "L" THEN i >= j ELSE i <= j
    IN  Eager([i \in 1..n |-> Eager([j \in 1..n |->
            IF i = j THEN (IF herm THEN <<S(i, i)[1], 0>> ELSE S(i, i))
            ELSE IF InTri(i, j) THEN S(i, j) ELSE (IF herm THEN CConj(S(j, i)) ELSE S(j, i))])])
\* symmetric band: 'L': A(i, j), j <= i <= min(n, j + k), in row i - j of column j;  'U': A(i, j), max(1, j - k) <= i <= j, in row k + i - j
GetSb(b, off, ld, n, k, uplo, herm) ==
    LET S(i, j) == IF uplo = "L" THEN b.d[off + (i - j) + (j - 1) * ld + 1] ELSE b.d[off + (k + i - j) + (j - 1) * ld + 1]
        InTri(i, j) == IF uplo = "L" THEN i >= j ELSE i <= j
    IN  Eager([i \in 1..n |-> Eager([j \in 1..n |->
            IF Abs(i - j) > k THEN Z0
            ELSE IF i = j THEN (IF herm THEN <<S(i, i)[1], 0>> ELSE S(i, i))
            ELSE IF InTri(i, j) THEN S(i, j) ELSE (IF herm THEN CConj(S(j, i)) ELSE S(j, i))])])
\* triangular matrix (the other triangle is zero, a unit diagonal is not read)
GetTr(b, off, ld, n, uplo, diag) ==
    Eager([i \in 1..n |-> Eager([j \in 1..n |->
        IF i = j THEN (IF diag = "U" THEN Z1 ELSE b.d[off + (i - 1) + (j - 1) * ld + 1])
        ELSE IF (uplo = "L" /\ i > j) \/ (uplo = "U" /\ i < j) THEN b.d[off + (i - 1) + (j - 1) * ld + 1] ELSE Z0])])
GetTb(b, off, ld, n, k, uplo, diag) ==
    LET S(i, j) == IF uplo = "L" THEN b.d[off + (i - j) + (j - 1) * ld + 1] ELSE b.d[off + (k + i - j) + (j - 1) * ld + 1]
    IN  Eager([i \in 1..n |-> Eager([j \in 1..n |->
        IF i = j THEN (IF diag = "U" THEN Z1 ELSE S(i, i))
        ELSE IF Abs(i - j) <= k /\ ((uplo = "L" /\ i > j) \/ (uplo = "U" /\ i < j)) THEN S(i, j) ELSE Z0])])

(***************************** dense algebra *****************************)
Rows(M) == Len(M)
Cols(M) == IF Len(M) = 0 THEN 0 ELSE Len(M[1])
Tr(M, m, n) == Eager([j \in 1..n |-> Eager([i \in 1..m |-> M[i][j]])])              \* M is m x n
CTr(M, m, n) == Eager([j \in 1..n |-> Eager([i \in 1..m |-> CConj(M[i][j])])])
Op(M, m, n, t) == IF t = "N" THEN M ELSE IF t = "T" THEN Tr(M, m, n) ELSE CTr(M, m, n)
MatVec(M, m, n, x) == Eager([i \in 1..m |-> CSum([j \in 1..n |-> CMul(M[i][j], x[j])])])
MatMat(A, m, k, B, n) == Eager([i \in 1..m |-> Eager([j \in 1..n |-> CSum([l \in 1..k |-> CMul(A[i][l], B[l][j])])])])
VAxpby(al, v, be, y) == Eager([i \in 1..Len(y) |-> CAdd(CMul(al, v[i]), CMul(be, y[i]))])
MAxpby(al, P, be, C, m, n) == Eager([i \in 1..m |-> Eager([j \in 1..n |-> CAdd(CMul(al, P[i][j]), CMul(be, C[i][j]))])])
\* solve T x = b for a triangular T (lower: forward, upper: backward substitution) whose diagonal entries are units
RECURSIVE FwdSub(_, _, _, _)
FwdSub(T, b, n, x) == LET i == Len(x) + 1 IN
    IF i > n THEN x
    ELSE FwdSub(T, b, n, Append(x, CMul(UInv(T[i][i]), CSub(b[i], CSum([j \in 1..(i - 1) |-> CMul(T[i][j], x[j])])))))
Rev(s) == [i \in 1..Len(s) |-> s[Len(s) + 1 - i]]
\* upper triangular: reverse the order of the unknowns, which makes it lower triangular
SolveTri(T, b, n, lower) ==
    IF lower THEN FwdSub(T, b, n, <<>>)
    ELSE LET R == [i \in 1..n |-> [j \in 1..n |-> T[n + 1 - i][n + 1 - j]]] IN Rev(FwdSub(R, Rev(b), n, <<>>))
LowerAfter(uplo, t) == (uplo = "L") = (t = "N")
UnitDiag(T, n) == \A i \in 1..n : IsUnit(T[i][i])

(***************************** arguments ********************************)
Dflt(v, d) == IF v = D THEN d ELSE v
DfltS(v, d) == IF v = DD THEN d ELSE v
\* a complex scalar for real data is a type error
BadScalar(s, tc) == tc = "d" /\ s # DD /\ s[2] # 0
DefN(b, off, inc) == IF Len0(b) >= off + 1 /\ inc # 0 /\ off >= 0 THEN 1 + (Len0(b) - off - 1) \div Abs(inc) ELSE 0
Res(hard, early, soft, out, ret, b) ==
    [v |-> IF hard THEN "err" ELSE IF early THEN (IF soft THEN "either" ELSE "ok") ELSE IF soft THEN "err" ELSE "ok",
     out |-> IF hard \/ early \/ soft THEN b ELSE out, ret |-> IF hard \/ soft THEN Z0 ELSE ret]
WithD(b, name, d) == [b EXCEPT ![name].d = d]

(******************************* level 1 *********************************)
L1two(c, kind) ==            \* swap, copy, axpy, dot, dotu
    LET a == c.a  b == c.b
        hard0 == a.incx = 0 \/ a.incy = 0 \/ a.offsetx < 0 \/ a.offsety < 0
        nx == DefN(b.x, a.offsetx, a.incx)  ny == DefN(b.y, a.offsety, a.incy)
        \* "If the default value is used, it must be equal to" the default length of y (swap, dot, dotu)
        mism == a.n < 0 /\ kind \in {"swap", "dot", "dotu"} /\ ~hard0 /\ nx # ny
        n == IF a.n < 0 THEN nx ELSE a.n
        hard == hard0 \/ mism
        early == n = 0
        alpha == IF kind = "axpy" THEN DfltS(a.alpha, Z1) ELSE Z1
        soft == NeedVec(a.offsetx, a.incx, n) > Len0(b.x) \/ NeedVec(a.offsety, a.incy, n) > Len0(b.y)
                \/ (kind = "axpy" /\ BadScalar(a.alpha, c.tc))
        x == GetVec(b.x, a.offsetx, a.incx, n)  y == GetVec(b.y, a.offsety, a.incy, n)
        out == CASE kind = "swap" -> WithD(WithD(b, "x", PutVec(b.x.d, a.offsetx, a.incx, n, y)), "y", PutVec(b.y.d, a.offsety, a.incy, n, x))
                 [] kind = "copy" -> WithD(b, "y", PutVec(b.y.d, a.offsety, a.incy, n, x))
                 [] kind = "axpy" -> WithD(b, "y", PutVec(b.y.d, a.offsety, a.incy, n, VAxpby(alpha, x, Z1, y)))
                 [] OTHER -> b
        ret == CASE kind = "dot"  -> CSum([i \in 1..n |-> CMul(CConj(x[i]), y[i])])
                 [] kind = "dotu" -> CSum([i \in 1..n |-> CMul(x[i], y[i])])
                 [] OTHER -> Z0
    IN  \* dot / dotu return 0 for n = 0 (no early return: the result is the empty sum)
        Res(hard, early, soft, out, IF early THEN Z0 ELSE ret, b)
L1one(c, kind) ==            \* scal, nrm2, asum, iamax  (positive increment)
    LET a == c.a  b == c.b
        hard == a.inc <= 0 \/ a.offset < 0
        n == IF a.n < 0 THEN DefN(b.x, a.offset, a.inc) ELSE a.n
        early == n = 0
        soft == NeedVec(a.offset, a.inc, n) > Len0(b.x) \/ (kind = "scal" /\ BadScalar(a.alpha, c.tc))
        x == GetVec(b.x, a.offset, a.inc, n)
        out == IF kind = "scal" THEN WithD(b, "x", PutVec(b.x.d, a.offset, a.inc, n, [i \in 1..n |-> CMul(a.alpha, x[i])])) ELSE b
        absv(v) == Abs(v[1]) + Abs(v[2])
        ret == CASE kind = "nrm2" -> <<CSum([i \in 1..n |-> <<x[i][1] * x[i][1] + x[i][2] * x[i][2], 0>>])[1], 0>>      \* the SQUARE of the norm
                 [] kind = "asum" -> <<CSum([i \in 1..n |-> <<absv(x[i]), 0>>])[1], 0>>
                 [] kind = "iamax" -> LET best == CHOOSE i \in 1..n : (\A j \in 1..n : absv(x[j]) <= absv(x[i])) /\ (\A j \in 1..(i - 1) : absv(x[j]) < absv(x[i]))
                                      IN  <<best - 1, 0>>
                 [] OTHER -> Z0
    IN  Res(hard, early, soft, out, IF early THEN Z0 ELSE ret, b)

(******************************* level 2 *********************************)
BadFlag(v, S) == v \notin S
\* y := alpha op(M) x + beta y  for gemv, gbmv, symv, hemv, sbmv, hbmv
MV(c, kind) ==
    LET a == c.a  b == c.b
        band == kind \in {"gbmv", "sbmv", "hbmv"}
        sym == kind \in {"symv", "hemv", "sbmv", "hbmv"}
        herm == kind \in {"hemv", "hbmv"}
        trans == IF sym THEN "N" ELSE a.trans
        sq == b.A.nr = b.A.nc
        \* dimensions
        n == IF sym THEN (IF a.n < 0 THEN (IF band THEN b.A.nc ELSE b.A.nr) ELSE a.n)
             ELSE IF a.n < 0 THEN b.A.nc ELSE a.n
        m == IF sym THEN n ELSE IF kind = "gbmv" THEN a.m ELSE (IF a.m < 0 THEN b.A.nr ELSE a.m)
        notsq == sym /\ ~band /\ a.n < 0 /\ ~sq                                      \* symv / hemv: default n needs a square A
        hard == (IF sym THEN BadFlag(a.uplo, {"L", "U"}) ELSE BadFlag(trans, {"N", "T", "C"})) \/ a.incx = 0 \/ a.incy = 0 \/ notsq
        early == IF sym THEN n = 0 ELSE ((m = 0 /\ trans = "N") \/ (n = 0 /\ trans # "N"))
        kl == IF kind = "gbmv" THEN a.kl ELSE 0
        ku == IF kind = "gbmv" THEN (IF a.ku < 0 THEN b.A.nr - 1 - kl ELSE a.ku) ELSE 0
        k == IF kind \in {"sbmv", "hbmv"} THEN (IF a.k < 0 THEN Max(0, b.A.nr - 1) ELSE a.k) ELSE 0
        ld == IF a.ldA = 0 THEN (IF band THEN b.A.nr ELSE Max(1, b.A.nr)) ELSE a.ldA
        minld == IF kind = "gbmv" THEN kl + ku + 1 ELSE IF band THEN k + 1 ELSE Max(1, m)
        needA == IF kind = "gbmv" THEN (IF m > 0 THEN NeedBand(a.offsetA, ld, n, kl + ku + 1) ELSE 0)
                 ELSE IF band THEN NeedBand(a.offsetA, ld, n, k + 1) ELSE NeedGe(a.offsetA, ld, m, n)
        lx == IF trans = "N" THEN n ELSE m
        ly == IF trans = "N" THEN m ELSE n
        soft == (kind = "gbmv" /\ a.m < 0) \/ kl < 0 \/ ku < 0 \/ ld < minld \/ a.offsetA < 0 \/ a.offsetx < 0 \/ a.offsety < 0
                \/ needA > Len0(b.A) \/ NeedVec(a.offsetx, a.incx, lx) > Len0(b.x) \/ NeedVec(a.offsety, a.incy, ly) > Len0(b.y)
                \/ BadScalar(a.alpha, c.tc) \/ BadScalar(a.beta, c.tc)
        alpha == DfltS(a.alpha, Z1)  beta == DfltS(a.beta, Z0)
        M == CASE kind = "gemv" -> GetGe(b.A, a.offsetA, ld, m, n)
               [] kind = "gbmv" -> GetBand(b.A, a.offsetA, ld, m, n, kl, ku)
               [] kind \in {"symv", "hemv"} -> GetSy(b.A, a.offsetA, ld, n, a.uplo, herm)
               [] OTHER -> GetSb(b.A, a.offsetA, ld, n, k, a.uplo, herm)
        x == GetVec(b.x, a.offsetx, a.incx, lx)  y == GetVec(b.y, a.offsety, a.incy, ly)
        prod == MatVec(Op(M, m, n, trans), ly, lx, x)
        out == WithD(b, "y", PutVec(b.y.d, a.offsety, a.incy, ly, VAxpby(alpha, prod, beta, y)))
    IN  Res(hard, early, soft, out, Z0, b)
\* x := op(T) x  /  x := op(T)^-1 x   for trmv, tbmv, trsv, tbsv
TV(c, kind) ==
    LET a == c.a  b == c.b
        band == kind \in {"tbmv", "tbsv"}
        solve == kind \in {"trsv", "tbsv"}
        n == IF a.n < 0 THEN (IF band THEN b.A.nc ELSE b.A.nr) ELSE a.n
        notsq == ~band /\ a.n < 0 /\ b.A.nr # b.A.nc
        hard == BadFlag(a.trans, {"N", "T", "C"}) \/ BadFlag(a.uplo, {"L", "U"}) \/ BadFlag(a.diag, {"N", "U"}) \/ a.incx = 0 \/ notsq
        early == n = 0
        k == IF band THEN (IF a.k < 0 THEN Max(0, b.A.nr - 1) ELSE a.k) ELSE 0
        ld == IF a.ldA = 0 THEN (IF band THEN b.A.nr ELSE Max(1, b.A.nr)) ELSE a.ldA
        soft == ld < (IF band THEN k + 1 ELSE Max(1, n)) \/ a.offsetA < 0 \/ a.offsetx < 0
                \/ (IF band THEN NeedBand(a.offsetA, ld, n, k + 1) ELSE NeedGe(a.offsetA, ld, n, n)) > Len0(b.A)
                \/ NeedVec(a.offsetx, a.incx, n) > Len0(b.x)
        T == IF band THEN GetTb(b.A, a.offsetA, ld, n, k, a.uplo, a.diag) ELSE GetTr(b.A, a.offsetA, ld, n, a.uplo, a.diag)
        OT == Op(T, n, n, a.trans)
        x == GetVec(b.x, a.offsetx, a.incx, n)
        r == IF solve THEN SolveTri(OT, x, n, LowerAfter(a.uplo, a.trans)) ELSE MatVec(OT, n, n, x)
    IN  Res(hard, early, soft, WithD(b, "x", PutVec(b.x.d, a.offsetx, a.incx, n, r)), Z0, b)
\* rank updates: ger, geru, syr, her, syr2, her2
RK(c, kind) ==
    LET a == c.a  b == c.b
        gen == kind \in {"ger", "geru"}
        two == kind \in {"syr2", "her2"}
        hasy == gen \/ two
        sq == b.A.nr = b.A.nc
        m == IF gen THEN (IF a.m < 0 THEN b.A.nr ELSE a.m) ELSE (IF a.n < 0 THEN b.A.nr ELSE a.n)
        n == IF gen THEN (IF a.n < 0 THEN b.A.nc ELSE a.n) ELSE m
        hard == a.incx = 0 \/ (hasy /\ a.incy = 0) \/ (~gen /\ a.n < 0 /\ ~sq)
        early == m = 0 \/ n = 0
        ld == IF a.ldA = 0 THEN Max(1, b.A.nr) ELSE a.ldA
        \* syr and her take a real alpha
        soft == ld < Max(1, m) \/ a.offsetA < 0 \/ a.offsetx < 0 \/ (hasy /\ a.offsety < 0) \/ NeedGe(a.offsetA, ld, m, n) > Len0(b.A)
                \/ NeedVec(a.offsetx, a.incx, m) > Len0(b.x) \/ (hasy /\ NeedVec(a.offsety, a.incy, n) > Len0(b.y))
                \/ (~gen /\ BadFlag(a.uplo, {"L", "U"}))
                \/ (IF kind \in {"syr", "her"} THEN (a.alpha # DD /\ a.alpha[2] # 0) ELSE BadScalar(a.alpha, c.tc))
        alpha == DfltS(a.alpha, Z1)
        A == GetGe(b.A, a.offsetA, ld, m, n)
        x == GetVec(b.x, a.offsetx, a.incx, m)
        y == IF hasy THEN GetVec(b.y, a.offsety, a.incy, n) ELSE x
        upd(i, j) == CASE kind = "ger"  -> CMul(alpha, CMul(x[i], CConj(y[j])))
                       [] kind = "geru" -> CMul(alpha, CMul(x[i], y[j]))
                       [] kind = "syr"  -> CMul(alpha, CMul(x[i], x[j]))
                       [] kind = "her"  -> CMul(alpha, CMul(x[i], CConj(x[j])))
                       [] kind = "syr2" -> CMul(alpha, CAdd(CMul(x[i], y[j]), CMul(y[i], x[j])))
                       [] kind = "her2" -> CAdd(CMul(alpha, CMul(x[i], CConj(y[j]))), CMul(CConj(alpha), CMul(y[i], CConj(x[j]))))
        herm == kind \in {"her", "her2"}
        new == [i \in 1..m |-> [j \in 1..n |-> LET v == CAdd(A[i][j], upd(i, j)) IN IF herm /\ i = j THEN <<v[1], 0>> ELSE v]]
        InTri(i, j) == gen \/ (IF a.uplo = "L" THEN i >= j ELSE i <= j)
    IN  Res(hard, early, soft, WithD(b, "A", PutSel(b.A.d, a.offsetA, ld, m, n, new, InTri)), Z0, b)

(******************************* level 3 *********************************)
GEMM(c) ==
    LET a == c.a  b == c.b
        hard0 == BadFlag(a.transA, {"N", "T", "C"}) \/ BadFlag(a.transB, {"N", "T", "C"})
        m == IF a.m < 0 THEN (IF a.transA = "N" THEN b.A.nr ELSE b.A.nc) ELSE a.m
        n == IF a.n < 0 THEN (IF a.transB = "N" THEN b.B.nc ELSE b.B.nr) ELSE a.n
        kA == IF a.transA = "N" THEN b.A.nc ELSE b.A.nr
        kB == IF a.transB = "N" THEN b.B.nr ELSE b.B.nc
        k == IF a.k < 0 THEN kA ELSE a.k
        hard == hard0 \/ (a.k < 0 /\ kA # kB)
        early == m = 0 \/ n = 0
        ldA == IF a.ldA = 0 THEN Max(1, b.A.nr) ELSE a.ldA
        ldB == IF a.ldB = 0 THEN Max(1, b.B.nr) ELSE a.ldB
        ldC == IF a.ldC = 0 THEN Max(1, b.C.nr) ELSE a.ldC
        rA == IF a.transA = "N" THEN m ELSE k  cA == IF a.transA = "N" THEN k ELSE m
        rB == IF a.transB = "N" THEN k ELSE n  cB == IF a.transB = "N" THEN n ELSE k
        soft == (k > 0 /\ (ldA < Max(1, rA) \/ ldB < Max(1, rB))) \/ ldC < Max(1, m)
                \/ a.offsetA < 0 \/ a.offsetB < 0 \/ a.offsetC < 0
                \/ (k > 0 /\ (NeedGe(a.offsetA, ldA, rA, cA) > Len0(b.A) \/ NeedGe(a.offsetB, ldB, rB, cB) > Len0(b.B)))
                \/ NeedGe(a.offsetC, ldC, m, n) > Len0(b.C) \/ BadScalar(a.alpha, c.tc) \/ BadScalar(a.beta, c.tc)
        alpha == DfltS(a.alpha, Z1)  beta == DfltS(a.beta, Z0)
        A == Op(GetGe(b.A, a.offsetA, ldA, rA, cA), rA, cA, a.transA)
        B == Op(GetGe(b.B, a.offsetB, ldB, rB, cB), rB, cB, a.transB)
        C == GetGe(b.C, a.offsetC, ldC, m, n)
        new == MAxpby(alpha, MatMat(A, m, k, B, n), beta, C, m, n)
    IN  Res(hard, early, soft, WithD(b, "C", PutSel(b.C.d, a.offsetC, ldC, m, n, new, All)), Z0, b)
SYMM(c, herm) ==
    LET a == c.a  b == c.b
        hard0 == BadFlag(a.side, {"L", "R"}) \/ BadFlag(a.uplo, {"L", "U"})
        m == IF a.m < 0 THEN b.B.nr ELSE a.m
        n == IF a.n < 0 THEN b.B.nc ELSE a.n
        hard == hard0 \/ (a.m < 0 /\ a.side = "L" /\ (m # b.A.nr \/ m # b.A.nc)) \/ (a.n < 0 /\ a.side = "R" /\ (n # b.A.nr \/ n # b.A.nc))
        early == m = 0 \/ n = 0
        na == IF a.side = "L" THEN m ELSE n
        ldA == IF a.ldA = 0 THEN Max(1, b.A.nr) ELSE a.ldA
        ldB == IF a.ldB = 0 THEN Max(1, b.B.nr) ELSE a.ldB
        ldC == IF a.ldC = 0 THEN Max(1, b.C.nr) ELSE a.ldC
        soft == ldA < Max(1, na) \/ ldB < Max(1, m) \/ ldC < Max(1, m) \/ a.offsetA < 0 \/ a.offsetB < 0 \/ a.offsetC < 0
                \/ NeedGe(a.offsetA, ldA, na, na) > Len0(b.A) \/ NeedGe(a.offsetB, ldB, m, n) > Len0(b.B) \/ NeedGe(a.offsetC, ldC, m, n) > Len0(b.C)
                \/ BadScalar(a.alpha, c.tc) \/ BadScalar(a.beta, c.tc)
        alpha == DfltS(a.alpha, Z1)  beta == DfltS(a.beta, Z0)
        A == GetSy(b.A, a.offsetA, ldA, na, a.uplo, herm)
        B == GetGe(b.B, a.offsetB, ldB, m, n)
        C == GetGe(b.C, a.offsetC, ldC, m, n)
        P == IF a.side = "L" THEN MatMat(A, m, m, B, n) ELSE MatMat(B, m, n, A, n)
    IN  Res(hard, early, soft, WithD(b, "C", PutSel(b.C.d, a.offsetC, ldC, m, n, MAxpby(alpha, P, beta, C, m, n), All)), Z0, b)
\* syrk, herk, syr2k, her2k
RKK(c, kind) ==
    LET a == c.a  b == c.b
        herm == kind \in {"herk", "her2k"}
        two == kind \in {"syr2k", "her2k"}
        okT == IF c.tc = "d" THEN {"N", "T", "C"} ELSE IF herm THEN {"N", "C"} ELSE {"N", "T"}
        hard0 == BadFlag(a.uplo, {"L", "U"}) \/ BadFlag(a.trans, okT)
        nA == IF a.trans = "N" THEN b.A.nr ELSE b.A.nc
        kA == IF a.trans = "N" THEN b.A.nc ELSE b.A.nr
        n == IF a.n < 0 THEN nA ELSE a.n
        k == IF a.k < 0 THEN kA ELSE a.k
        mismN == two /\ a.n < 0 /\ nA # (IF a.trans = "N" THEN b.B.nr ELSE b.B.nc)
        mismK == two /\ a.k < 0 /\ kA # (IF a.trans = "N" THEN b.B.nc ELSE b.B.nr)
        hard == hard0 \/ mismN
        early == n = 0
        ldA == IF a.ldA = 0 THEN Max(1, b.A.nr) ELSE a.ldA
        ldB == IF two THEN (IF a.ldB = 0 THEN Max(1, b.B.nr) ELSE a.ldB) ELSE 1
        ldC == IF a.ldC = 0 THEN Max(1, b.C.nr) ELSE a.ldC
        rA == IF a.trans = "N" THEN n ELSE k  cA == IF a.trans = "N" THEN k ELSE n
        \* herk takes real alpha and beta; her2k a real beta
        realA == kind = "herk"  realB == herm
        soft == mismK \/ (k > 0 /\ (ldA < Max(1, rA) \/ (two /\ ldB < Max(1, rA)))) \/ ldC < Max(1, n)
                \/ a.offsetA < 0 \/ (two /\ a.offsetB < 0) \/ a.offsetC < 0
                \/ (k > 0 /\ (NeedGe(a.offsetA, ldA, rA, cA) > Len0(b.A) \/ (two /\ NeedGe(a.offsetB, ldB, rA, cA) > Len0(b.B))))
                \/ NeedGe(a.offsetC, ldC, n, n) > Len0(b.C)
                \/ (IF realA THEN (a.alpha # DD /\ a.alpha[2] # 0) ELSE BadScalar(a.alpha, c.tc))
                \/ (IF realB THEN (a.beta # DD /\ a.beta[2] # 0) ELSE BadScalar(a.beta, c.tc))
        alpha == DfltS(a.alpha, Z1)  beta == DfltS(a.beta, Z0)
        A == GetGe(b.A, a.offsetA, ldA, rA, cA)
        B == IF two THEN GetGe(b.B, a.offsetB, ldB, rA, cA) ELSE A
        \* X = op(A) (n x k), Y = op(B) (n x k):   C := alpha X Y^T (or ^H) [+ (conj)alpha Y X^T (^H)] + beta C
        X == IF a.trans = "N" THEN A ELSE (IF herm THEN CTr(A, rA, cA) ELSE Tr(A, rA, cA))
        Y == IF a.trans = "N" THEN B ELSE (IF herm THEN CTr(B, rA, cA) ELSE Tr(B, rA, cA))
        Xt == IF herm THEN CTr(X, n, k) ELSE Tr(X, n, k)
        Yt == IF herm THEN CTr(Y, n, k) ELSE Tr(Y, n, k)
        P1 == MatMat(X, n, k, Yt, n)
        P2 == MatMat(Y, n, k, Xt, n)
        C == GetGe(b.C, a.offsetC, ldC, n, n)
        new == [i \in 1..n |-> [j \in 1..n |->
                  LET v == CAdd(CAdd(CMul(alpha, P1[i][j]), IF two THEN CMul(IF herm THEN CConj(alpha) ELSE alpha, P2[i][j]) ELSE Z0),
                                CMul(beta, IF herm /\ i = j THEN <<C[i][j][1], 0>> ELSE C[i][j]))
                  IN  IF herm /\ i = j THEN <<v[1], 0>> ELSE v]]
        InTri(i, j) == IF a.uplo = "L" THEN i >= j ELSE i <= j
    IN  Res(hard, early, soft, WithD(b, "C", PutSel(b.C.d, a.offsetC, ldC, n, n, new, InTri)), Z0, b)
\* trmm, trsm
TRM(c, solve) ==
    LET a == c.a  b == c.b
        hard0 == BadFlag(a.side, {"L", "R"}) \/ BadFlag(a.uplo, {"L", "U"}) \/ BadFlag(a.diag, {"N", "U"}) \/ BadFlag(a.transA, {"N", "T", "C"})
        n == IF a.n < 0 THEN (IF a.side = "L" THEN b.B.nc ELSE b.A.nr) ELSE a.n
        m == IF a.m < 0 THEN (IF a.side = "L" THEN b.A.nr ELSE b.B.nr) ELSE a.m
        hard == hard0 \/ (a.n < 0 /\ a.side = "R" /\ n # b.A.nc) \/ (a.m < 0 /\ a.side = "L" /\ m # b.A.nc)
        early == m = 0 \/ n = 0
        na == IF a.side = "L" THEN m ELSE n
        ldA == IF a.ldA = 0 THEN Max(1, b.A.nr) ELSE a.ldA
        ldB == IF a.ldB = 0 THEN Max(1, b.B.nr) ELSE a.ldB
        soft == ldA < Max(1, na) \/ ldB < Max(1, m) \/ a.offsetA < 0 \/ a.offsetB < 0
                \/ NeedGe(a.offsetA, ldA, na, na) > Len0(b.A) \/ NeedGe(a.offsetB, ldB, m, n) > Len0(b.B) \/ BadScalar(a.alpha, c.tc)
        alpha == DfltS(a.alpha, Z1)
        T == Op(GetTr(b.A, a.offsetA, ldA, na, a.uplo, a.diag), na, na, a.transA)
        lower == LowerAfter(a.uplo, a.transA)
        B == GetGe(b.B, a.offsetB, ldB, m, n)
        aB == [i \in 1..m |-> [j \in 1..n |-> CMul(alpha, B[i][j])]]
        new == IF ~solve THEN (IF a.side = "L" THEN MatMat(T, m, m, aB, n) ELSE MatMat(aB, m, n, T, n))
               ELSE IF a.side = "L"
                    THEN \* T X = alpha B, column by column
                         LET cols == [j \in 1..n |-> SolveTri(T, [i \in 1..m |-> aB[i][j]], m, lower)] IN [i \in 1..m |-> [j \in 1..n |-> cols[j][i]]]
                    ELSE \* X T = alpha B  <=>  T^T X^T = alpha B^T, row by row
                         LET Tt == Tr(T, n, n)
                             rows == [i \in 1..m |-> SolveTri(Tt, aB[i], n, ~lower)] IN rows
    IN  Res(hard, early, soft, WithD(b, "B", PutSel(b.B.d, a.offsetB, ldB, m, n, new, All)), Z0, b)

(******************* products with sparse operands (module base) *******************)
(* base.gemv / base.gemm / base.syrk accept sparse matrices.  A sparse operand is given by its DENSE IMAGE (b.A.d, column-major, nr x nc) - the
   compressed-column storage is the business of SparseCCS.tla - so the reference result is the dense one.  b.<name>.sp says which operands are
   sparse; for a sparse C with partial = TRUE only the entries of C's pattern (b.Cmask.d, 1 = stored) are updated.                              *)
Img(b, i, j) == b.d[(j - 1) * b.nr + i]
SPGEMV(c) ==
    LET a == c.a  b == c.b  nr == b.A.nr  nc == b.A.nc
        hard == BadFlag(a.trans, {"N", "T", "C"}) \/ a.incx = 0 \/ a.incy = 0
        m == IF a.m < 0 THEN nr ELSE a.m
        n == IF a.n < 0 THEN nc ELSE a.n
        early == (m = 0 /\ a.trans = "N") \/ (n = 0 /\ a.trans # "N")
        oi == IF nr > 0 THEN a.offsetA % nr ELSE 0
        oj == IF nr > 0 THEN a.offsetA \div nr ELSE 0
        lx == IF a.trans = "N" THEN n ELSE m
        ly == IF a.trans = "N" THEN m ELSE n
        soft == a.offsetA < 0 \/ a.offsetx < 0 \/ a.offsety < 0
                \/ (n > 0 /\ m > 0 /\ a.offsetA + (n - 1) * Max(1, nr) + m > nr * nc)
                \/ (b.A.sp = 0 /\ m > Max(1, nr))                  \* the leading dimension of a dense A is its number of rows
                \/ NeedVec(a.offsetx, a.incx, lx) > Len0(b.x) \/ NeedVec(a.offsety, a.incy, ly) > Len0(b.y)
                \/ BadScalar(a.alpha, c.tc) \/ BadScalar(a.beta, c.tc)
        \* "This sparse version of GEMV requires that m <= A.size[0] - (offsetA % A.size[0])" (and likewise for the columns)
        wrap == m > nr - oi \/ n > nc - oj
        alpha == DfltS(a.alpha, Z1)  beta == DfltS(a.beta, Z0)
        \* a dense A is addressed like a BLAS array with leading dimension max(1, nr); a sparse one by the row / column of the cell offsetA
        M == IF b.A.sp = 1 THEN Eager([i \in 1..m |-> Eager([j \in 1..n |-> Img(b.A, oi + i, oj + j)])])
             ELSE GetGe(b.A, a.offsetA, Max(1, nr), m, n)
        x == GetVec(b.x, a.offsetx, a.incx, lx)  y == GetVec(b.y, a.offsety, a.incy, ly)
        out == WithD(b, "y", PutVec(b.y.d, a.offsety, a.incy, ly, VAxpby(alpha, MatVec(Op(M, m, n, a.trans), ly, lx, x), beta, y)))
        r == Res(hard, early, soft, out, Z0, b)
    IN  IF ~hard /\ ~early /\ ~soft /\ wrap /\ b.A.sp = 1 THEN [v |-> "unspecified", out |-> b, ret |-> Z0] ELSE r
SPSYMV(c) ==
    LET a == c.a  b == c.b  nr == b.A.nr  nc == b.A.nc
        hard == BadFlag(a.uplo, {"L", "U"}) \/ a.incx = 0 \/ a.incy = 0 \/ (a.n < 0 /\ nr # nc)
        n == IF a.n < 0 THEN nr ELSE a.n
        early == n = 0
        ld == Max(1, nr)
        oi == IF nr > 0 THEN a.offsetA % nr ELSE 0
        oj == IF nr > 0 THEN a.offsetA \div nr ELSE 0
        soft == a.offsetA < 0 \/ a.offsetx < 0 \/ a.offsety < 0 \/ a.offsetA + (n - 1) * ld + n > nr * nc \/ (b.A.sp = 0 /\ n > ld)
                \/ NeedVec(a.offsetx, a.incx, n) > Len0(b.x) \/ NeedVec(a.offsety, a.incy, n) > Len0(b.y)
                \/ BadScalar(a.alpha, c.tc) \/ BadScalar(a.beta, c.tc)
        wrap == n > nr - oi \/ n > nc - oj
        alpha == DfltS(a.alpha, Z1)  beta == DfltS(a.beta, Z0)
        G == IF b.A.sp = 1 THEN Eager([i \in 1..n |-> Eager([j \in 1..n |-> Img(b.A, oi + i, oj + j)])]) ELSE GetGe(b.A, a.offsetA, ld, n, n)
        InTri(i, j) == IF a.uplo = "L" THEN i >= j ELSE i <= j
        S == Eager([i \in 1..n |-> Eager([j \in 1..n |-> IF InTri(i, j) THEN G[i][j] ELSE G[j][i]])])
        x == GetVec(b.x, a.offsetx, a.incx, n)  y == GetVec(b.y, a.offsety, a.incy, n)
        out == WithD(b, "y", PutVec(b.y.d, a.offsety, a.incy, n, VAxpby(alpha, MatVec(S, n, n, x), beta, y)))
        r == Res(hard, early, soft, out, Z0, b)
    IN  IF ~hard /\ ~early /\ ~soft /\ wrap /\ b.A.sp = 1 THEN [v |-> "unspecified", out |-> b, ret |-> Z0] ELSE r
FullM(b) == Eager([i \in 1..b.nr |-> Eager([j \in 1..b.nc |-> Img(b, i, j)])])
SPGEMM(c) ==
    LET a == c.a  b == c.b
        hard0 == BadFlag(a.transA, {"N", "T", "C"}) \/ BadFlag(a.transB, {"N", "T", "C"})
        m == IF a.transA = "N" THEN b.A.nr ELSE b.A.nc
        k == IF a.transA = "N" THEN b.A.nc ELSE b.A.nr
        n == IF a.transB = "N" THEN b.B.nc ELSE b.B.nr
        kB == IF a.transB = "N" THEN b.B.nr ELSE b.B.nc
        hard == hard0 \/ k # kB \/ b.C.nr # m \/ b.C.nc # n
        early == m = 0 \/ n = 0
        soft == BadScalar(a.alpha, c.tc) \/ BadScalar(a.beta, c.tc)
        alpha == DfltS(a.alpha, Z1)  beta == DfltS(a.beta, Z0)
        A == Op(FullM(b.A), b.A.nr, b.A.nc, a.transA)
        B == Op(FullM(b.B), b.B.nr, b.B.nc, a.transB)
        new == MAxpby(alpha, MatMat(A, m, k, B, n), beta, FullM(b.C), m, n)
        Upd(i, j) == ~a.partial \/ b.Cmask.d[(j - 1) * m + i][1] = 1
    IN  Res(hard, early, soft, WithD(b, "C", PutSel(b.C.d, 0, Max(1, m), m, n, new, Upd)), Z0, b)
\* A dense C is updated in its uplo triangle only.  A sparse C with partial = FALSE is replaced by a new matrix holding the updated triangle; whether
\* stored entries of the OTHER triangle survive is not documented, so the binding compares the uplo triangle only in that case.
SPSYRK(c) ==
    LET a == c.a  b == c.b
        okT == IF c.tc = "d" THEN {"N", "T", "C"} ELSE {"N", "T"}
        hard0 == BadFlag(a.uplo, {"L", "U"}) \/ BadFlag(a.trans, okT)
        n == IF a.trans = "N" THEN b.A.nr ELSE b.A.nc
        k == IF a.trans = "N" THEN b.A.nc ELSE b.A.nr
        hard == hard0 \/ b.C.nr # n \/ b.C.nc # n
        early == n = 0
        soft == BadScalar(a.alpha, c.tc) \/ BadScalar(a.beta, c.tc)
        alpha == DfltS(a.alpha, Z1)  beta == DfltS(a.beta, Z0)
        X == IF a.trans = "N" THEN FullM(b.A) ELSE Tr(FullM(b.A), b.A.nr, b.A.nc)
        new == MAxpby(alpha, MatMat(X, n, k, Tr(X, n, k), n), beta, FullM(b.C), n, n)
        Upd(i, j) == (IF a.uplo = "L" THEN i >= j ELSE i <= j) /\ (~a.partial \/ b.Cmask.d[(j - 1) * n + i][1] = 1)
    IN  Res(hard, early, soft, WithD(b, "C", PutSel(b.C.d, 0, Max(1, n), n, n, new, Upd)), Z0, b)

\* base.axpy(x, y, alpha, partial): y := alpha * x + y for operands of equal size; with a sparse y and partial = TRUE only the stored entries of y change
SPAXPY(c) ==
    LET a == c.a  b == c.b
        hard == b.x.nr # b.y.nr \/ b.x.nc # b.y.nc
        soft == BadScalar(a.alpha, c.tc)
        alpha == DfltS(a.alpha, Z1)
        Upd(p) == ~a.partial \/ b.Cmask.d[p][1] = 1
        new == Eager([p \in 1..Len(b.y.d) |-> IF Upd(p) THEN CAdd(CMul(alpha, b.x.d[p]), b.y.d[p]) ELSE b.y.d[p]])
    IN  Res(hard, FALSE, soft, WithD(b, "y", new), Z0, b)

Run(c) ==
    CASE c.f \in {"swap", "copy", "axpy", "dot", "dotu"} -> L1two(c, c.f)
      [] c.f \in {"scal", "nrm2", "asum", "iamax"} -> L1one(c, c.f)
      [] c.f \in {"gemv", "gbmv", "symv", "hemv", "sbmv", "hbmv"} -> MV(c, c.f)
      [] c.f \in {"trmv", "tbmv", "trsv", "tbsv"} -> TV(c, c.f)
      [] c.f \in {"ger", "geru", "syr", "her", "syr2", "her2"} -> RK(c, c.f)
      [] c.f = "gemm" -> GEMM(c)
      [] c.f = "symm" -> SYMM(c, FALSE)
      [] c.f = "hemm" -> SYMM(c, TRUE)
      [] c.f \in {"syrk", "herk", "syr2k", "her2k"} -> RKK(c, c.f)
      [] c.f = "trmm" -> TRM(c, FALSE)
      [] c.f = "trsm" -> TRM(c, TRUE)
      [] c.f = "sp_gemv" -> SPGEMV(c)
      [] c.f = "sp_symv" -> SPSYMV(c)
      [] c.f = "sp_axpy" -> SPAXPY(c)
      [] c.f = "sp_gemm" -> SPGEMM(c)
      [] c.f = "sp_syrk" -> SPSYRK(c)
=============================================================================
