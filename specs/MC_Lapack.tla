------------------------------ MODULE MC_Lapack ------------------------------
(* For every case [I (planted instance or the "free" marker), obs (observations of the calls made on it)] decides the truth of the instance
   from its certificate (exact Gaussian-integer arithmetic) and judges every observation against the contract of Lapack.tla. *)
EXTENDS Lapack, Json, IOUtils, SequencesExt

Cases == JsonDeserialize(IOEnv.CASE_FILE)
Out(C) == LET t == Truth(C.I) IN
          [truth |-> t, failed |-> [i \in DOMAIN C.obs |-> IF t THEN SetToSeq(Failed(C.I.kind, C.obs[i], C.I.nrhs)) ELSE <<>>]]
ASSUME JsonSerialize(IOEnv.OUT_FILE, [res |-> [i \in 1..Len(Cases) |-> Out(Cases[i])]])

VARIABLE dummy
Init == dummy = 0
Next == UNCHANGED dummy
Spec == Init /\ [][Next]_dummy
=============================================================================
