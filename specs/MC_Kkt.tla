-------------------------------- MODULE MC_Kkt --------------------------------
(***************************************************************************)
(* Decides, in exact rational arithmetic, whether a triple (ux, uy, uzs)    *)
(* returned by a KKT solve routine satisfies the documented block system    *)
(*                                                                          *)
(*     [ H    A'   GG'   ] [ ux ]   [ bx ]                                  *)
(*     [ A    0    0     ] [ uy ] = [ by ]        GG = [Df; G],             *)
(*     [ GG   0   -W'W   ] [ uz ]   [ bz ]        uzs = W uz is returned    *)
(*                                                                          *)
(* with the Nesterov-Todd scaling W of ConeAlgebra (an independent          *)
(* definition of W).  Also checks the documented invariants of a scaling    *)
(* dictionary: d > 0, beta > 0, v0 > 0, v'Jv = 1, r' * rti = I.             *)
(***************************************************************************)
EXTENDS ConeAlgebra

Cases == JsonDeserialize(IOEnv.CASE_FILE)

\* GG x for x in R^n (rows: mnl rows of Df, then the cone rows of G);  GG' z with the symmetric inner product
GGx(c, x) == [r \in 1..CDim(c.d, c.mnl) |-> RSum([j \in 1..c.n |-> RMul(c.GG[j][r], x[j])])]
GGTz(c, z) == [j \in 1..c.n |-> SDot(c.GG[j], z, c.d, c.mnl)]
Ax(c, x) == [r \in 1..c.p |-> RSum([j \in 1..c.n |-> RMul(c.A[j][r], x[j])])]
ATy(c, y) == [j \in 1..c.n |-> RDot(c.A[j], y)]
Hx(c, x) == [i \in 1..c.n |-> RSum([j \in 1..c.n |-> RMul(c.H[j][i], x[j])])]

VAdd(x, y) == [k \in 1..Len(x) |-> RAdd(x[k], y[k])]
VSub(x, y) == [k \in 1..Len(x) |-> RSub(x[k], y[k])]

\* equality on the referenced cells of a cone vector
RefEq(x, y, d, mnl) == \A pp \in 1..CDim(d, mnl) : IsRef(d, mnl, pp) => x[pp] = y[pp]

Equation(c) ==
    LET uz == Scale(c.uzs, c.W, c.d, c.mnl, FALSE, TRUE)          \* uz = W^{-1} uzs
        Wt == Scale(c.uzs, c.W, c.d, c.mnl, TRUE, FALSE)          \* W' uzs = W'W uz
    IN  /\ VAdd(VAdd(Hx(c, c.ux), ATy(c, c.uy)), GGTz(c, uz)) = c.bx
        /\ Ax(c, c.ux) = c.by
        /\ RefEq(VSub(GGx(c, c.ux), Wt), c.bz, c.d, c.mnl)

\* the documented invariants of a scaling dictionary
Ident(m) == [k \in 1..(m * m) |-> IF (k - 1) % m = (k - 1) \div m THEN One ELSE Zero]
MatTMul(A, B, m) == [k \in 1..(m * m) |-> LET i == (k - 1) % m  j == (k - 1) \div m
                                        IN  RSum([t \in 1..m |-> RMul(MatAt(A, m, t - 1, i), MatAt(B, m, t - 1, j))])]   \* A' B
WInvariants(W, d) ==
    /\ \A i \in 1..Len(W.d) : RLt(Zero, W.d[i])
    /\ \A i \in 1..Len(W.dnl) : RLt(Zero, W.dnl[i])
    /\ \A k \in 1..Len(d.q) : RLt(Zero, W.beta[k]) /\ RLt(Zero, W.v[k][1]) /\ JNrm2Sq(W.v[k]) = One
    /\ \A k \in 1..Len(d.s) : MatTMul(W.r[k], W.rti[k], d.s[k]) = Ident(d.s[k])

Results == [i \in 1..Len(Cases) |-> [eq |-> Equation(Cases[i]), winv |-> WInvariants(Cases[i].W, Cases[i].d)]]
ASSUME JsonSerialize(IOEnv.OUT_FILE, [res |-> Results])

VARIABLE dummy
Init == dummy = 0
Next == UNCHANGED dummy
Spec == Init /\ [][Next]_dummy
=============================================================================
