------------------------------ MODULE SparseCCS ------------------------------
(***************************************************************************)
(* Sparse matrices (cvxopt.spmatrix) as a structurally valid image of the  *)
(* dense semantics (C16).                                                   *)
(*                                                                          *)
(* The model state is the DENSE image of every object plus its kind         *)
(* ("dense" | "sparse"): every operation on sparse operands is specified    *)
(* as the operation of DenseMatrix.tla on the dense images, together with   *)
(* the documented kind of the result.  The compressed-column arrays are not *)
(* state of the model (the sparsity pattern of sums, products and indexed   *)
(* assignments is not pinned by the documentation): they are OBSERVED in    *)
(* the trace, and at every step TLC checks that each observed sparse object *)
(*   - is a valid compressed-column structure (CCSValid), and               *)
(*   - densifies to the model's image (Densify(obs) = image).               *)
(* Where the documentation pins the pattern (construction from triplets:    *)
(* the set of (i, j) given, duplicates summed; unary minus, transposes and  *)
(* scalar multiplication keep the number of entries) that is checked too.   *)
(***************************************************************************)
EXTENDS DenseMatrix

VARIABLE kind                 \* Id -> "dense" | "sparse"
svars == <<heap, env, nextid, out, kind>>

(******************* compressed-column storage (observed) ******************)
CCSValid(o) ==
    /\ Len(o.colptr) = o.nc + 1
    /\ o.colptr[1] = 0
    /\ \A j \in 1..o.nc : o.colptr[j] <= o.colptr[j + 1]
    /\ Len(o.rowind) = o.colptr[o.nc + 1] /\ Len(o.val) = o.colptr[o.nc + 1]
    /\ \A j \in 1..o.nc : \A k \in (o.colptr[j] + 1)..o.colptr[j + 1] :
           /\ 0 <= o.rowind[k] /\ o.rowind[k] < o.nr
           /\ (k > o.colptr[j] + 1 => o.rowind[k - 1] < o.rowind[k])          \* strictly increasing inside a column
CellOf(o, i, j) ==
    LET ks == {k \in (o.colptr[j + 1] + 1)..o.colptr[j + 2] : o.rowind[k] = i}
    IN  IF ks = {} THEN CZ ELSE o.val[CHOOSE k \in ks : TRUE]
Densify(o) == Mat(o.tc, o.nr, o.nc, [p \in 1..(o.nr * o.nc) |-> CellOf(o, (p - 1) % o.nr, (p - 1) \div o.nr)])
Pattern(o) == {<<o.rowind[k], j - 1>> : j \in 1..o.nc, k \in 1..Len(o.rowind)} \cap
              {<<o.rowind[k], j - 1>> : <<j, k>> \in {jk \in (1..o.nc) \X (1..Len(o.rowind)) : o.colptr[jk[1]] < jk[2] /\ jk[2] <= o.colptr[jk[1] + 1]}}
Nnz(o) == Len(o.val)

(***************************** sparse operations ***************************)
SInit == Init /\ kind = [i \in 1..40 |-> "dense"]
IsSp(n) == kind[env[n]] = "sparse"
SpTc(tc) == IF tc = "i" THEN "d" ELSE tc          \* sparse matrices are 'd' or 'z'

\* spmatrix(V, I, J, size): entries with the same (i, j) are added
FromTriplets(V, I, J, nr, nc, tc) ==
    IF Len(V) # Len(I) \/ Len(I) # Len(J) \/ nr < 0 \/ nc < 0 \/ (\E k \in DOMAIN I : I[k] < 0 \/ I[k] >= nr \/ J[k] < 0 \/ J[k] >= nc)
    THEN Err("TypeOrValue")
    ELSE [k |-> "mat", m |-> Mat(tc, nr, nc, [p \in 1..(nr * nc) |->
              CSum([t \in 1..Len(V) |-> IF I[t] = (p - 1) % nr /\ J[t] = (p - 1) \div nr THEN V[t] ELSE CZ])])]

\* the result of an operation: image r (as in DenseMatrix) plus kind
SProduce(r, dst, kd) ==
    IF r.k = "mat"
    THEN /\ heap' = [heap EXCEPT ![nextid] = IF kd = "sparse" THEN [r.m EXCEPT !.tc = SpTc(r.m.tc)] ELSE r.m]
         /\ kind' = [kind EXCEPT ![nextid] = kd]
         /\ env' = [env EXCEPT ![dst] = nextid] /\ nextid' = nextid + 1 /\ out' = [k |-> "mat"]
    ELSE /\ UNCHANGED <<heap, env, nextid, kind>> /\ out' = r
SMutate(r, name) ==
    IF r.k = "ok" THEN /\ heap' = [heap EXCEPT ![env[name]] = r.m] /\ UNCHANGED <<env, nextid, kind>>
                       /\ out' = IF "lax" \in DOMAIN r THEN [k |-> "none", lax |-> TRUE] ELSE NoOut
    ELSE /\ UNCHANGED <<heap, env, nextid, kind>> /\ out' = r

OpKind(o) == IF o.t = "name" THEN kind[env[o.n]] ELSE "num"

\* "c is a scalar (a Python number or a DENSE 1 by 1 matrix)": a 1 by 1 sparse matrix is an ordinary matrix.
\* The dense operators treat every 1 by 1 operand as a scalar, so a sparse 1 by 1 operand is only admitted where
\* the operation is also defined for it as a matrix (equal sizes for + and -, conformable sizes for *).
SpNotScalarOK(op, a, b) ==
    LET A == Operand(a)  B == Operand(b)
        sp1(x, o) == o.t = "name" /\ kind[env[o.n]] = "sparse" /\ Size(x.m) = 1
    IN  IF op = "*" THEN
            /\ (sp1(A, a) => (B.t = "num" \/ A.m.nc = B.m.nr))
            /\ (sp1(B, b) => (A.t = "num" \/ A.m.nc = B.m.nr))
        ELSE
            /\ (sp1(A, a) => (B.t = "num" \/ (B.m.nr = 1 /\ B.m.nc = 1)))
            /\ (sp1(B, b) => (A.t = "num" \/ (A.m.nr = 1 /\ A.m.nc = 1)))
\* A / c for a sparse A: "dividing all its entries by c", the result is sparse; only division by a number is specified here
SBinOp(op, a, b) == IF op = "/" /\ OpKind(a) = "sparse" /\ b.t # "num" THEN [k |-> "unspec"]
                    ELSE IF SpNotScalarOK(op, a, b) THEN BinOp(op, Operand(a), Operand(b)) ELSE Err("TypeOrValue")
\* indexed assignment with a 1 by 1 sparse right-hand side: only to a single cell
SRhsOK(rhs, n) == rhs.t # "name" \/ kind[env[rhs.n]] # "sparse" \/ Size(heap[env[rhs.n]]) # 1 \/ n = 1
\* CALIBRATED: a sparse right-hand side is a matrix; a single integer position A[k] / A[i,j] takes a scalar only
SRhsScalarPosOK(rhs, scalarpos, src) == ~scalarpos \/ rhs.t # "name" \/ kind[env[rhs.n]] # "sparse" \/ kind[env[src]] # "sparse"
\* documented result kinds of  A (+|-|*) B
BinKind(op, a, b) ==
    IF op = "/" THEN (IF OpKind(a) = "num" THEN "dense" ELSE OpKind(a))        \* "dense if A is dense, and sparse if A is sparse"
    ELSE IF OpKind(a) = "sparse" /\ OpKind(b) = "sparse" THEN "sparse"
    ELSE IF op = "*" /\ ((OpKind(a) = "sparse" /\ (OpKind(b) = "num" \/ (b.t = "name" /\ Size(heap[env[b.n]]) = 1 /\ heap[env[a.n]].nc # 1)))
                         \/ (OpKind(b) = "sparse" /\ (OpKind(a) = "num" \/ (a.t = "name" /\ Size(heap[env[a.n]]) = 1 /\ heap[env[b.n]].nr # 1))))
         THEN "sparse"                   \* scalar multiplication keeps the storage of the matrix
    ELSE "dense"

SDo(op) ==
    /\ OperandsBound(op)
    /\ CASE op.k = "sp_new"   -> SProduce(FromTriplets(op.V, op.I, op.J, op.size[1], op.size[2], op.tc), op.dst, "sparse")
         [] op.k = "new_list" -> SProduce(NewList(op.s, op.size, op.tc), op.dst, "dense")
         [] op.k = "to_sparse" -> SProduce([k |-> "mat", m |-> heap[env[op.src]]], op.dst, "sparse")
         [] op.k = "to_dense" -> SProduce([k |-> "mat", m |-> heap[env[op.src]]], op.dst, "dense")
         [] op.k = "get1"     -> SProduce(Get1(heap[env[op.src]], op.ix), op.dst, kind[env[op.src]])
         [] op.k = "get2"     -> SProduce(Get2(heap[env[op.src]], op.ix, op.jx), op.dst, kind[env[op.src]])
         [] op.k = "set1"     -> LET S == IndexSet(op.ix, Size(heap[env[op.src]])) IN
                                 IF S.ok /\ (~SRhsOK(op.rhs, Len(S.idx)) \/ ~SRhsScalarPosOK(op.rhs, S.scalar, op.src))
                                 THEN /\ UNCHANGED <<heap, env, nextid, kind>> /\ out' = Err("TypeOrValue")
                                 ELSE SMutate(Set1(heap[env[op.src]], op.ix, Rhs(op.rhs)), op.src)
         [] op.k = "set2"     -> LET I == IndexSet(op.ix, heap[env[op.src]].nr)  J == IndexSet(op.jx, heap[env[op.src]].nc) IN
                                 IF I.ok /\ J.ok /\ (~SRhsOK(op.rhs, Len(I.idx) * Len(J.idx)) \/ ~SRhsScalarPosOK(op.rhs, I.scalar /\ J.scalar, op.src))
                                 THEN /\ UNCHANGED <<heap, env, nextid, kind>> /\ out' = Err("TypeOrValue")
                                 ELSE SMutate(Set2(heap[env[op.src]], op.ix, op.jx, Rhs(op.rhs)), op.src)
         [] op.k = "binop"    -> SProduce(SBinOp(op.o, op.a, op.b), op.dst, BinKind(op.o, op.a, op.b))
         [] op.k = "ibinop" /\ op.o = "/" /\ kind[env[op.src]] = "sparse" /\ op.b.t # "num" ->
                                 /\ UNCHANGED <<heap, env, nextid, kind>> /\ out' = [k |-> "unspec"]
         [] op.k = "ibinop"   -> \* in place only if neither the typecode nor the storage kind would change
                                 \* (A *= c with a number or a 1 by 1 dense matrix c is always the scalar product: the kind is kept)
                                 IF ~(op.o = "*" /\ (op.b.t = "num" \/ (kind[env[op.b.n]] = "dense" /\ Size(heap[env[op.b.n]]) = 1)))
                                    /\ BinKind(op.o, [t |-> "name", n |-> op.src], op.b) # kind[env[op.src]]
                                 THEN /\ UNCHANGED <<heap, env, nextid, kind>> /\ out' = Err("TypeOrValue")
                                 ELSE IF ~SpNotScalarOK(op.o, [t |-> "name", n |-> op.src], op.b)
                                         \/ (op.o = "*" /\ op.b.t = "name" /\ kind[env[op.b.n]] = "sparse")      \* no in-place matrix products
                                 THEN /\ UNCHANGED <<heap, env, nextid, kind>> /\ out' = Err("TypeOrValue")
                                 ELSE SMutate(IBinOp(op.o, heap[env[op.src]], Operand(op.b)), op.src)
         [] op.k = "unary"    -> SProduce([k |-> "mat", m |-> Unary(op.u, heap[env[op.src]])], op.dst, kind[env[op.src]])
         [] op.k = "abs"      -> SProduce(AbsM(heap[env[op.src]]), op.dst, kind[env[op.src]])
         [] op.k = "alias"    -> /\ env' = [env EXCEPT ![op.dst] = env[op.src]] /\ UNCHANGED <<heap, nextid, kind>> /\ out' = NoOut

\* design-level invariants
KindStable == [][\A i \in 1..40 : i < nextid => kind'[i] = kind[i]]_svars
SparseTc == \A n \in Names : env[n] # Unbound /\ kind[env[n]] = "sparse" => heap[env[n]].tc \in {"d", "z"}
=============================================================================
