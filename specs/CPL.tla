-------------------------------- MODULE CPL --------------------------------
(***************************************************************************)
(* Faithful control model of cvxopt.cvxprog.cpl (also reached through cp    *)
(* and gp): per iteration one evaluation of F, one KKT factorisation and    *)
(* 2*(1+Refinement) KKT solves, the domain backtracking of the line search  *)
(* (F returns None -> step := step*BETA) and the non-monotone line search   *)
(* with its counter relaxed_iters in -1..MaxRelaxed, a saved state, and the *)
(* restore-and-retry of a failing factorisation that follows a relaxed      *)
(* line search (cvxprog.py: "The arithmetic error may be caused by a        *)
(* relaxed line search in the previous iteration").                         *)
(*                                                                          *)
(* Environment choices: stopping predicates, where KKT calls fail, how      *)
(* often F refuses a trial point (at most MaxRefuse times per search; a     *)
(* convex domain containing the current iterate guarantees that small       *)
(* enough steps are accepted), and which of the merit-function tests pass.  *)
(*                                                                          *)
(* Named deviation of the code from its comments, modelled as it is:        *)
(* StdSearchKeepsMinusOne - after a standard line search that follows a     *)
(* resume, the code executes the comparison `relaxed_iters == 0` instead    *)
(* of an assignment, so the counter stays at -1.                            *)
(***************************************************************************)
EXTENDS SolverContract

CONSTANTS MaxIters, Refinement, MaxFaults, F6Guarded, MaxRelaxed, MaxRefuse

VARIABLES pc, j, nfaults, fclass,
          relaxed,      \* relaxed_iters
          saved,        \* a line-search state has been saved
          retried,      \* the factorisation of this iteration has already been retried after a restore
          refusals      \* F returned None this many times in the current search
fvars == <<pc, j, nfaults, fclass, relaxed, saved, retried, refusals>>
allvars == <<cvars, fvars>>
Bool == {TRUE, FALSE}
Preds == [feas : Bool, gap : Bool, pinf : {FALSE}, dinf : {FALSE}]
GoodCert(st) ==
    CASE st = "optimal" -> [pres_ok |-> TRUE, dres_ok |-> TRUE, s_in_cone |-> TRUE, z_in_cone |-> TRUE, gap_ok |-> TRUE,
                            fields_ok |-> TRUE, split_ok |-> TRUE, objective_in_bounds |-> TRUE, x_in_domain |-> TRUE]
      [] st = "unknown" -> [s_interior |-> TRUE, z_interior |-> TRUE, fields_ok |-> TRUE, near_1e5 |-> TRUE]

Init == /\ CInit /\ pc = "validate" /\ j = 0 /\ nfaults = 0 /\ fclass = <<"none", "none", 0>>
        /\ relaxed = 0 /\ saved = FALSE /\ retried = FALSE /\ refusals = 0

KktCall(kind, ok) ==
    /\ (ok \/ nfaults < MaxFaults)
    /\ Kkt(kind, ok, TRUE)
    /\ nfaults' = IF ok THEN nfaults ELSE nfaults + 1
    /\ fclass' = IF ~ok /\ nfaults = 0 THEN <<Phase, kind, j>> ELSE fclass
    /\ j' = j + 1
KeepLS == UNCHANGED <<relaxed, saved, retried, refusals>>

Validate == /\ pc = "validate"
            /\ Start([solver |-> "cpl", maxiters |-> MaxIters, bothstarts |-> FALSE, truth |-> "none"])
            /\ pc' = "itertop" /\ UNCHANGED <<j, nfaults, fclass>> /\ KeepLS

IterTop(p) == /\ pc = "itertop" /\ Iter(IF sawIter THEN iters + 1 ELSE 0, p) /\ pc' = "decide" /\ j' = 0
              /\ retried' = FALSE /\ UNCHANGED <<nfaults, fclass, relaxed, saved, refusals>>
Decision(p, k) == IF k = MaxIters THEN "unknown" ELSE IF p.feas /\ p.gap THEN "optimal" ELSE "continue"
Decide == /\ pc = "decide"
          /\ LET d == Decision(lastPreds, iters) IN
             IF d = "continue" THEN pc' = "factor" /\ UNCHANGED cvars
             ELSE Return(d, iters, GoodCert(d)) /\ pc' = "done"
          /\ UNCHANGED <<j, nfaults, fclass>> /\ KeepLS

\* the factorisation; on failure: iteration 0 -> ValueError; after a relaxed search -> restore the saved state and retry once
Factor(ok) ==
    /\ pc = "factor" /\ KktCall("factor", ok)
    /\ IF ok THEN pc' = "f4" /\ KeepLS
       ELSE IF iters = 0 THEN pc' = "raise_ve" /\ KeepLS
       ELSE IF 0 < relaxed /\ relaxed < MaxRelaxed /\ ~retried
            THEN pc' = "factor" /\ relaxed' = -1 /\ retried' = TRUE /\ UNCHANGED <<saved, refusals>>    \* RestoreState
            ELSE pc' = "ret_unknown" /\ KeepLS
F4Solve(ok) ==
    /\ pc = "f4" /\ KktCall("solve", ok)
    /\ pc' = IF ~ok THEN (IF iters = 0 THEN "raise_ve" ELSE "ret_unknown")
             ELSE IF j % (1 + Refinement) = 0 THEN "domain" ELSE "f4"      \* j solves done (the factorisation was call 0)
    /\ refusals' = 0 /\ UNCHANGED <<relaxed, saved, retried>>

\* "Backtrack until newx is in domain of f": F(newx) is None -> step *= BETA
DomainRefuse == /\ pc = "domain" /\ refusals < MaxRefuse /\ refusals' = refusals + 1
                /\ UNCHANGED <<cvars, pc, j, nfaults, fclass, relaxed, saved, retried>>
DomainAccept == /\ pc = "domain"
                \* after the affine step (first f4) comes the second f4; after the second the merit line search
                /\ pc' = IF j = 2 + Refinement THEN "f4" ELSE "linesearch"
                /\ UNCHANGED <<cvars, j, nfaults, fclass, relaxed, saved, retried, refusals>>

\* the seven branches of the line search for i = 1 (cvxprog.py); `dec` = sufficient decrease of the merit function
LineSearch(dec) ==
    /\ pc = "linesearch"
    /\ \/ /\ relaxed = -1                                   \* standard search after a resume / restore
          /\ dec /\ relaxed' = -1 /\ UNCHANGED saved        \* StdSearchKeepsMinusOne (named deviation)
          /\ pc' = "update"
       \/ /\ relaxed = -1 /\ ~dec /\ UNCHANGED <<relaxed, saved>> /\ pc' = "linesearch"     \* step *= BETA, try again
       \/ /\ relaxed = 0 /\ MaxRelaxed > 0 /\ dec /\ relaxed' = 0 /\ UNCHANGED saved /\ pc' = "update"
       \/ /\ relaxed = 0 /\ MaxRelaxed > 0 /\ ~dec /\ saved' = TRUE /\ relaxed' = 1 /\ pc' = "update"          \* SaveState
       \/ /\ 0 < relaxed /\ relaxed < MaxRelaxed /\ dec /\ relaxed' = 0 /\ UNCHANGED saved /\ pc' = "update"
       \/ /\ 0 < relaxed /\ relaxed < MaxRelaxed /\ ~dec /\ relaxed' = relaxed + 1 /\ UNCHANGED saved /\ pc' = "update"
       \/ /\ relaxed = MaxRelaxed /\ MaxRelaxed > 0 /\ dec /\ relaxed' = 0 /\ UNCHANGED saved /\ pc' = "update"
       \/ /\ relaxed = MaxRelaxed /\ MaxRelaxed > 0 /\ ~dec /\ relaxed' = -1 /\ UNCHANGED saved /\ pc' = "linesearch"   \* ResumeSaved
    /\ UNCHANGED <<cvars, j, nfaults, fclass, retried, refusals>>

Update == pc = "update" /\ pc' = "itertop" /\ UNCHANGED <<cvars, j, nfaults, fclass>> /\ KeepLS
RaiseVE == pc = "raise_ve" /\ Raise("ValueError") /\ pc' = "done" /\ UNCHANGED <<j, nfaults, fclass>> /\ KeepLS
RetUnknown == pc = "ret_unknown" /\ Return("unknown", iters, GoodCert("unknown")) /\ pc' = "done"
              /\ UNCHANGED <<j, nfaults, fclass>> /\ KeepLS

Next == \/ Validate \/ Decide \/ Update \/ RaiseVE \/ RetUnknown \/ DomainRefuse \/ DomainAccept
        \/ \E ok \in Bool : Factor(ok) \/ F4Solve(ok)
        \/ \E d \in Bool : LineSearch(d)
        \/ \E p \in Preds : IterTop(p)
Spec == Init /\ [][Next]_allvars

PcOK == pc \in {"validate", "itertop", "decide", "factor", "f4", "domain", "linesearch", "update", "raise_ve", "ret_unknown", "done"}
ItersBounded == iters <= MaxIters
Terminates == pc = "done" <=> phase = "done"
RelaxedRange == relaxed \in -1..MaxRelaxed
\* every read of the saved line-search state is preceded by a save
SavedBeforeUse == (relaxed = MaxRelaxed /\ MaxRelaxed > 0 => saved) /\ (0 < relaxed => saved)
Iter0Rule == Done /\ pending /\ faultPhase = "iter0" => outcome.kind = "raise" /\ outcome.cls = "ValueError"
=============================================================================
