------------------------------ MODULE MC_OpEdit ------------------------------
EXTENDS OpEdit, Json
\* dump of the pool and of the classification table for the spec -> code replay
TableRows == {[o |-> o, S |-> S, allowed |-> Table[o, S].allowed, opt |-> Table[o, S].opt, cls |-> Table[o, S].cls]
              : o \in Obj, S \in SUBSET Con}
Pool == [cons |-> {[name |-> c, coef |-> Coef(c), rhs |-> Rhs(c), type |-> TypeOfCon(c)] : c \in Con},
         objs |-> {[name |-> o, cost |-> Cost(o)] : o \in Obj}]
DumpTable == PoolRich /\ JsonSerialize("optable.json", [rows |-> TableRows, pool |-> Pool])
ASSUME DumpTable
=============================================================================
