----------------------------- MODULE DenseMatrix -----------------------------
(***************************************************************************)
(* Reference column-major model of cvxopt's dense matrices, written from   *)
(* doc/source/matrices.rst: a heap of matrix objects                        *)
(*      heap : Id -> [tc, nr, nc, buf]       Len(buf) = nr*nc               *)
(* and an environment of names env : Name -> Id (several names may hold one *)
(* object: plain assignment aliases).  Entries are Gaussian integers        *)
(* <<re, im>> (typecodes 'i' and 'd' have im = 0); integer-valued data make *)
(* the implementation's floating-point arithmetic exact, so the real        *)
(* object must equal the model exactly.                                     *)
(*                                                                          *)
(* Every operation is an operator Eval(op, heap, env) returning             *)
(*      [out, heap, env]   out = [k |-> "num" | "mat" | "none" | "err", ..] *)
(* so that the same definitions serve the exhaustive exploration (Next      *)
(* ranges over a box of operations) and the validation of traces recorded   *)
(* from the implementation (the operation is read from the trace).          *)
(***************************************************************************)
EXTENDS Integers, Sequences, FiniteSets, TLC

NoneV == "None"           \* absent typecode argument
NoneI == 999              \* absent integer (slice start / stop / step)
NoSize == <<999, 999>>    \* absent size argument
Rank(tc) == CASE tc = "i" -> 0 [] tc = "d" -> 1 [] tc = "z" -> 2
MaxTc(a, b) == IF Rank(a) >= Rank(b) THEN a ELSE b

(* Gaussian integers *)
CZ == <<0, 0>>
CAdd(a, b) == <<a[1] + b[1], a[2] + b[2]>>
CNeg(a) == <<-a[1], -a[2]>>
CSub(a, b) == CAdd(a, CNeg(b))
CMul(a, b) == <<a[1] * b[1] - a[2] * b[2], a[1] * b[2] + a[2] * b[1]>>
CConj(a) == <<a[1], -a[2]>>
RECURSIVE CSum(_)
CSum(s) == IF s = <<>> THEN CZ ELSE CAdd(Head(s), CSum(Tail(s)))

Mat(tc, nr, nc, buf) == [tc |-> tc, nr |-> nr, nc |-> nc, buf |-> buf]
At(m, i, j) == m.buf[j * m.nr + i + 1]                   \* 0-based (i, j), column-major
Size(m) == m.nr * m.nc

Err(c)   == [k |-> "err", cls |-> c]
Num(tc, v) == [k |-> "num", tc |-> tc, v |-> v]
NoOut    == [k |-> "none"]

(******************************* indexing *********************************)
\* Python's slice.indices(n); a, b, c are integers or NoneI
SliceIdx(a, b, c, n) ==
    LET st == IF c = NoneI THEN 1 ELSE c
        lower == IF st < 0 THEN -1 ELSE 0
        upper == IF st < 0 THEN n - 1 ELSE n
        clip(v) == IF v < 0 THEN (IF v + n < lower THEN lower ELSE v + n) ELSE (IF v > upper THEN upper ELSE v)
        s == IF a = NoneI THEN (IF st < 0 THEN upper ELSE lower) ELSE clip(a)
        e == IF b = NoneI THEN (IF st < 0 THEN lower ELSE upper) ELSE clip(b)
        cnt == IF st > 0 THEN (IF e > s THEN (e - s + st - 1) \div st ELSE 0)
               ELSE (IF s > e THEN (s - e + (-st) - 1) \div (-st) ELSE 0)
    IN  [k \in 1..cnt |-> s + (k - 1) * st]

\* an index argument: [t |-> "int", v], [t |-> "slice", a, b, c], [t |-> "list", vs |-> seq]  (an integer matrix = its list)
\* result: [ok, idx (0-based positions), scalar]
Norm1(k, n) == IF k < 0 THEN k + n ELSE k
InRange(k, n) == -n <= k /\ k < n
IndexSet(ix, n) ==
    CASE ix.t = "int"   -> IF InRange(ix.v, n) THEN [ok |-> TRUE, idx |-> <<Norm1(ix.v, n)>>, scalar |-> TRUE]
                           ELSE [ok |-> FALSE, idx |-> <<>>, scalar |-> TRUE]
      [] ix.t = "slice" -> IF ix.c = 0 THEN [ok |-> FALSE, idx |-> <<>>, scalar |-> FALSE]
                           ELSE [ok |-> TRUE, idx |-> SliceIdx(ix.a, ix.b, ix.c, n), scalar |-> FALSE]
      [] ix.t = "list"  -> IF \A i \in DOMAIN ix.vs : InRange(ix.vs[i], n)
                           THEN [ok |-> TRUE, idx |-> [i \in DOMAIN ix.vs |-> Norm1(ix.vs[i], n)], scalar |-> FALSE]
                           ELSE [ok |-> FALSE, idx |-> <<>>, scalar |-> FALSE]

(***************************** constructors *******************************)
\* tc conversion is only possible upwards ('i' -> 'd' -> 'z')
Conv(v, fromtc, totc) == v
NewNum(x, size, tc) ==
    LET t == IF tc = NoneV THEN x.tc ELSE tc
        nr == IF size = NoSize THEN 1 ELSE size[1]
        nc == IF size = NoSize THEN 1 ELSE size[2]
    IN  IF Rank(t) < Rank(x.tc) \/ nr < 0 \/ nc < 0 THEN Err("TypeOrValue")
        ELSE [k |-> "mat", m |-> Mat(t, nr, nc, [i \in 1..(nr * nc) |-> x.v])]
\* a sequence of numbers: one column by default, typecode of the "largest" element, 'i' for an empty sequence
SeqTc(s) == IF \E i \in DOMAIN s : s[i].tc = "z" THEN "z" ELSE IF \E i \in DOMAIN s : s[i].tc = "d" THEN "d" ELSE "i"
NewList(s, size, tc) ==
    LET t0 == SeqTc(s)
        t == IF tc = NoneV THEN t0 ELSE tc
        nr == IF size = NoSize THEN Len(s) ELSE size[1]
        nc == IF size = NoSize THEN 1 ELSE size[2]
    IN  IF Rank(t) < Rank(t0) \/ nr < 0 \/ nc < 0 \/ nr * nc # Len(s) THEN Err("TypeOrValue")
        ELSE [k |-> "mat", m |-> Mat(t, nr, nc, [i \in 1..Len(s) |-> s[i].v])]
\* from a matrix: a copy, optionally reshaped (same number of elements) and converted upwards
NewMat(a, size, tc) ==
    LET t == IF tc = NoneV THEN a.tc ELSE tc
        nr == IF size = NoSize THEN a.nr ELSE size[1]
        nc == IF size = NoSize THEN a.nc ELSE size[2]
    IN  IF (Rank(t) < Rank(a.tc) /\ Size(a) > 0) \/ nr < 0 \/ nc < 0 \/ nr * nc # Size(a) THEN Err("TypeOrValue")
        ELSE [k |-> "mat", m |-> Mat(t, nr, nc, a.buf)]      \* CALIBRATED: an empty matrix converts to any typecode

(******************************** reading *********************************)
Get1(a, ix) ==
    LET S == IndexSet(ix, Size(a)) IN
    IF ~S.ok THEN Err(IF ix.t = "slice" THEN "TypeOrValue" ELSE "IndexError")
    ELSE IF S.scalar THEN Num(a.tc, a.buf[S.idx[1] + 1])
    ELSE [k |-> "mat", m |-> Mat(a.tc, Len(S.idx), 1, [i \in 1..Len(S.idx) |-> a.buf[S.idx[i] + 1]])]
Get2(a, ix, jx) ==
    LET I == IndexSet(ix, a.nr)
        J == IndexSet(jx, a.nc) IN
    IF ~I.ok \/ ~J.ok THEN Err(IF (ix.t = "slice" /\ ~I.ok) \/ (jx.t = "slice" /\ ~J.ok) THEN "TypeOrValue" ELSE "IndexError")
    ELSE IF I.scalar /\ J.scalar THEN Num(a.tc, At(a, I.idx[1], J.idx[1]))
    ELSE LET nr == Len(I.idx)  nc == Len(J.idx) IN
         [k |-> "mat", m |-> Mat(a.tc, nr, nc, [p \in 1..(nr * nc) |-> At(a, I.idx[((p - 1) % nr) + 1], J.idx[((p - 1) \div nr) + 1])])]

(******************************* assignment *******************************)
\* rhs: [t |-> "num", x] | [t |-> "mat", m] | [t |-> "list", s]
\* positions: a sequence of 0-based buffer positions (later writes win), lhs shape (nr, nc)
RECURSIVE WriteAll(_, _, _, _)
WriteAll(buf, pos, vals, k) ==
    IF k > Len(pos) THEN buf ELSE WriteAll([buf EXCEPT ![pos[k] + 1] = vals[k]], pos, vals, k + 1)
\* a sequence on the right-hand side is "the coefficients of a dense matrix in column-major order": a column of Len(s) entries;
\* like a 1 by 1 matrix, a one-element sequence is a scalar
RhsTc(rhs) == CASE rhs.t = "num" -> rhs.x.tc [] rhs.t = "mat" -> rhs.m.tc [] rhs.t = "list" -> SeqTc(rhs.s)
RhsTypeOK(a, rhs) == Rank(RhsTc(rhs)) <= Rank(a.tc) \/ (rhs.t = "list" /\ rhs.s = <<>>)
Assign(a, pos, lnr, lnc, rhs) ==
    LET n == Len(pos) IN
    IF ~RhsTypeOK(a, rhs) THEN Err("TypeOrValue")
    \* CALIBRATED: an empty left-hand side - nothing is assigned; whether a right-hand side of another shape is refused is unspecified
    ELSE IF n = 0 /\ rhs.t # "num" THEN [k |-> "ok", m |-> a, lax |-> TRUE]
    ELSE CASE rhs.t = "num" ->
            [k |-> "ok", m |-> [a EXCEPT !.buf = WriteAll(a.buf, pos, [i \in 1..n |-> rhs.x.v], 1)]]
      [] rhs.t = "mat" ->
            IF Size(rhs.m) = 1 /\ n # 1 THEN     \* a 1 by 1 matrix is a scalar
                 [k |-> "ok", m |-> [a EXCEPT !.buf = WriteAll(a.buf, pos, [i \in 1..n |-> rhs.m.buf[1]], 1)]]
            ELSE IF rhs.m.nr # lnr \/ rhs.m.nc # lnc THEN Err("TypeOrValue")
            ELSE [k |-> "ok", m |-> [a EXCEPT !.buf = WriteAll(a.buf, pos, rhs.m.buf, 1)]]
      [] rhs.t = "list" ->
            IF Len(rhs.s) = 1 /\ n # 1 THEN
                 [k |-> "ok", m |-> [a EXCEPT !.buf = WriteAll(a.buf, pos, [i \in 1..n |-> rhs.s[1].v], 1)]]
            ELSE IF Len(rhs.s) # n THEN Err("TypeOrValue")
            ELSE [k |-> "ok", m |-> [a EXCEPT !.buf = WriteAll(a.buf, pos, [i \in 1..n |-> rhs.s[i].v], 1)]]
\* when the index is invalid AND the right-hand side has an inadmissible type, which of the two errors is reported is not specified
IdxErr(ix, a, rhs) == Err(IF ~RhsTypeOK(a, rhs) THEN "AnyErr" ELSE IF ix THEN "TypeOrValue" ELSE "IndexError")
Set1(a, ix, rhs) ==
    LET S == IndexSet(ix, Size(a)) IN
    IF ~S.ok THEN IdxErr(ix.t = "slice", a, rhs)
    ELSE Assign(a, S.idx, Len(S.idx), 1, rhs)
Set2(a, ix, jx, rhs) ==
    LET I == IndexSet(ix, a.nr)
        J == IndexSet(jx, a.nc) IN
    IF ~I.ok \/ ~J.ok THEN IdxErr((ix.t = "slice" /\ ~I.ok) \/ (jx.t = "slice" /\ ~J.ok), a, rhs)
    ELSE LET nr == Len(I.idx)  nc == Len(J.idx)
             pos == [p \in 1..(nr * nc) |-> J.idx[((p - 1) \div nr) + 1] * a.nr + I.idx[((p - 1) % nr) + 1]]
         IN  Assign(a, pos, nr, nc, rhs)

(******************************* arithmetic *******************************)
\* an operand: [t |-> "num", x] or [t |-> "mat", m]
Bcast(o, nr, nc) == IF o.t = "num" THEN [p \in 1..(nr * nc) |-> o.x.v]
                    ELSE IF Size(o.m) = 1 THEN [p \in 1..(nr * nc) |-> o.m.buf[1]] ELSE o.m.buf
OTc(o) == IF o.t = "num" THEN o.x.tc ELSE o.m.tc
IsScalar(o) == o.t = "num" \/ (o.m.nr = 1 /\ o.m.nc = 1)
\* shape of A (+|-) B : equal sizes, or one operand a number / 1 by 1 matrix
AddShape(a, b) ==
    IF a.t = "mat" /\ b.t = "mat" THEN
        (IF a.m.nr = b.m.nr /\ a.m.nc = b.m.nc THEN <<a.m.nr, a.m.nc>>
         ELSE IF Size(a.m) = 1 THEN <<b.m.nr, b.m.nc>> ELSE IF Size(b.m) = 1 THEN <<a.m.nr, a.m.nc>> ELSE <<-1, -1>>)
    ELSE IF a.t = "mat" THEN <<a.m.nr, a.m.nc>> ELSE IF b.t = "mat" THEN <<b.m.nr, b.m.nc>> ELSE <<-1, -1>>
AddSub(a, b, minus) ==
    LET sh == AddShape(a, b) IN
    IF sh[1] < 0 THEN Err("TypeOrValue")
    ELSE LET x == Bcast(a, sh[1], sh[2])   y == Bcast(b, sh[1], sh[2]) IN
         [k |-> "mat", m |-> Mat(MaxTc(OTc(a), OTc(b)), sh[1], sh[2],
                                [p \in 1..(sh[1] * sh[2]) |-> IF minus THEN CSub(x[p], y[p]) ELSE CAdd(x[p], y[p])])]
MatMul(a, b) == Mat(MaxTc(a.tc, b.tc), a.nr, b.nc,
                    [p \in 1..(a.nr * b.nc) |-> LET i == (p - 1) % a.nr   j == (p - 1) \div a.nr
                                                IN  CSum([t \in 1..a.nc |-> CMul(At(a, i, t - 1), At(b, t - 1, j))])])
Scalar(o) == IF o.t = "num" THEN o.x.v ELSE o.m.buf[1]
Mul(a, b) ==
    IF a.t = "mat" /\ b.t = "mat" /\ a.m.nc = b.m.nr THEN [k |-> "mat", m |-> MatMul(a.m, b.m)]
    ELSE IF a.t = "mat" /\ IsScalar(b)
         THEN [k |-> "mat", m |-> Mat(MaxTc(OTc(a), OTc(b)), a.m.nr, a.m.nc, [p \in 1..Size(a.m) |-> CMul(a.m.buf[p], Scalar(b))])]
    ELSE IF b.t = "mat" /\ IsScalar(a)
         THEN [k |-> "mat", m |-> Mat(MaxTc(OTc(a), OTc(b)), b.m.nr, b.m.nc, [p \in 1..Size(b.m) |-> CMul(Scalar(a), b.m.buf[p])])]
    ELSE Err("TypeOrValue")
(*************** division, remainder, powers, absolute values ****************)
(* Results that are not Gaussian integers cannot be written in this model: the operator then returns                           *)
(*      [k |-> "cut", tc, nr, nc]   type and shape of the result are specified, its values are not compared, the trace ends    *)
(*      [k |-> "unspec"]            the manual does not say what happens (elementwise division by a zero entry): the trace ends *)
Cut(tc, nr, nc) == [k |-> "cut", tc |-> tc, nr |-> nr, nc |-> nc]
IsCZ(c) == c[1] = 0 /\ c[2] = 0
Norm2(c) == c[1] * c[1] + c[2] * c[2]
\* The implementation divides by multiplying with the reciprocal (dscal / zscal with 1/c): the quotient is exact in floating point only when
\* the reciprocal is, i.e. for a real divisor that is a power of two; every other quotient is "equal to rounding" and is not compared here.
Pow2(c) == c[2] = 0 /\ (c[1] \in {1, 2, 4, 8, 16} \/ -c[1] \in {1, 2, 4, 8, 16})
DivExact(v, c) == LET n == CMul(v, CConj(c)) IN Pow2(c) /\ n[1] % Norm2(c) = 0 /\ n[2] % Norm2(c) = 0
CDiv(v, c) == LET n == CMul(v, CConj(c)) IN <<n[1] \div Norm2(c), n[2] \div Norm2(c)>>
\* A / c : "dividing all its entries by c"; c a number or a 1 by 1 matrix; integer / integer is a real matrix (Python 3)
\* (a number divided by a 1 by 1 matrix is not in the table of the manual: unspecified)
Div(a, b) ==
    IF a.t = "num" /\ b.t = "mat" /\ Size(b.m) = 1 THEN [k |-> "unspec"]
    ELSE IF a.t # "mat" \/ ~IsScalar(b) THEN Err("TypeOrValue")
    ELSE LET c == Scalar(b)
             tc == MaxTc(MaxTc(a.m.tc, OTc(b)), "d")
         IN  IF IsCZ(c) THEN Err("ZeroDivision")
             ELSE IF \A p \in 1..Size(a.m) : DivExact(a.m.buf[p], c)
                  THEN [k |-> "mat", m |-> Mat(tc, a.m.nr, a.m.nc, [p \in 1..Size(a.m) |-> CDiv(a.m.buf[p], c)])]
                  ELSE Cut(tc, a.m.nr, a.m.nc)
\* D % c : remainder with the sign of the divisor (Python convention); not defined for complex operands
FloorMod(v, c) == IF c > 0 THEN v % c ELSE -((-v) % (-c))
Mod(a, b) ==
    IF a.t = "num" /\ b.t = "mat" /\ Size(b.m) = 1 THEN [k |-> "unspec"]
    ELSE IF a.t # "mat" \/ ~IsScalar(b) THEN Err("TypeOrValue")
    ELSE IF a.m.tc = "z" \/ OTc(b) = "z" THEN Err("Unsupported")
    ELSE IF IsCZ(Scalar(b)) THEN Err("ZeroDivision")
    ELSE [k |-> "mat", m |-> Mat(MaxTc(a.m.tc, OTc(b)), a.m.nr, a.m.nc, [p \in 1..Size(a.m) |-> <<FloorMod(a.m.buf[p][1], Scalar(b)[1]), 0>>])]
\* D ** e : elementwise, e a Python number; an integer matrix gives a real matrix
RECURSIVE IPow(_, _)
IPow(v, e) == IF e = 0 THEN <<1, 0>> ELSE CMul(v, IPow(v, e - 1))
Pow(a, e) ==
    IF a.t # "mat" \/ e.t # "num" THEN Err("TypeOrValue")
    ELSE LET tc == IF a.m.tc = "z" \/ e.x.tc = "z" THEN "z" ELSE "d" IN
         \* zero has no negative and no properly complex power: the model has no answer, an exception is required
         IF (e.x.v[1] < 0 \/ e.x.v[2] # 0) /\ \E p \in 1..Size(a.m) : IsCZ(a.m.buf[p]) THEN Err("AnyErr")
         ELSE IF e.x.tc = "z" /\ IsCZ(e.x.v) /\ \E p \in 1..Size(a.m) : IsCZ(a.m.buf[p]) THEN [k |-> "unspec"]      \* 0 ** 0j
         ELSE IF tc = "z" \/ e.x.v[1] < 0 THEN Cut(tc, a.m.nr, a.m.nc)            \* complex powers go through exp / log: not exact
         ELSE [k |-> "mat", m |-> Mat(tc, a.m.nr, a.m.nc, [p \in 1..Size(a.m) |-> IPow(a.m.buf[p], e.x.v[1])])]
\* abs(A): integer stays integer, real stays real, complex gives the real matrix of moduli
ISqrt(n) == CHOOSE r \in 0..n : r * r <= n /\ (r + 1) * (r + 1) > n
AbsM(a) ==
    IF a.tc # "z" THEN [k |-> "mat", m |-> Mat(a.tc, a.nr, a.nc, [p \in 1..Size(a) |-> <<IF a.buf[p][1] < 0 THEN -a.buf[p][1] ELSE a.buf[p][1], 0>>])]
    ELSE IF \A p \in 1..Size(a) : ISqrt(Norm2(a.buf[p])) * ISqrt(Norm2(a.buf[p])) = Norm2(a.buf[p])
         THEN [k |-> "mat", m |-> Mat("d", a.nr, a.nc, [p \in 1..Size(a) |-> <<ISqrt(Norm2(a.buf[p])), 0>>])]
         ELSE Cut("d", a.nr, a.nc)

(************************ elementwise functions (cvxopt.mul, div, max, min) ************************)
\* two arguments: matrices of the same size, or scalars (a 1 by 1 matrix is a scalar unless all arguments are 1 by 1)
EwShape(a, b) == AddShape(a, b)
EwMul(a, b) ==
    IF a.t = "num" /\ b.t = "num" THEN Num(MaxTc(a.x.tc, b.x.tc), CMul(a.x.v, b.x.v))
    ELSE LET sh == EwShape(a, b) IN
         IF sh[1] < 0 THEN Err("TypeOrValue")
         ELSE LET x == Bcast(a, sh[1], sh[2])  y == Bcast(b, sh[1], sh[2]) IN
              [k |-> "mat", m |-> Mat(MaxTc(OTc(a), OTc(b)), sh[1], sh[2], [p \in 1..(sh[1] * sh[2]) |-> CMul(x[p], y[p])])]
EwDiv(a, b) ==
    IF a.t = "num" /\ b.t = "num" THEN [k |-> "unspec"]
    ELSE LET sh == EwShape(a, b) IN
         IF sh[1] < 0 THEN Err("TypeOrValue")
         ELSE LET x == Bcast(a, sh[1], sh[2])  y == Bcast(b, sh[1], sh[2])
                  tc == MaxTc(MaxTc(OTc(a), OTc(b)), "d") IN
              IF \E p \in 1..(sh[1] * sh[2]) : IsCZ(y[p]) THEN [k |-> "unspec"]
              ELSE IF \A p \in 1..(sh[1] * sh[2]) : DivExact(x[p], y[p])
                   THEN [k |-> "mat", m |-> Mat(tc, sh[1], sh[2], [p \in 1..(sh[1] * sh[2]) |-> CDiv(x[p], y[p])])]
                   ELSE Cut(tc, sh[1], sh[2])
EwMaxMin(a, b, ismax) ==
    IF OTc(a) = "z" \/ OTc(b) = "z" THEN Err("TypeOrValue")
    ELSE LET pick(u, v) == IF ismax THEN (IF u[1] >= v[1] THEN u ELSE v) ELSE (IF u[1] <= v[1] THEN u ELSE v) IN
         IF a.t = "num" /\ b.t = "num" THEN [k |-> "unspec"]       \* "the result is a number": which of the two equal-valued number types is not said
         ELSE LET sh == EwShape(a, b) IN
              IF sh[1] < 0 THEN Err("TypeOrValue")
              ELSE LET x == Bcast(a, sh[1], sh[2])  y == Bcast(b, sh[1], sh[2]) IN
                   [k |-> "mat", m |-> Mat(MaxTc(OTc(a), OTc(b)), sh[1], sh[2], [p \in 1..(sh[1] * sh[2]) |-> pick(x[p], y[p])])]
\* one argument (a matrix, or a list holding one matrix): mul gives a copy - a NEW object -, max / min of a list holding one matrix too
Ew1(f, form, a) ==
    IF f = "mul" \/ form = "list" THEN (IF f # "mul" /\ a.tc = "z" THEN [k |-> "unspec"] ELSE [k |-> "mat", m |-> a])
    ELSE [k |-> "unspec"]
\* the built-in max / min of a dense matrix: the largest / smallest element (complex numbers are not ordered, an empty matrix has none)
RECURSIVE Extreme(_, _)
Extreme(s, ismax) == IF Len(s) = 1 THEN s[1]
                     ELSE LET r == Extreme(Tail(s), ismax) IN IF ismax THEN (IF s[1][1] >= r[1] THEN s[1] ELSE r) ELSE (IF s[1][1] <= r[1] THEN s[1] ELSE r)
MaxMin1(a, ismax) == IF Size(a) = 1 THEN Num(a.tc, a.buf[1])                          \* nothing to compare
                     ELSE IF a.tc = "z" \/ Size(a) = 0 THEN Err("TypeOrValue") ELSE Num(a.tc, Extreme(a.buf, ismax))

BinOp(op, a, b) == CASE op = "+" -> AddSub(a, b, FALSE) [] op = "-" -> AddSub(a, b, TRUE) [] op = "*" -> Mul(a, b)
                     [] op = "/" -> Div(a, b) [] op = "%" -> Mod(a, b) [] op = "**" -> Pow(a, b)
                     [] op = "mul" -> EwMul(a, b) [] op = "div" -> EwDiv(a, b) [] op = "max" -> EwMaxMin(a, b, TRUE) [] op = "min" -> EwMaxMin(a, b, FALSE)

\* in-place: allowed exactly when neither the type nor the size of A changes; A *= B only for scalar B
IBinOp(op, a, b) ==
    LET r == IF op = "*" THEN (IF IsScalar(b) THEN Mul([t |-> "mat", m |-> a], b) ELSE Err("TypeOrValue"))
             ELSE BinOp(op, [t |-> "mat", m |-> a], b)
    IN  IF r.k = "err" THEN (IF r.cls \in {"ZeroDivision", "Unsupported"} /\ op \in {"/", "%"} /\ MaxTc(MaxTc(a.tc, OTc(b)), IF op = "/" THEN "d" ELSE "i") # a.tc
                             THEN Err("AnyErr") ELSE r)      \* two reasons to refuse: which one is reported is not specified
        ELSE IF r.k = "unspec" THEN r
        ELSE IF r.k = "cut" THEN (IF r.tc # a.tc \/ r.nr # a.nr \/ r.nc # a.nc THEN Err("TypeOrValue") ELSE r)
        ELSE IF r.m.tc # a.tc \/ r.m.nr # a.nr \/ r.m.nc # a.nc THEN Err("TypeOrValue")
        ELSE [k |-> "ok", m |-> r.m]

Unary(u, a) ==
    CASE u = "neg"    -> Mat(a.tc, a.nr, a.nc, [p \in 1..Size(a) |-> CNeg(a.buf[p])])
      [] u = "pos"    -> a
      [] u = "copy"   -> a
      [] u = "trans"  -> Mat(a.tc, a.nc, a.nr, [p \in 1..Size(a) |-> At(a, (p - 1) \div a.nc, (p - 1) % a.nc)])
      [] u = "ctrans" -> Mat(a.tc, a.nc, a.nr, [p \in 1..Size(a) |-> CConj(At(a, (p - 1) \div a.nc, (p - 1) % a.nc))])
      [] u = "real"   -> Mat(IF a.tc = "z" THEN "d" ELSE a.tc, a.nr, a.nc, [p \in 1..Size(a) |-> <<a.buf[p][1], 0>>])
      [] u = "imag"   -> Mat(IF a.tc = "z" THEN "d" ELSE a.tc, a.nr, a.nc, [p \in 1..Size(a) |-> <<a.buf[p][2], 0>>])

(*************************** the state machine ****************************)
VARIABLES heap, env, nextid, out
vars == <<heap, env, nextid, out>>
Names == {"A", "B", "C", "D"}
Unbound == 0

Operand(o) == IF o.t = "name" THEN [t |-> "mat", m |-> heap[env[o.n]]] ELSE o
Bound(n) == env[n] # Unbound
OperandsBound(op) ==
    /\ (IF "a" \in DOMAIN op THEN (IF op.a.t = "name" THEN Bound(op.a.n) ELSE TRUE) ELSE TRUE)
    /\ (IF "b" \in DOMAIN op THEN (IF op.b.t = "name" THEN Bound(op.b.n) ELSE TRUE) ELSE TRUE)
    /\ (IF "src" \in DOMAIN op THEN Bound(op.src) ELSE TRUE)
    /\ (IF "rhs" \in DOMAIN op THEN (IF op.rhs.t = "name" THEN Bound(op.rhs.n) ELSE TRUE) ELSE TRUE)
Rhs(r) == IF r.t = "name" THEN [t |-> "mat", m |-> heap[env[r.n]]] ELSE r

\* a regular operation that produces a matrix binds it to op.dst as a FRESH object (C15b)
Produce(r, dst) ==
    IF r.k = "mat"
    THEN /\ heap' = [heap EXCEPT ![nextid] = r.m] /\ env' = [env EXCEPT ![dst] = nextid] /\ nextid' = nextid + 1
         /\ out' = [k |-> "mat"]
    ELSE /\ UNCHANGED <<heap, env, nextid>> /\ out' = r             \* a number or an error: nothing changes (C15c)
\* an in-place operation keeps the object identity (all aliases see the change)
Mutate(r, name) ==
    IF r.k = "ok" THEN /\ heap' = [heap EXCEPT ![env[name]] = r.m] /\ UNCHANGED <<env, nextid>>
                       /\ out' = IF "lax" \in DOMAIN r THEN [k |-> "none", lax |-> TRUE] ELSE NoOut
    ELSE /\ UNCHANGED <<heap, env, nextid>> /\ out' = r

Do(op) ==
    /\ OperandsBound(op)
    /\ CASE op.k = "new_num"  -> Produce(NewNum(op.x, op.size, op.tc), op.dst)
         [] op.k = "new_list" -> Produce(NewList(op.s, op.size, op.tc), op.dst)
         [] op.k = "new_mat"  -> Produce(NewMat(heap[env[op.src]], op.size, op.tc), op.dst)
         [] op.k = "get1"     -> Produce(Get1(heap[env[op.src]], op.ix), op.dst)
         [] op.k = "get2"     -> Produce(Get2(heap[env[op.src]], op.ix, op.jx), op.dst)
         [] op.k = "set1"     -> Mutate(Set1(heap[env[op.src]], op.ix, Rhs(op.rhs)), op.src)
         [] op.k = "set2"     -> Mutate(Set2(heap[env[op.src]], op.ix, op.jx, Rhs(op.rhs)), op.src)
         [] op.k = "binop"    -> Produce(BinOp(op.o, Operand(op.a), Operand(op.b)), op.dst)
         [] op.k = "ibinop"   -> Mutate(IBinOp(op.o, heap[env[op.src]], Operand(op.b)), op.src)
         [] op.k = "unary"    -> Produce([k |-> "mat", m |-> Unary(op.u, heap[env[op.src]])], op.dst)
         [] op.k = "setsize"  -> Mutate(IF op.size[1] >= 0 /\ op.size[2] >= 0 /\ op.size[1] * op.size[2] = Size(heap[env[op.src]])
                                        THEN [k |-> "ok", m |-> [heap[env[op.src]] EXCEPT !.nr = op.size[1], !.nc = op.size[2]]]
                                        ELSE Err("TypeOrValue"), op.src)
         [] op.k = "alias"    -> /\ env' = [env EXCEPT ![op.dst] = env[op.src]] /\ UNCHANGED <<heap, nextid>> /\ out' = NoOut
         [] op.k = "abs"      -> Produce(AbsM(heap[env[op.src]]), op.dst)
         [] op.k = "ew1"      -> Produce(Ew1(op.f, op.form, heap[env[op.src]]), op.dst)
         [] op.k = "max1"     -> /\ UNCHANGED <<heap, env, nextid>> /\ out' = MaxMin1(heap[env[op.src]], TRUE)
         [] op.k = "min1"     -> /\ UNCHANGED <<heap, env, nextid>> /\ out' = MaxMin1(heap[env[op.src]], FALSE)
         [] op.k = "bool"     -> /\ UNCHANGED <<heap, env, nextid>>          \* False for a zero matrix, True otherwise
                                 /\ out' = [k |-> "bool", v |-> \E p \in DOMAIN heap[env[op.src]].buf : ~IsCZ(heap[env[op.src]].buf[p])]
         [] op.k = "in"       -> /\ UNCHANGED <<heap, env, nextid>>
                                 /\ out' = [k |-> "bool", v |-> \E p \in DOMAIN heap[env[op.src]].buf : heap[env[op.src]].buf[p] = op.x.v]
         [] op.k = "list"     -> /\ UNCHANGED <<heap, env, nextid>>          \* iteration: the elements in column-major order
                                 /\ out' = [k |-> "seq", tc |-> heap[env[op.src]].tc, vs |-> heap[env[op.src]].buf]
         [] op.k = "len"      -> /\ UNCHANGED <<heap, env, nextid>> /\ out' = Num("i", <<Size(heap[env[op.src]]), 0>>)
         [] op.k = "sum"      -> /\ UNCHANGED <<heap, env, nextid>> /\ out' = Num(heap[env[op.src]].tc, CSum(heap[env[op.src]].buf))

Init == /\ heap = [i \in 1..40 |-> Mat("i", 0, 0, <<>>)] /\ env = [n \in Names |-> Unbound] /\ nextid = 1 /\ out = NoOut

(****************************** invariants ********************************)
Live == {env[n] : n \in Names} \ {Unbound}
\* C15d: the buffer always has nr*nc entries; real types carry no imaginary part
WellFormed == \A i \in Live : /\ Len(heap[i].buf) = heap[i].nr * heap[i].nc /\ heap[i].nr >= 0 /\ heap[i].nc >= 0
                              /\ (heap[i].tc # "z" => \A p \in DOMAIN heap[i].buf : heap[i].buf[p][2] = 0)
\* C15d: the typecode of a live object never changes; C15c: an operation that ends in an error changes nothing
TcStable == [][\A i \in Live : (i < nextid /\ i \in {env'[n] : n \in Names}) => heap'[i].tc = heap[i].tc]_vars
ErrNoEffect == [][out'.k = "err" => heap' = heap /\ env' = env]_vars
\* C15b: results of regular operations are fresh objects
FreshResults == [][nextid' > nextid => \A n \in Names : env[n] # nextid]_vars
=============================================================================
