------------------------- MODULE MC_BufferProtocol -------------------------
EXTENDS BufferProtocol
Dense(tc, nr, nc, cells) == [kind |-> "dense", tc |-> tc, nr |-> nr, nc |-> nc, cells |-> cells, colptr |-> <<>>, rowind |-> <<>>]
Sparse(tc, nr, nc, cells, colptr, rowind) == [kind |-> "sparse", tc |-> tc, nr |-> nr, nc |-> nc, cells |-> cells, colptr |-> colptr, rowind |-> rowind]
\* template families (one TLC run per family keeps every state graph small)
TA == <<Dense("d", 2, 1, <<1, 2>>), Dense("i", 1, 2, <<1, 2>>)>>
TB == <<Dense("z", 1, 1, <<1>>), Dense("d", 0, 2, <<>>)>>
TC == <<Sparse("d", 2, 2, <<1, 0, 2>>, <<0, 2, 3>>, <<0, 1, 1>>), Dense("d", 1, 2, <<1, 2>>)>>
TD == <<Sparse("d", 2, 1, <<>>, <<0, 0>>, <<>>), Sparse("z", 1, 2, <<1>>, <<0, 0, 1>>, <<0>>)>>
TE == <<Dense("d", 2, 2, <<1, 2, 3, 4>>), Dense("i", 2, 0, <<>>)>>
N2 == {"a", "b"}
V1 == {"v"}
V2 == {"v", "w"}
HowSet == {"copy", "buffer", "triplets"}
=============================================================================
