---------------------------- MODULE MC_DenseMatrix ----------------------------
(* Bounded exploration of DenseMatrix: a box of operations applied to a small heap, all interleavings of
   aliasing, in-place updates, reshapes and indexed assignments up to the depth given by the constraint. *)
EXTENDS DenseMatrix
CONSTANT MaxDepth
Depth == TLCGet("level") <= MaxDepth

I1 == <<1, 0>>
N(tc, r) == [tc |-> tc, v |-> <<r, 0>>]
Ix == {[t |-> "int", v |-> k] : k \in {-3, -1, 0, 1, 2}} \cup
      {[t |-> "slice", a |-> a, b |-> b, c |-> c] : a \in {NoneI, 1, -1}, b \in {NoneI, 2}, c \in {NoneI, -1, 2}} \cup
      {[t |-> "list", vs |-> v] : v \in {<<>>, <<0, 0>>, <<1, -1>>, <<2>>}}
Dst == {"C", "D"}
Src == {"A", "B", "C"}
Ops ==
    {[k |-> "new_list", s |-> s, size |-> sz, tc |-> tc, dst |-> d] :
        s \in {<<N("i", 1), N("i", 2)>>, <<N("d", 1), N("i", 3), N("d", -1), N("i", 0)>>}, sz \in {NoSize, <<2, 1>>, <<2, 2>>, <<1, 2>>},
        tc \in {NoneV, "d", "i"}, d \in {"A", "B"}}
    \cup {[k |-> "alias", src |-> s, dst |-> d] : s \in {"A", "B"}, d \in Dst}
    \cup {[k |-> "get1", src |-> s, ix |-> ix, dst |-> "D"] : s \in {"A", "C"}, ix \in Ix}
    \cup {[k |-> "get2", src |-> "A", ix |-> ix, jx |-> jx, dst |-> "D"] : ix \in {[t |-> "int", v |-> 1], [t |-> "slice", a |-> NoneI, b |-> NoneI, c |-> NoneI]}, jx \in Ix}
    \cup {[k |-> "set1", src |-> s, ix |-> ix, rhs |-> r] : s \in {"A", "C"}, ix \in Ix,
            r \in {[t |-> "num", x |-> N("i", 7)], [t |-> "num", x |-> N("d", 5)], [t |-> "name", n |-> "B"]}}
    \cup {[k |-> "binop", o |-> o, a |-> a, b |-> b, dst |-> "D"] : o \in {"+", "-", "*"},
            a \in {[t |-> "name", n |-> "A"], [t |-> "num", x |-> N("d", 2)]}, b \in {[t |-> "name", n |-> "B"], [t |-> "name", n |-> "C"], [t |-> "num", x |-> N("i", 3)]}}
    \cup {[k |-> "ibinop", o |-> o, src |-> s, b |-> b] : o \in {"+", "-", "*"}, s \in {"A", "C"},
            b \in {[t |-> "name", n |-> "B"], [t |-> "num", x |-> N("i", 2)], [t |-> "num", x |-> N("d", 2)]}}
    \cup {[k |-> "binop", o |-> o, a |-> [t |-> "name", n |-> "A"], b |-> b, dst |-> "D"] : o \in {"/", "%", "**", "mul", "max"},
            b \in {[t |-> "num", x |-> N("i", 2)], [t |-> "num", x |-> N("d", -1)], [t |-> "num", x |-> N("i", 0)], [t |-> "name", n |-> "B"]}}
    \cup {[k |-> "ibinop", o |-> o, src |-> "A", b |-> [t |-> "num", x |-> N("i", 2)]] : o \in {"/", "%"}}
    \cup {[k |-> "abs", src |-> "A", dst |-> "D"]}
    \cup {[k |-> "unary", u |-> u, src |-> s, dst |-> "D"] : u \in {"neg", "trans", "copy"}, s \in Src}
    \cup {[k |-> "setsize", src |-> s, size |-> sz] : s \in {"A", "C"}, sz \in {<<1, 2>>, <<4, 1>>, <<2, 2>>, <<1, 4>>}}

Next == \E op \in Ops : Do(op)
Spec == Init /\ [][Next]_vars
=============================================================================
