--------------------------- MODULE DenseMatrixTrace ---------------------------
(* Validates traces of operations performed on real cvxopt.matrix objects against DenseMatrix: every event carries the
   operation and the complete observable state afterwards (result, every named object, which names share an object). *)
EXTENDS DenseMatrix, Json, IOUtils, TLCExt

VARIABLES tid, l
Traces == JsonDeserialize(IOEnv.TRACE_FILE)
Tr == Traces[tid]
E == Tr[l]
Clause(name, e) == IF e THEN TRUE ELSE PrintT(<<"FAILED", tid, l, name>>) /\ FALSE

OutMatches(o, obs) ==
    CASE o.k = "num"  -> obs.k = "num" /\ obs.tc = o.tc /\ obs.v = o.v
      [] o.k = "mat"  -> obs.k = "mat"
      [] o.k = "none" -> obs.k = "none" \/ ("lax" \in DOMAIN o /\ obs.k = "err")
      [] o.k = "err"  -> obs.k = "err" /\ obs.cls \in {"IndexError", "TypeError", "ValueError"}     \* which of the three: not specified
HeapMatches(h, e, obs) ==
    \A n \in Names : IF e[n] = Unbound THEN n \notin DOMAIN obs
                     ELSE n \in DOMAIN obs /\ obs[n].tc = h[e[n]].tc /\ obs[n].nr = h[e[n]].nr /\ obs[n].nc = h[e[n]].nc
                          /\ obs[n].buf = h[e[n]].buf
AliasMatches(e, same) == \A a \in Names, b \in Names :
                            (e[a] # Unbound /\ e[b] # Unbound) => ((e[a] = e[b]) <=> (<<a, b>> \in {<<same[i][1], same[i][2]>> : i \in DOMAIN same}))

TStep == /\ l <= Len(Tr)
         /\ Do(E.op)
         /\ Clause("result", OutMatches(out', E.out))
         /\ Clause("objects", HeapMatches(heap', env', E.heap))
         /\ Clause("identity", AliasMatches(env', E.same))
         /\ Clause("wellformed", WellFormed')
         /\ Clause("index-arguments-unchanged", E.idxok)
TDone == l = Len(Tr) + 1 /\ PrintT(<<"ACCEPT", tid>>) /\ UNCHANGED vars
TInit == Init /\ tid \in 1..Len(Traces) /\ l = 1
TNext == (TStep \/ TDone) /\ l' = l + 1 /\ UNCHANGED tid
TSpec == TInit /\ [][TNext]_<<vars, tid, l>>
=============================================================================
