--------------------------- MODULE DenseMatrixTrace ---------------------------
(* Validates traces of operations performed on real cvxopt.matrix objects against DenseMatrix: every event carries the
   operation and the complete observable state afterwards (result, every named object, which names share an object). *)
EXTENDS DenseMatrix, Json, IOUtils, TLCExt

VARIABLES tid, l
Traces == JsonDeserialize(IOEnv.TRACE_FILE)
Tr == Traces[tid]
E == Tr[l]
Clause(name, e) == IF e THEN TRUE ELSE PrintT(<<"FAILED", tid, l, name>>) /\ FALSE

ErrClasses(c) == CASE c = "ZeroDivision" -> {"ZeroDivisionError"}
                    [] c = "Unsupported" -> {"TypeError", "NotImplementedError"}
                    [] c = "AnyErr" -> {"IndexError", "TypeError", "ValueError", "ZeroDivisionError", "NotImplementedError"}
                    [] OTHER -> {"IndexError", "TypeError", "ValueError"}     \* which of the three: not specified
ShapeIs(o, x) == x.tc = o.tc /\ x.nr = o.nr /\ x.nc = o.nc
OutMatches(o, obs) ==
    CASE o.k = "num"  -> obs.k = "num" /\ obs.tc = o.tc /\ obs.v = o.v
      [] o.k = "mat"  -> obs.k = "mat"
      [] o.k = "none" -> obs.k = "none" \/ ("lax" \in DOMAIN o /\ obs.k = "err")
      [] o.k = "err"  -> obs.k = "err" /\ obs.cls \in ErrClasses(o.cls)
      [] o.k = "bool" -> obs.k = "bool" /\ obs.v = o.v
      [] o.k = "seq"  -> obs.k = "seq" /\ obs.tc = o.tc /\ obs.vs = o.vs
      \* a result outside the Gaussian integers: type and shape are specified, the values are not compared and the trace ends here
      [] o.k = "cut"  -> IF "dst" \in DOMAIN E.op THEN obs.k = "mat" /\ E.op.dst \in DOMAIN E.heap /\ ShapeIs(o, E.heap[E.op.dst])
                         ELSE obs.k = "none" /\ ShapeIs(o, E.heap[E.op.src])
      [] o.k = "unspec" -> TRUE
HeapMatches(h, e, obs) ==
    \A n \in Names : IF e[n] = Unbound THEN n \notin DOMAIN obs
                     ELSE n \in DOMAIN obs /\ obs[n].tc = h[e[n]].tc /\ obs[n].nr = h[e[n]].nr /\ obs[n].nc = h[e[n]].nc
                          /\ obs[n].buf = h[e[n]].buf
AliasMatches(e, same) == \A a \in Names, b \in Names :
                            (e[a] # Unbound /\ e[b] # Unbound) => ((e[a] = e[b]) <=> (<<a, b>> \in {<<same[i][1], same[i][2]>> : i \in DOMAIN same}))

Ends(o) == o.k \in {"cut", "unspec"}
TStep == /\ l <= Len(Tr)
         /\ Do(E.op)
         /\ Clause("exact-values", IF Ends(out') THEN TRUE ELSE ~E.nonint)        \* the model's result is exact: so must the implementation's be
         /\ Clause("result", OutMatches(out', E.out))
         \* (IF, not \/: TLC evaluates both disjuncts of a disjunction in an action)
         /\ IF Ends(out') THEN TRUE ELSE Clause("objects", HeapMatches(heap', env', E.heap))
         /\ IF Ends(out') THEN TRUE ELSE Clause("identity", AliasMatches(env', E.same))
         /\ Clause("wellformed", WellFormed')
         /\ Clause("index-arguments-unchanged", E.idxok)
         /\ l' = IF Ends(out') THEN Len(Tr) + 1 ELSE l + 1
TDone == l = Len(Tr) + 1 /\ PrintT(<<"ACCEPT", tid>>) /\ UNCHANGED vars /\ l' = l + 1
TInit == Init /\ tid \in 1..Len(Traces) /\ l = 1
TNext == (TStep \/ TDone) /\ UNCHANGED tid
TSpec == TInit /\ [][TNext]_<<vars, tid, l>>
=============================================================================
