------------------------------- MODULE ConeQP -------------------------------
(***************************************************************************)
(* Faithful control model of cvxopt.coneprog.coneqp: the cdim = 0 direct    *)
(* solve, the start-up (default initial point: one factorisation and one    *)
(* solve; user initvals: none), and the main loop with one factorisation    *)
(* and 2*(1 + Refinement) KKT solves per iteration.  No infeasibility       *)
(* certificates.  Every KKT failure in iteration 0 and before raises the    *)
(* documented ValueError, later ones return 'unknown'.                      *)
(***************************************************************************)
EXTENDS SolverContract

CONSTANTS MaxIters, Refinement, MaxFaults, F6Guarded   \* F6Guarded: unused here (shared cfg)

VARIABLES pc, nocone, userstart, j, nfaults, fclass
fvars == <<pc, nocone, userstart, j, nfaults, fclass>>
allvars == <<cvars, fvars>>
Bool == {TRUE, FALSE}
Preds == [feas : Bool, gap : Bool, pinf : {FALSE}, dinf : {FALSE}]
GoodCert(st) ==
    CASE st = "optimal" -> [pres_ok |-> TRUE, dres_ok |-> TRUE, s_in_cone |-> TRUE, z_in_cone |-> TRUE, gap_ok |-> TRUE,
                            fields_ok |-> TRUE, split_ok |-> TRUE, objective_in_bounds |-> TRUE]
      [] st = "unknown" -> [s_interior |-> TRUE, z_interior |-> TRUE, fields_ok |-> TRUE, near_1e5 |-> TRUE]

Init == /\ CInit /\ pc = "validate" /\ nocone \in Bool /\ userstart \in Bool /\ j = 0 /\ nfaults = 0
        /\ fclass = <<"none", "none", 0>>

KktCall(kind, ok) ==
    /\ (ok \/ nfaults < MaxFaults)
    /\ Kkt(kind, ok, TRUE)
    /\ nfaults' = IF ok THEN nfaults ELSE nfaults + 1
    /\ fclass' = IF ~ok /\ nfaults = 0 THEN <<Phase, kind, j>> ELSE fclass
    /\ j' = j + 1
Keep == UNCHANGED <<nocone, userstart>>

Validate ==
    /\ pc = "validate"
    /\ Start([solver |-> "coneqp", maxiters |-> MaxIters, bothstarts |-> userstart, truth |-> "none"])
    /\ pc' = IF nocone THEN "direct_factor" ELSE IF userstart THEN "itertop" ELSE "initfactor"
    /\ UNCHANGED <<nocone, userstart, j, nfaults, fclass>>

\* cdim = 0: one factorisation, one solve, return 'optimal' with iterations = 0
DirectFactor(ok) == pc = "direct_factor" /\ KktCall("factor", ok) /\ pc' = (IF ok THEN "direct_solve" ELSE "raise_ve") /\ Keep
DirectSolve(ok)  == pc = "direct_solve" /\ KktCall("solve", ok) /\ pc' = (IF ok THEN "direct_return" ELSE "raise_ve") /\ Keep
DirectReturn == pc = "direct_return" /\ Return("optimal", 0, GoodCert("optimal")) /\ pc' = "done"
                /\ UNCHANGED <<nocone, userstart, j, nfaults, fclass>>

InitFactor(ok) == pc = "initfactor" /\ KktCall("factor", ok) /\ pc' = (IF ok THEN "initsolve" ELSE "raise_ve") /\ Keep
InitSolve(ok)  == pc = "initsolve" /\ KktCall("solve", ok) /\ pc' = (IF ok THEN "itertop" ELSE "raise_ve") /\ Keep

IterTop(p) == /\ pc = "itertop" /\ Iter(IF sawIter THEN iters + 1 ELSE 0, p) /\ pc' = "decide" /\ j' = 0
              /\ UNCHANGED <<nocone, userstart, nfaults, fclass>>
Decision(p, k) == IF k = MaxIters THEN "unknown" ELSE IF p.feas /\ p.gap THEN "optimal" ELSE "continue"
Decide == /\ pc = "decide"
          /\ LET d == Decision(lastPreds, iters) IN
             IF d = "continue" THEN pc' = "factor" /\ UNCHANGED cvars
             ELSE Return(d, iters, GoodCert(d)) /\ pc' = "done"
          /\ UNCHANGED <<nocone, userstart, j, nfaults, fclass>>
Handler == IF iters = 0 THEN "raise_ve" ELSE "ret_unknown"
Factor(ok) == pc = "factor" /\ KktCall("factor", ok) /\ pc' = (IF ok THEN "f4" ELSE Handler) /\ Keep
F4Solve(ok) == /\ pc = "f4" /\ KktCall("solve", ok)
               /\ pc' = IF ~ok THEN Handler ELSE IF j + 1 = 1 + 2 * (1 + Refinement) THEN "update" ELSE "f4"
               /\ Keep
Update == pc = "update" /\ pc' = "itertop" /\ UNCHANGED <<cvars, nocone, userstart, j, nfaults, fclass>>
RaiseVE == pc = "raise_ve" /\ Raise("ValueError") /\ pc' = "done" /\ UNCHANGED <<nocone, userstart, j, nfaults, fclass>>
RetUnknown == pc = "ret_unknown" /\ Return("unknown", iters, GoodCert("unknown")) /\ pc' = "done"
              /\ UNCHANGED <<nocone, userstart, j, nfaults, fclass>>

Next == \/ Validate \/ DirectReturn \/ Decide \/ Update \/ RaiseVE \/ RetUnknown
        \/ \E ok \in Bool : DirectFactor(ok) \/ DirectSolve(ok) \/ InitFactor(ok) \/ InitSolve(ok) \/ Factor(ok) \/ F4Solve(ok)
        \/ \E p \in Preds : IterTop(p)
Spec == Init /\ [][Next]_allvars

PcOK == pc \in {"validate", "direct_factor", "direct_solve", "direct_return", "initfactor", "initsolve", "itertop", "decide",
                "factor", "f4", "update", "raise_ve", "ret_unknown", "done"}
ItersBounded == iters <= MaxIters
Terminates == pc = "done" <=> phase = "done"
Iter0Rule == Done /\ pending /\ faultPhase = "iter0" => outcome.kind = "raise" /\ outcome.cls = "ValueError"
=============================================================================
