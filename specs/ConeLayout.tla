----------------------------- MODULE ConeLayout -----------------------------
(***************************************************************************)
(* Layout of vectors in the product cone  C = R+^l x Q_1 x .. x S_1 x ..   *)
(* used by all cvxopt solvers (coneprog.rst, "Notation"): dims = [l, q, s], *)
(* 's' blocks stored as full column-major m x m matrices of which only the  *)
(* lower triangle is referenced.  All operators are on integer sequences    *)
(* (1-based) and are exact.                                                 *)
(***************************************************************************)
EXTENDS Integers, Sequences, FiniteSets

RECURSIVE SumSeq(_)
SumSeq(s) == IF s = <<>> THEN 0 ELSE Head(s) + SumSeq(Tail(s))
RECURSIVE SumSq(_)
SumSq(s) == IF s = <<>> THEN 0 ELSE Head(s) * Head(s) + SumSq(Tail(s))
RECURSIVE Flatten(_)
Flatten(ss) == IF ss = <<>> THEN <<>> ELSE Head(ss) \o Flatten(Tail(ss))

CDim(d) == d.l + SumSeq(d.q) + SumSq(d.s)

\* offset (0-based) of the k-th 'q' block and of the k-th 's' block
QOff(d, k) == d.l + SumSeq(SubSeq(d.q, 1, k - 1))
SOff(d, k) == d.l + SumSeq(d.q) + SumSq(SubSeq(d.s, 1, k - 1))

\* weights of the symmetric inner product in this layout
SBlockWt(m) == [k \in 1..(m * m) |-> LET i == (k - 1) % m
                                         j == (k - 1) \div m
                                     IN  IF i = j THEN 1 ELSE IF i > j THEN 2 ELSE 0]
Wt(d) == [k \in 1..(d.l + SumSeq(d.q)) |-> 1] \o Flatten([i \in 1..Len(d.s) |-> SBlockWt(d.s[i])])

Dot(x, y)      == SumSeq([k \in 1..Len(x) |-> x[k] * y[k]])
SDot(x, y, w)  == SumSeq([k \in 1..Len(x) |-> w[k] * x[k] * y[k]])

\* blocks of a cone vector
LBlock(v, d)    == SubSeq(v, 1, d.l)
QBlock(v, d, k) == SubSeq(v, QOff(d, k) + 1, QOff(d, k) + d.q[k])
SBlock(v, d, k) == SubSeq(v, SOff(d, k) + 1, SOff(d, k) + d.s[k] * d.s[k])
\* entry (i,j) (0-based, referenced triangle: max/min) of a column-major m x m block
SEnt(blk, m, i, j) == LET a == IF i >= j THEN i ELSE j
                          b == IF i >= j THEN j ELSE i
                      IN  blk[b * m + a + 1]

\* determinant of the order-k leading principal submatrix of a symmetric block, k <= 3
LeadMinor(blk, m, k) ==
    LET e(i, j) == SEnt(blk, m, i, j) IN
    CASE k = 0 -> 1
      [] k = 1 -> e(0,0)
      [] k = 2 -> e(0,0) * e(1,1) - e(1,0) * e(1,0)
      [] k = 3 -> e(0,0) * (e(1,1) * e(2,2) - e(2,1) * e(2,1))
                  - e(1,0) * (e(1,0) * e(2,2) - e(2,1) * e(2,0))
                  + e(2,0) * (e(1,0) * e(2,1) - e(1,1) * e(2,0))

\* strict interior of the cone (Sylvester's criterion on 's' blocks of order <= 3)
Interior(v, d) ==
    /\ \A k \in 1..d.l : v[k] > 0
    /\ \A k \in 1..Len(d.q) : LET b == QBlock(v, d, k) IN b[1] > 0 /\ b[1] * b[1] > SumSq(Tail(b))
    /\ \A k \in 1..Len(d.s) : d.s[k] <= 3 /\ \A r \in 1..d.s[k] : LeadMinor(SBlock(v, d, k), d.s[k], r) > 0

\* the partition property of the layout (checked by TLC for all small dims)
Cells(d) == 1..CDim(d)
LCells(d) == 1..d.l
QCells(d, k) == (QOff(d, k) + 1)..(QOff(d, k) + d.q[k])
SCells(d, k) == (SOff(d, k) + 1)..(SOff(d, k) + d.s[k] * d.s[k])
Partition(d) ==
    LET parts == <<LCells(d)>> \o [k \in 1..Len(d.q) |-> QCells(d, k)] \o [k \in 1..Len(d.s) |-> SCells(d, k)]
    IN  /\ UNION {parts[i] : i \in DOMAIN parts} = Cells(d)
        /\ \A i, j \in DOMAIN parts : i # j => parts[i] \cap parts[j] = {}
        /\ Len(Wt(d)) = CDim(d)

\* lower-triangular packed index of entry (i,j), i >= j, of an order-m block (pack/unpack)
PackedIndex(m, i, j) == j * m - (j * (j - 1)) \div 2 + (i - j)       \* 0-based within the block
PackedLen(m) == (m * (m + 1)) \div 2
PackBijective(m) == LET idx == {PackedIndex(m, i, j) : i \in 0..(m-1), j \in 0..(m-1)} \cap
                                {PackedIndex(m, i, j) : <<i, j>> \in {ij \in (0..(m-1)) \X (0..(m-1)) : ij[1] >= ij[2]}}
                    IN  {PackedIndex(m, ij[1], ij[2]) : ij \in {ij \in (0..(m-1)) \X (0..(m-1)) : ij[1] >= ij[2]}} = 0..(PackedLen(m) - 1)
=============================================================================
