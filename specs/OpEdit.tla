------------------------------- MODULE OpEdit -------------------------------
(***************************************************************************)
(* The edit state machine of cvxopt.modeling.op (modeling.py, class op):   *)
(* objective reassignment, addconstraint, delconstraint, the four query    *)
(* methods and solve, over a fixed pool of scalar variables, constraints   *)
(* and objectives.                                                         *)
(*                                                                         *)
(* Two layers.  The *contract* variables obj / ineqs / eqs are what the    *)
(* property C13 talks about: the current objective and the two constraint  *)
(* lists.  The *bookkeeping* variables present / oflag / iOf / eOf mirror  *)
(* op._variables[v] = {'o': bool, 'i': [...], 'e': [...]} as the code      *)
(* keeps it, updated by the actions the way a correct implementation has   *)
(* to update it; Mirror says the bookkeeping is a function of the contract *)
(* state.  Solve is specified by an exact classification of the pool's     *)
(* LPs, computed by TLC on an integer grid (all pool constraints are       *)
(* totally unimodular with small integer data, so vertices, rays and null  *)
(* vectors are on the grid).                                               *)
(***************************************************************************)
EXTENDS Integers, Sequences, FiniteSets, TLC

CONSTANTS MaxMult,      \* cap on the multiplicity of one constraint
          MaxLen        \* cap on the total number of constraints

Var == {"x", "y", "z", "w"}
Con == {"c1", "c2", "c3", "c4", "c5", "c6", "c7"}
Obj == {"o0", "o1", "o2"}

Z4 == [x |-> 0, y |-> 0, z |-> 0, w |-> 0]
\* a constraint is  Coef . v  (<= | =)  Rhs
Coef(c) == CASE c = "c1" -> [Z4 EXCEPT !.x = 1, !.y = 1]       \*  x + y <= 2
             [] c = "c2" -> [Z4 EXCEPT !.x = -1]               \*  x >= 0
             [] c = "c3" -> [Z4 EXCEPT !.y = -1]               \*  y >= 0
             [] c = "c4" -> [Z4 EXCEPT !.y = 1, !.z = -1]      \*  y - z = 0
             [] c = "c5" -> [Z4 EXCEPT !.x = -1, !.y = -1]     \*  x + y >= 3
             [] c = "c6" -> Z4                                 \*  -1 <= 0   (no variables)
             [] c = "c7" -> [Z4 EXCEPT !.w = -1]               \*  w >= -1
Rhs(c) == CASE c = "c1" -> 2 [] c = "c2" -> 0 [] c = "c3" -> 0 [] c = "c4" -> 0
            [] c = "c5" -> -3 [] c = "c6" -> 1 [] c = "c7" -> 1
TypeOfCon(c) == IF c = "c4" THEN "=" ELSE "<"
VarsOfCon(c) == {v \in Var : Coef(c)[v] # 0}

Cost(o) == CASE o = "o0" -> Z4                                 \*  0
             [] o = "o1" -> [Z4 EXCEPT !.x = -1, !.y = -1]     \*  -x - y
             [] o = "o2" -> [Z4 EXCEPT !.z = 1, !.w = 1]       \*  z + w
VarsOfObj(o) == {v \in Var : Cost(o)[v] # 0}

VARIABLES obj, ineqs, eqs,            \* contract state
          present, oflag, iOf, eOf    \* bookkeeping, as op._variables

cvars == <<obj, ineqs, eqs>>
bvars == <<present, oflag, iOf, eOf>>
vars  == <<obj, ineqs, eqs, present, oflag, iOf, eOf>>

Range(s) == {s[i] : i \in DOMAIN s}
Count(s, c) == Cardinality({i \in DOMAIN s : s[i] = c})
RemoveFirst(s, c) ==
    LET i == CHOOSE k \in DOMAIN s : s[k] = c /\ \A j \in 1..(k-1) : s[j] # c
    IN  SubSeq(s, 1, i-1) \o SubSeq(s, i+1, Len(s))

(***************************************************************************)
(* What the queries must return (the property's "exactly the variables    *)
(* and constraints of the current objective and constraint set").         *)
(***************************************************************************)
ConsNow == Range(ineqs) \cup Range(eqs)
VarsNow == VarsOfObj(obj) \cup UNION {VarsOfCon(c) : c \in ConsNow}
QVariables    == VarsNow
QInequalities == ineqs
QEqualities   == eqs
QConstraints  == ineqs \o eqs

Init == /\ obj = "o0" /\ ineqs = <<>> /\ eqs = <<>>
        /\ present = {} /\ oflag = {}
        /\ iOf = [v \in Var |-> <<>>] /\ eOf = [v \in Var |-> <<>>]

AddConstraint(c) ==
    /\ Count(ineqs \o eqs, c) < MaxMult
    /\ Len(ineqs) + Len(eqs) < MaxLen
    /\ IF TypeOfCon(c) = "<"
       THEN /\ ineqs' = Append(ineqs, c)
            /\ iOf' = [v \in Var |-> IF v \in VarsOfCon(c) THEN Append(iOf[v], c) ELSE iOf[v]]
            /\ UNCHANGED <<eqs, eOf>>
       ELSE /\ eqs' = Append(eqs, c)
            /\ eOf' = [v \in Var |-> IF v \in VarsOfCon(c) THEN Append(eOf[v], c) ELSE eOf[v]]
            /\ UNCHANGED <<ineqs, iOf>>
    /\ present' = present \cup VarsOfCon(c)
    /\ UNCHANGED <<obj, oflag>>

\* documented: deleting a constraint that is not in the problem is ignored
DelAbsent(c) == /\ c \notin ConsNow /\ UNCHANGED vars

DelPresent(c) ==
    /\ c \in ConsNow
    /\ IF TypeOfCon(c) = "<"
       THEN /\ ineqs' = RemoveFirst(ineqs, c)
            /\ iOf' = [v \in Var |-> IF v \in VarsOfCon(c) THEN RemoveFirst(iOf[v], c) ELSE iOf[v]]
            /\ UNCHANGED <<eqs, eOf>>
       ELSE /\ eqs' = RemoveFirst(eqs, c)
            /\ eOf' = [v \in Var |-> IF v \in VarsOfCon(c) THEN RemoveFirst(eOf[v], c) ELSE eOf[v]]
            /\ UNCHANGED <<ineqs, iOf>>
    \* every variable of c that is now used nowhere is dropped
    /\ present' = present \ {v \in VarsOfCon(c) : v \notin oflag /\ iOf'[v] = <<>> /\ eOf'[v] = <<>>}
    /\ UNCHANGED <<obj, oflag>>

DelConstraint(c) == DelAbsent(c) \/ DelPresent(c)

SetObjective(o) ==
    /\ obj' = o
    /\ oflag' = VarsOfObj(o)
    /\ present' = {v \in present : iOf[v] # <<>> \/ eOf[v] # <<>>} \cup VarsOfObj(o)
    /\ UNCHANGED <<ineqs, eqs, iOf, eOf>>

\* queries and solve do not change the problem
Query == UNCHANGED vars
Solve == UNCHANGED vars

Next == \/ \E c \in Con : AddConstraint(c) \/ DelConstraint(c)
        \/ \E o \in Obj : SetObjective(o)
        \/ Query \/ Solve

Spec == Init /\ [][Next]_vars

(***************************************************************************)
(* Invariants                                                              *)
(***************************************************************************)
TypeOK == /\ obj \in Obj
          /\ ineqs \in Seq(Con) /\ eqs \in Seq(Con)
          /\ \A i \in DOMAIN ineqs : TypeOfCon(ineqs[i]) = "<"
          /\ \A i \in DOMAIN eqs : TypeOfCon(eqs[i]) = "="
          /\ present \subseteq Var /\ oflag \subseteq Var

Sel(s, v) == SelectSeq(s, LAMBDA c : v \in VarsOfCon(c))

\* C13: the bookkeeping is exactly the image of the current problem
Mirror == /\ present = VarsNow
          /\ oflag = VarsOfObj(obj)
          /\ \A v \in Var : iOf[v] = Sel(ineqs, v) /\ eOf[v] = Sel(eqs, v)

\* C13d: add twice then delete once leaves exactly one occurrence (as an action property)
DelRemovesOne == [][\A c \in Con : DelPresent(c) =>
                      Count(ineqs' \o eqs', c) = Count(ineqs \o eqs, c) - 1]_vars
AddAddsOne == [][\A c \in Con : AddConstraint(c) =>
                      /\ Count(ineqs' \o eqs', c) = Count(ineqs \o eqs, c) + 1
                      /\ \A d \in Con \ {c} : Count(ineqs' \o eqs', d) = Count(ineqs \o eqs, d)]_vars
\* edits of constraints never touch the objective and vice versa
Separation == [][(\E o \in Obj : SetObjective(o)) => UNCHANGED <<ineqs, eqs>>]_vars

(***************************************************************************)
(* Exact classification of the LP  minimize Cost(o).v  s.t. the            *)
(* constraints in S, over the variables that occur in it.                  *)
(***************************************************************************)
R(B, U, v) == IF v \in U THEN (-B)..B ELSE {0}
Box(B, U) == [x : R(B, U, "x"), y : R(B, U, "y"), z : R(B, U, "z"), w : R(B, U, "w")]
Dot(a, p) == a.x * p.x + a.y * p.y + a.z * p.z + a.w * p.w
Holds(c, p) == IF TypeOfCon(c) = "<" THEN Dot(Coef(c), p) <= Rhs(c) ELSE Dot(Coef(c), p) = Rhs(c)
HomHolds(c, d) == IF TypeOfCon(c) = "<" THEN Dot(Coef(c), d) <= 0 ELSE Dot(Coef(c), d) = 0

UsedVars(o, S) == VarsOfObj(o) \cup UNION {VarsOfCon(c) : c \in S}
Feasible(o, S) == \E p \in Box(3, UsedVars(o, S)) : \A c \in S : Holds(c, p)
HasRay(o, S)   == \E d \in Box(1, UsedVars(o, S)) : (\A c \in S : HomHolds(c, d)) /\ Dot(Cost(o), d) < 0
\* Rank([G; A]) < n : a nonzero direction along which no constraint row moves
RankDef(o, S)  == \E d \in Box(1, UsedVars(o, S)) : (\E v \in Var : d[v] # 0) /\ \A c \in S : Dot(Coef(c), d) = 0
Minimum(o, S)  == LET F == {p \in Box(3, UsedVars(o, S)) : \A c \in S : Holds(c, p)}
                  IN  CHOOSE m \in {Dot(Cost(o), p) : p \in F} : \A p \in F : m <= Dot(Cost(o), p)

AllOut == {"optimal", "primal infeasible", "dual infeasible", "unknown", "raise"}
Classify(o, S) ==
    IF UsedVars(o, S) = {} THEN [allowed |-> AllOut, opt |-> 0, cls |-> "novars"]
    \* the documented rank assumption is violated: the outcome (ValueError, or a numerical
    \* 'unknown') depends on rounding in the factorisation and is not specified
    ELSE IF RankDef(o, S) THEN [allowed |-> AllOut, opt |-> 0, cls |-> "rankdef"]
    ELSE LET F == {p \in Box(3, UsedVars(o, S)) : \A c \in S : Holds(c, p)}
             feas == F # {}
             ray == HasRay(o, S)
             \* CALIBRATED: an infeasible LP that also contains a constants-only row (a zero row of G)
             \* makes conelp stop with "singular KKT matrix" ('unknown') for some variable orders;
             \* the outcome is rounding dependent and is left unspecified here (see DESIGN.md, C13)
             zerorow == \E c \in S : VarsOfCon(c) = {}
         IN  IF ~feas /\ zerorow THEN [allowed |-> AllOut, opt |-> 0, cls |-> "fragile"]
             ELSE IF feas /\ ~ray
             THEN [allowed |-> {"optimal"}, cls |-> "solvable",
                   opt |-> CHOOSE m \in {Dot(Cost(o), p) : p \in F} : \A p \in F : m <= Dot(Cost(o), p)]
             ELSE IF ~feas /\ ~ray THEN [allowed |-> {"primal infeasible"}, opt |-> 0, cls |-> "pinf"]
             ELSE IF feas THEN [allowed |-> {"dual infeasible"}, opt |-> 0, cls |-> "dinf"]
             ELSE [allowed |-> {"primal infeasible", "dual infeasible", "unknown"}, opt |-> 0, cls |-> "both"]

\* evaluated once by TLC (constant-level definition) and reused
Table == [o \in Obj, S \in SUBSET Con |-> Classify(o, S)]
Expected == Table[obj, ConsNow]

\* the pool is not vacuous: every class of LP occurs
WellPosed(k) == k \in {"solvable", "pinf", "dinf"}
PoolRich == \A k \in {"solvable", "pinf", "dinf", "rankdef"} : \E o \in Obj, S \in SUBSET Con : Table[o, S].cls = k
=============================================================================
