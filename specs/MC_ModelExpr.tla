---------------------------- MODULE MC_ModelExpr ----------------------------
(* Evaluates the semantics of ModelExpr on the expression cases of IOEnv.CASE_FILE and serialises the expected
   observations; also checks, for every defined case, that a term classified convex / concave / affine really is
   (midpoint inequality on all pairs of the supplied assignments whose sums are even). *)
EXTENDS ModelExpr, Json, IOUtils

Cases == JsonDeserialize(IOEnv.CASE_FILE)
Pairs(n) == {p \in (1..n) \X (1..n) : p[1] < p[2]}
ReallyIs(c) ==
    LET cv == Curv(c.t, c.sz) IN
    \A p \in Pairs(Len(c.envs)) :
        EvenPair(c.envs[p[1]], c.envs[p[2]]) =>
            /\ (cv \in {0, 1}  => ConvexOn(c.t, c.envs[p[1]], c.envs[p[2]]))
            /\ (cv \in {0, -1} => ConcaveOn(c.t, c.envs[p[1]], c.envs[p[2]]))
Expected(c) ==
    IF ~Defined(c.t, c.sz) THEN [defined |-> FALSE, len |-> 0, curv |-> 9, vals |-> <<>>, really |-> TRUE, den |-> 1]
    ELSE [defined |-> TRUE, len |-> TLen(c.t, c.sz), curv |-> Curv(c.t, c.sz), den |-> Den(c.t),
          vals |-> [i \in DOMAIN c.envs |-> Eval(c.t, c.envs[i])], really |-> ReallyIs(c)]
ASSUME JsonSerialize(IOEnv.OUT_FILE, [res |-> [i \in 1..Len(Cases) |-> Expected(Cases[i])]])

VARIABLE dummy
Init == dummy = 0
Next == UNCHANGED dummy
Spec == Init /\ [][Next]_dummy
=============================================================================
