-------------------------- MODULE MC_ModelLPJudge --------------------------
(* Pass 2: for every case [P, w, obs, judged] decide the truth of LP(P) from the proposed exact certificate w (Truth), bind it
   to the problem's semantics on the grid (GridBound / GridInfeasible) and judge the abstracted observations of the four
   op.solve() calls against the contract (Failed, SameResult). *)
EXTENDS ModelLP, Json, IOUtils

Cases == JsonDeserialize(IOEnv.CASE_FILE)
Out(C) ==
    LET L == LP(C.P)
        truth == Truth(L, C.w)
    IN  IF truth = "bad" THEN [truth |-> "bad"]
        ELSE [truth |-> truth,
              pstar |-> IF truth = "optimal" THEN PStar(L, C.w) ELSE <<0, 1>>,
              grid |-> CASE truth = "optimal" -> GridBound(C.P, L, C.w)
                         [] truth \in {"pinf", "both"} -> GridInfeasible(C.P)
                         [] OTHER -> TRUE,
              failed |-> [i \in DOMAIN C.obs |-> IF C.judged[i] THEN SetToSeq(Failed(truth, C.obs[i])) ELSE <<>>],
              same |-> SameResult(C.obs, C.judged, truth)]
ASSUME JsonSerialize(IOEnv.OUT_FILE, [res |-> [i \in 1..Len(Cases) |-> Out(Cases[i])]])

VARIABLE dummy
Init == dummy = 0
Next == UNCHANGED dummy
Spec == Init /\ [][Next]_dummy
=============================================================================
