--------------------------- MODULE MC_BufferImport ---------------------------
(***************************************************************************)
(* matrix(obj [, tc]) for an object exporting the buffer protocol (C20):    *)
(* the dense matrix the buffer DESCRIBES.  A buffer is described by its     *)
(* format, number of dimensions, shape and its logical elements (items, in  *)
(* row-major order of the view: strides and offsets are resolved by the     *)
(* exporter, so "strides honoured" means the matrix holds view[i, j]).      *)
(*   supported element formats: 'i' (C int) and 'l' (C long) -> 'i',        *)
(*   'd' -> 'd', 'Zd' -> 'z'; a requested typecode may only widen           *)
(*   (i -> d -> z); 1 dimension gives a column, 2 dimensions a matrix,      *)
(*   anything else is refused.  The result is stored column-major.          *)
(***************************************************************************)
EXTENDS Integers, Sequences, TLC, Json, IOUtils

Cases == JsonDeserialize(IOEnv.CASE_FILE)
SrcType(fmt) == CASE fmt \in {"i", "l"} -> "i" [] fmt = "d" -> "d" [] fmt = "Zd" -> "z" [] OTHER -> "none"
Rank(tc) == CASE tc = "i" -> 1 [] tc = "d" -> 2 [] tc = "z" -> 3
Import(d) ==
    LET st == SrcType(d.fmt)
        tc == IF d.req = "none" THEN st ELSE d.req
    IN  IF d.ndim \notin {1, 2} \/ st = "none" \/ Rank(st) > Rank(tc) THEN [err |-> TRUE]
        ELSE LET nr == d.shape[1]
                 nc == IF d.ndim = 2 THEN d.shape[2] ELSE 1
             IN  [err |-> FALSE, tc |-> tc, nr |-> nr, nc |-> nc,
                  cells |-> [p \in 1..(nr * nc) |-> LET i == (p - 1) % nr  j == (p - 1) \div nr IN d.items[i * nc + j + 1]]]
ASSUME JsonSerialize(IOEnv.OUT_FILE, [res |-> [i \in 1..Len(Cases) |-> Import(Cases[i])]])

VARIABLE dummy
Init == dummy = 0
Next == UNCHANGED dummy
Spec == Init /\ [][Next]_dummy
=============================================================================
