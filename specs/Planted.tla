------------------------------- MODULE Planted -------------------------------
(***************************************************************************)
(* Planted cone programs with exactly known truth.  The harness proposes   *)
(* integer candidates (data + witnesses); TLC decides, in exact integer     *)
(* arithmetic, whether each candidate really is                             *)
(*   "solvable"  strictly primal and dual feasible, rank conditions hold    *)
(*   "pinf"      has a strict Farkas certificate of primal infeasibility    *)
(*   "dinf"      is primal strictly feasible and has a strictly improving   *)
(*               ray (certificate of dual infeasibility)                    *)
(* Only candidates accepted here are used as instances; their `truth` is a  *)
(* theorem of this module, not an observation.                              *)
(*                                                                          *)
(* An instance: n, p, dims, c, G (sequence of n columns), h, A (n columns), *)
(* b, optional R (P = R'R for QPs, sequence of n columns of length k),      *)
(* witnesses x0, s0, y0, z0 and, for dinf, a ray xr.                        *)
(***************************************************************************)
EXTENDS ConeLayout, Json, IOUtils, TLC

Cands == JsonDeserialize(IOEnv.CAND_FILE)

Col(M, j) == M[j]
MatVec(M, x, rows) == [r \in 1..rows |-> SumSeq([j \in 1..Len(x) |-> M[j][r] * x[j]])]
\* G' z with the symmetric inner product;  A' y
GTz(I, z) == [j \in 1..I.n |-> SDot(I.G[j], z, Wt(I.dims))]
ATy(I, y) == [j \in 1..I.n |-> Dot(I.A[j], y)]
\* P x with P = R'R  (R has k rows):  R'(R x)
Px(I, x) == IF "R" \in DOMAIN I
            THEN LET k == IF I.n = 0 THEN 0 ELSE Len(I.R[1])
                     Rx == MatVec(I.R, x, k)
                 IN  [j \in 1..I.n |-> Dot(I.R[j], Rx)]
            ELSE [j \in 1..I.n |-> 0]

\* rank([G; A]) = n and rank(A) = p by minors (n, p <= 3), on the referenced rows only
Det(M, k) == CASE k = 0 -> 1
               [] k = 1 -> M[1][1]
               [] k = 2 -> M[1][1] * M[2][2] - M[1][2] * M[2][1]
               [] k = 3 -> M[1][1] * (M[2][2] * M[3][3] - M[2][3] * M[3][2])
                         - M[1][2] * (M[2][1] * M[3][3] - M[2][3] * M[3][1])
                         + M[1][3] * (M[2][1] * M[3][2] - M[2][2] * M[3][1])
\* stacked rows of [R; G(referenced rows); A] as sequences of length n
Rows(I) == LET w == Wt(I.dims)
               k == IF "R" \in DOMAIN I /\ I.n > 0 THEN Len(I.R[1]) ELSE 0
           IN  {[j \in 1..I.n |-> I.G[j][r]] : r \in {r \in 1..CDim(I.dims) : w[r] > 0}}
               \cup {[j \in 1..I.n |-> I.A[j][r]] : r \in 1..I.p}
               \cup {[j \in 1..I.n |-> I.R[j][r]] : r \in 1..k}
ARows(I) == {[j \in 1..I.n |-> I.A[j][r]] : r \in 1..I.p}
\* a set of row vectors has rank >= k iff some k of them, restricted to some k columns, have nonzero determinant
HasRank(rows, n, k) ==
    k = 0 \/ \E S \in SUBSET rows : Cardinality(S) = k /\
                \E cols \in SUBSET (1..n) : Cardinality(cols) = k /\
                   LET rs == CHOOSE f \in [1..k -> S] : \A a, b \in 1..k : a # b => f[a] # f[b]
                       cs == CHOOSE f \in [1..k -> cols] : \A a, b \in 1..k : a < b => f[a] < f[b]
                   IN  Det([a \in 1..k |-> [b \in 1..k |-> rs[a][cs[b]]]], k) # 0
RankOK(I) == I.n <= 3 /\ I.p <= 3 /\ HasRank(Rows(I), I.n, I.n) /\ HasRank(ARows(I), I.n, I.p)

Add(x, y) == [k \in 1..Len(x) |-> x[k] + y[k]]
Neg(x) == [k \in 1..Len(x) |-> -x[k]]
IsZero(x) == \A k \in 1..Len(x) : x[k] = 0
\* equality on the referenced rows only (unreferenced upper-triangle rows may hold junk)
RefEq(x, y, d) == \A k \in 1..Len(x) : Wt(d)[k] > 0 => x[k] = y[k]

Shape(I) == /\ Len(I.c) = I.n /\ Len(I.G) = I.n /\ Len(I.A) = I.n
            /\ Len(I.h) = CDim(I.dims) /\ Len(I.b) = I.p
            /\ \A j \in 1..I.n : Len(I.G[j]) = CDim(I.dims) /\ Len(I.A[j]) = I.p

\* strictly primal and dual feasible with the given witnesses; for QPs the dual condition is
\*    P x0 + q + G'z0 + A'y0 = 0   (c plays the role of q)
Solvable(I) ==
    /\ Shape(I) /\ RankOK(I)
    /\ RefEq(Add(MatVec(I.G, I.x0, CDim(I.dims)), I.s0), I.h, I.dims)
    /\ MatVec(I.A, I.x0, I.p) = I.b
    /\ Interior(I.s0, I.dims) /\ Interior(I.z0, I.dims)
    /\ IsZero(Add(Add(Add(GTz(I, I.z0), ATy(I, I.y0)), I.c), Px(I, I.x0)))

\* strict Farkas certificate of primal infeasibility:  G'z + A'y = 0, h'z + b'y < 0, z in the interior
Pinf(I) ==
    /\ Shape(I) /\ RankOK(I)
    /\ Interior(I.z0, I.dims)
    /\ IsZero(Add(GTz(I, I.z0), ATy(I, I.y0)))
    /\ SDot(I.h, I.z0, Wt(I.dims)) + Dot(I.b, I.y0) < 0
    \* and the dual is strictly feasible (so the problem is not infeasible on both sides)
    /\ Interior(I.z1, I.dims)
    /\ IsZero(Add(Add(GTz(I, I.z1), ATy(I, I.y1)), I.c))

\* primal strictly feasible and a strictly improving ray:  A xr = 0, -G xr in the interior, c'xr < 0
Dinf(I) ==
    /\ Shape(I) /\ RankOK(I)
    /\ RefEq(Add(MatVec(I.G, I.x0, CDim(I.dims)), I.s0), I.h, I.dims)
    /\ MatVec(I.A, I.x0, I.p) = I.b /\ Interior(I.s0, I.dims)
    /\ IsZero(MatVec(I.A, I.xr, I.p))
    /\ Interior(Neg(MatVec(I.G, I.xr, CDim(I.dims))), I.dims)
    /\ Dot(I.c, I.xr) < 0

Truth(I) == CASE I.kind = "solvable" -> Solvable(I)
              [] I.kind = "pinf" -> Pinf(I)
              [] I.kind = "dinf" -> Dinf(I)

Accepted == {i \in 1..Len(Cands) : Truth(Cands[i])}
ASSUME JsonSerialize(IOEnv.OUT_FILE, [accepted |-> Accepted, n |-> Len(Cands)])

\* the layout theorems, for all small dims
SmallDims == {[l |-> l, q |-> q, s |-> s] : l \in 0..3,
              q \in {<<>>, <<1>>, <<2>>, <<3>>, <<1, 2>>}, s \in {<<>>, <<0>>, <<1>>, <<2>>, <<2, 1>>, <<0, 2>>, <<3>>}}
ASSUME \A d \in SmallDims : Partition(d)
ASSUME \A m \in 0..4 : PackBijective(m)

VARIABLE dummy
Init == dummy = 0
Next == UNCHANGED dummy
Spec == Init /\ [][Next]_dummy
=============================================================================
