----------------------------- MODULE SolverTrace -----------------------------
(***************************************************************************)
(* Batch validation of solver-call traces against SolverContract.  Every   *)
(* listed invariant is evaluated by TLC in every state of every trace; a    *)
(* violated invariant is reported per trace (tid) so that one JVM start     *)
(* judges thousands of calls.                                               *)
(***************************************************************************)
EXTENDS SolverContract, Json, IOUtils, TLCExt

VARIABLES tid, l
Traces == JsonDeserialize(IOEnv.TRACE_FILE)
Tr == Traces[tid]
E  == Tr[l]
IsEv(n) == l <= Len(Tr) /\ E.ev = n
Clause(name, e) == IF e THEN TRUE ELSE PrintT(<<"FAILED", tid, l, name>>) /\ FALSE

TStart  == IsEv("Start") /\ Start(E.cfg)
TKkt    == IsEv("Kkt") /\ Kkt(E.kind, E.ok, E.w)
TIter   == IsEv("Iter") /\ Clause("iter-sequence", E.k = IF sawIter THEN iters + 1 ELSE 0) /\ Iter(E.k, E.p)
TReturn == IsEv("Return") /\ Return(E.status, E.iters, E.cert)
TRaise  == IsEv("Raise") /\ Raise(E.cls)

Props == <<
   <<"OptimalCert", OptimalCert>>, <<"OptimalDecision", OptimalDecision>>,
   <<"PinfCert", PinfCert>>, <<"DinfCert", DinfCert>>,
   <<"ClassSolvable", ClassSolvable>>, <<"ClassPinf", ClassPinf>>, <<"ClassDinf", ClassDinf>>,
   <<"NoRaiseOnWellPosed", NoRaiseOnWellPosed>>, <<"IterBudget", IterBudget>>,
   <<"ScalingInvariants", ScalingInvariants>>,
   <<"Contained", Contained>>, <<"StartupFault", StartupFault>>, <<"LaterFault", LaterFault>>,
   <<"UnknownIsConsistent", UnknownIsConsistent>>, <<"OnlyArgErrors", OnlyArgErrors>> >>

\* evaluated when the trace is fully consumed: every property that fails is printed with the trace id
TDone == /\ l = Len(Tr) + 1
         /\ \A i \in DOMAIN Props : IF Props[i][2] THEN TRUE ELSE PrintT(<<"VIOLATED", tid, Props[i][1]>>)
         /\ PrintT(<<"ACCEPT", tid, Done>>)
         /\ UNCHANGED cvars

TInit == CInit /\ tid \in 1..Len(Traces) /\ l = 1
TNext == /\ (TStart \/ TKkt \/ TIter \/ TReturn \/ TRaise \/ TDone)
         /\ l' = l + 1 /\ UNCHANGED tid
TSpec == TInit /\ [][TNext]_<<cvars, tid, l>>
=============================================================================
