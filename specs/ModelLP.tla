------------------------------- MODULE ModelLP -------------------------------
(***************************************************************************)
(* Optimization problems of cvxopt.modeling (modeling.rst, "Optimization   *)
(* Problems") and the linear program each of them denotes (C12).            *)
(*                                                                          *)
(* A problem P is                                                           *)
(*    [sz   |-> variable name -> length,                                    *)
(*     vo   |-> sequence of the names of the variables of the problem (the  *)
(*              order of the columns; a variable that occurs only in 0*v is *)
(*              not a variable of the problem),                             *)
(*     obj  |-> a term of ModelExpr of length 1, affine or convex,          *)
(*     cons |-> sequence of [a, rel, b] with rel in "<=", ">=", "==",       *)
(*     envs |-> sequence of integer assignments (grid points)]              *)
(* Every max / min / abs / max1 / min1 node of a term carries a label `nid` *)
(* that is unique in the problem (a name for its auxiliary variable).       *)
(*                                                                          *)
(* SEMANTICS.  P means: minimise Eval(obj, x)[1] over all x with            *)
(* Holds(c, x) for every constraint c  (Eval of ModelExpr).                 *)
(*                                                                          *)
(* THE LP.  LP(P) is formed by the textbook epigraph construction,          *)
(* independently of modeling.py: Rep(t, 1) represents a convex term by      *)
(* affine forms in (x, auxiliary variables) plus auxiliary inequalities,    *)
(* one auxiliary vector per max/abs node; Rep(t, -1) does the same for      *)
(* concave terms (hypograph).  The modeling layer uses a different          *)
(* construction (it eliminates auxiliary variables where it can), so the    *)
(* two LPs differ in size; the property says they have the same optimal     *)
(* value and that the values and multipliers handed back solve P.           *)
(*                                                                          *)
(* EpigraphLemma (checked by TLC on the grid points of every generated      *)
(* problem): with every auxiliary variable at the value of its node,        *)
(*   - every auxiliary inequality holds, and for every node component one   *)
(*     of its defining inequalities is tight (it cannot be lowered),        *)
(*   - the objective form equals Eval(obj, x) and every main row equals the *)
(*     corresponding component of the constraint function.                  *)
(* Since auxiliary variables enter every form with a nonnegative weight in  *)
(* the direction of optimisation, this gives  min over aux = the function,  *)
(* i.e. LP(P) is the problem written down.                                  *)
(***************************************************************************)
EXTENDS ModelExpr, SequencesExt

\* ---------------------------------------------------------------- problems
CFun(c) == IF c.rel = ">=" THEN [op |-> "sub", a |-> c.b, b |-> c.a] ELSE [op |-> "sub", a |-> c.a, b |-> c.b]
ConOK(c, sz) == /\ Defined(CFun(c), sz)
                /\ IF c.rel = "==" THEN Curv(CFun(c), sz) = 0 ELSE Curv(CFun(c), sz) \in {0, 1}
ProblemOK(P) == /\ Defined(P.obj, P.sz) /\ TLen(P.obj, P.sz) = 1 /\ Curv(P.obj, P.sz) \in {0, 1}
                /\ \A i \in DOMAIN P.cons : ConOK(P.cons[i], P.sz)
Holds(c, e) == LET v == Eval(CFun(c), e) IN
               IF c.rel = "==" THEN \A i \in DOMAIN v : v[i] = 0 ELSE \A i \in DOMAIN v : v[i] <= 0
Feasible(P, e) == \A i \in DOMAIN P.cons : Holds(P.cons[i], e)
ObjAt(P, e) == Eval(P.obj, e)[1]

\* ------------------------------------------------------------ affine forms
\* a form is [m |-> sequence of <<coefficient, key>>, k |-> constant]; key = <<0, variable index, component>> or <<1, nid, component>>
FConst(k) == [m |-> <<>>, k |-> k]
FVar(key) == [m |-> << <<1, key>> >>, k |-> 0]
FAdd(f, g) == [m |-> f.m \o g.m, k |-> f.k + g.k]
FScale(s, f) == [m |-> SubSeq([i \in DOMAIN f.m |-> <<s * f.m[i][1], f.m[i][2]>>], 1, Len(f.m)), k |-> s * f.k]
FSub(f, g) == FAdd(f, FScale(-1, g))
RECURSIVE FSum(_)
FSum(fs) == IF fs = <<>> THEN FConst(0) ELSE FAdd(Head(fs), FSum(Tail(fs)))
RECURSIVE Concat(_)
Concat(ss) == IF ss = <<>> THEN <<>> ELSE Head(ss) \o Concat(Tail(ss))
B(rows, i) == IF Len(rows) = 1 THEN rows[1] ELSE rows[i]
CoefOf(f, key) == SumSeq([i \in DOMAIN f.m |-> IF f.m[i][2] = key THEN f.m[i][1] ELSE 0])

VarIdx(v, vo) == CHOOSE i \in DOMAIN vo : vo[i] = v

\* TLC keeps a function constructor [i \in S |-> e] as an unevaluated closure and re-evaluates e at every application; sequences that are
\* indexed many times are turned into explicit tuples once
Eager(q) == SubSeq(q, 1, Len(q))
\* Rep(t, d, P): rows (affine forms, one per component), aux (forms f meaning f <= 0), nodes (the labelled nodes met, with direction)
RECURSIVE Rep(_, _, _), RepRaw(_, _, _)
Rep(t, d, P) == LET r == RepRaw(t, d, P) IN [rows |-> Eager(r.rows), aux |-> Eager(r.aux), nodes |-> Eager(r.nodes)]
RepRaw(t, d, P) ==
    LET none == [rows |-> <<>>, aux |-> <<>>, nodes |-> <<>>]
        TVar(i) == FVar(<<1, t.nid, i>>)
        Node == <<[id |-> t.nid, t |-> t, d |-> d]>>
    IN
    CASE t.op = "var"   -> [none EXCEPT !.rows = [i \in 1..P.sz[t.v] |-> FVar(<<0, VarIdx(t.v, P.vo), i>>)]]
      [] t.op = "const" -> [none EXCEPT !.rows = [i \in DOMAIN t.c |-> FConst(t.c[i])]]
      [] t.op = "neg"   -> LET r == Rep(t.a, -d, P) IN [r EXCEPT !.rows = [i \in DOMAIN r.rows |-> FScale(-1, r.rows[i])]]
      [] t.op \in {"add", "sub"} ->
            LET ra == Rep(t.a, d, P)
                rb == Rep(t.b, IF t.op = "add" THEN d ELSE -d, P)
                L == IF Len(ra.rows) >= Len(rb.rows) THEN Len(ra.rows) ELSE Len(rb.rows)
            IN  [rows |-> [i \in 1..L |-> IF t.op = "add" THEN FAdd(B(ra.rows, i), B(rb.rows, i)) ELSE FSub(B(ra.rows, i), B(rb.rows, i))],
                 aux |-> ra.aux \o rb.aux, nodes |-> ra.nodes \o rb.nodes]
      [] t.op = "smul"  -> IF t.k = 0 THEN [none EXCEPT !.rows = [i \in 1..TLen(t.a, P.sz) |-> FConst(0)]]      \* the zero function: no variables
                           ELSE LET r == Rep(t.a, IF t.k > 0 THEN d ELSE -d, P) IN [r EXCEPT !.rows = [i \in DOMAIN r.rows |-> FScale(t.k, r.rows[i])]]
      [] t.op = "mmul"  ->
            IF Len(t.M) = 1 /\ Len(t.M[1]) = 1
            THEN LET r == Rep(t.a, IF t.M[1][1] >= 0 THEN d ELSE -d, P) IN [r EXCEPT !.rows = [i \in DOMAIN r.rows |-> FScale(t.M[1][1], r.rows[i])]]
            ELSE LET r == Rep(t.a, d, P) IN          \* t.a is affine: r.aux is empty
                 [r EXCEPT !.rows = [q \in 1..Len(t.M) |-> FSum([j \in 1..Len(r.rows) |-> FScale(t.M[q][j], r.rows[j])])]]
      [] t.op = "idx"   -> LET r == Rep(t.a, d, P)  p == Positions(t.ix, Len(r.rows)) IN [r EXCEPT !.rows = [i \in DOMAIN p |-> r.rows[p[i] + 1]]]
      [] t.op = "sum"   -> LET r == Rep(t.a, d, P) IN [r EXCEPT !.rows = <<FSum(r.rows)>>]
      [] t.op = "abs"   ->      \* d = 1; t.a affine:   a_i - t_i <= 0,  -a_i - t_i <= 0
            LET r == Rep(t.a, 1, P)  L == Len(r.rows) IN
            [rows |-> [i \in 1..L |-> TVar(i)],
             aux |-> r.aux \o [i \in 1..L |-> FSub(r.rows[i], TVar(i))] \o [i \in 1..L |-> FSub(FScale(-1, r.rows[i]), TVar(i))],
             nodes |-> r.nodes \o Node]
      [] t.op \in {"max", "min"} ->     \* max: d = 1, arg_j,i - t_i <= 0;   min: d = -1,  t_i - arg_j,i <= 0
            LET rs == [j \in DOMAIN t.args |-> Rep(t.args[j], d, P)]
                L == MaxOf({Len(rs[j].rows) : j \in DOMAIN rs})
            IN  [rows |-> [i \in 1..L |-> TVar(i)],
                 aux |-> Concat([j \in DOMAIN rs |-> rs[j].aux]) \o
                         Concat([j \in DOMAIN rs |-> [i \in 1..L |-> IF d = 1 THEN FSub(B(rs[j].rows, i), TVar(i)) ELSE FSub(TVar(i), B(rs[j].rows, i))]]),
                 nodes |-> Concat([j \in DOMAIN rs |-> rs[j].nodes]) \o Node]
      [] t.op \in {"max1", "min1"} ->
            LET r == Rep(t.a, d, P) IN
            IF Len(r.rows) = 1 THEN r
            ELSE [rows |-> <<TVar(1)>>,
                  aux |-> r.aux \o [i \in DOMAIN r.rows |-> IF d = 1 THEN FSub(r.rows[i], TVar(1)) ELSE FSub(TVar(1), r.rows[i])],
                  nodes |-> r.nodes \o Node]

\* ------------------------------------------------------------------ the LP
Ineqs(P) == {i \in DOMAIN P.cons : P.cons[i].rel # "=="}
Eqs(P) == {i \in DOMAIN P.cons : P.cons[i].rel = "=="}
NodeLen(nd, P) == IF nd.t.op \in {"max1", "min1"} THEN 1 ELSE TLen(nd.t, P.sz)
\* everything derived from the representation of the objective and of every constraint, computed once per problem
Ctx(P) ==
    LET ER(r) == [rows |-> Eager(r.rows), aux |-> Eager(r.aux), nodes |-> Eager(r.nodes)]
        ro == ER(Rep(P.obj, 1, P))
        rc == Eager([i \in DOMAIN P.cons |-> ER(Rep(CFun(P.cons[i]), 1, P))])
        nodes == ro.nodes \o Concat([i \in DOMAIN P.cons |-> rc[i].nodes])
        keys == Concat([v \in DOMAIN P.vo |-> [i \in 1..P.sz[P.vo[v]] |-> <<0, v, i>>]]) \o
                Concat([q \in DOMAIN nodes |-> [i \in 1..NodeLen(nodes[q], P) |-> <<1, nodes[q].id, i>>]])
        auxs == ro.aux \o Concat([i \in DOMAIN P.cons |-> rc[i].aux])
    IN  [ro |-> ro, rc |-> rc, nodes |-> Eager(nodes), keys |-> Eager(keys), auxs |-> Eager(auxs)]
UniqueIds(X) == \A p, q \in DOMAIN X.nodes : p # q => X.nodes[p].id # X.nodes[q].id
CoRow(f, keys) == [j \in DOMAIN keys |-> CoefOf(f, keys[j])]

\* rows of G in this order: for every inequality (in the order of P.cons) its main rows, then the auxiliary rows of the objective, then those
\* of the constraints; rows of A: the equalities in the order of P.cons
LPX(P, X) ==
    LET seqI == SetToSortSeq(Ineqs(P), <)
        seqE == SetToSortSeq(Eqs(P), <)
        mainI == Concat([q \in DOMAIN seqI |-> X.rc[seqI[q]].rows])
        rowsE == Concat([q \in DOMAIN seqE |-> X.rc[seqE[q]].rows])
        gi == mainI \o X.auxs
    IN  [n |-> Len(X.keys), nx |-> SumSeq([v \in DOMAIN P.vo |-> P.sz[P.vo[v]]]),
         c |-> CoRow(X.ro.rows[1], X.keys), d |-> X.ro.rows[1].k,
         G |-> [r \in DOMAIN gi |-> CoRow(gi[r], X.keys)], h |-> [r \in DOMAIN gi |-> -gi[r].k],
         A |-> [r \in DOMAIN rowsE |-> CoRow(rowsE[r], X.keys)], b |-> [r \in DOMAIN rowsE |-> -rowsE[r].k],
         nmain |-> Len(mainI),
         lens |-> [i \in DOMAIN P.cons |-> Len(X.rc[i].rows)]]
LP(P) == LPX(P, Ctx(P))

\* ---------------------------------------------------------- epigraph lemma
EpigraphLemmaAt(P, X, e) ==
    LET nv == [q \in DOMAIN X.nodes |-> Eval(X.nodes[q].t, e)]              \* every auxiliary variable at the value of its node
        KeyVal(key) == IF key[1] = 0 THEN e[P.vo[key[2]]][key[3]]
                       ELSE nv[CHOOSE q \in DOMAIN X.nodes : X.nodes[q].id = key[2]][key[3]]
        FVal(f) == f.k + SumSeq([i \in DOMAIN f.m |-> f.m[i][1] * KeyVal(f.m[i][2])])
        av == [r \in DOMAIN X.auxs |-> FVal(X.auxs[r])]
    IN  /\ \A r \in DOMAIN av : av[r] <= 0
        /\ FVal(X.ro.rows[1]) = ObjAt(P, e)
        /\ \A i \in DOMAIN P.cons : LET r == X.rc[i]  v == Eval(CFun(P.cons[i]), e) IN
               Len(r.rows) = Len(v) /\ \A q \in DOMAIN v : FVal(r.rows[q]) = v[q]
        /\ \A q \in DOMAIN X.nodes : LET nd == X.nodes[q] IN
               \A i \in 1..NodeLen(nd, P) :
                   \E r \in DOMAIN X.auxs : av[r] = 0 /\ CoefOf(X.auxs[r], <<1, nd.id, i>>) = -nd.d
EpigraphLemmaX(P, X) == UniqueIds(X) /\ \A q \in DOMAIN P.envs : EpigraphLemmaAt(P, X, P.envs[q])
EpigraphLemma(P) == EpigraphLemmaX(P, Ctx(P))

\* ------------------------------------------------- exact truth of an LP
\* certificates are integer vectors with a common positive denominator den (the harness' exact simplex proposes them, this module decides)
Dot(a, b) == SumSeq([i \in DOMAIN a |-> a[i] * b[i]])
MatVec(M, x) == [r \in DOMAIN M |-> Dot(M[r], x)]
TMatVec(M, z, n) == [j \in 1..n |-> SumSeq([r \in DOMAIN M |-> M[r][j] * z[r]])]
PrimalFeas(L, X, den) == /\ \A r \in DOMAIN L.G : Dot(L.G[r], X) <= den * L.h[r]
                         /\ \A r \in DOMAIN L.A : Dot(L.A[r], X) = den * L.b[r]
\* G'Z + A'Y + den c = 0, Z >= 0
DualFeas(L, Z, Y, den) == /\ \A r \in DOMAIN Z : Z[r] >= 0
                          /\ \A j \in 1..L.n : TMatVec(L.G, Z, L.n)[j] + TMatVec(L.A, Y, L.n)[j] + den * L.c[j] = 0
\* optimal: primal X/dx, dual (Z, Y)/dz feasible with equal objectives:  c'X/dx = (-h'Z - b'Y)/dz
IsOptimal(L, w) == /\ w.dx > 0 /\ w.dz > 0 /\ PrimalFeas(L, w.X, w.dx) /\ DualFeas(L, w.Z, w.Y, w.dz)
                   /\ Dot(L.c, w.X) * w.dz = -(Dot(L.h, w.Z) + Dot(L.b, w.Y)) * w.dx
\* Farkas: Z >= 0, G'Z + A'Y = 0, h'Z + b'Y < 0
IsPinf(L, w) == /\ \A r \in DOMAIN w.Z : w.Z[r] >= 0
                /\ \A j \in 1..L.n : TMatVec(L.G, w.Z, L.n)[j] + TMatVec(L.A, w.Y, L.n)[j] = 0
                /\ Dot(L.h, w.Z) + Dot(L.b, w.Y) < 0
\* improving ray: G R <= 0, A R = 0, c'R < 0
IsDinf(L, w) == /\ \A r \in DOMAIN L.G : Dot(L.G[r], w.R) <= 0
                /\ \A r \in DOMAIN L.A : Dot(L.A[r], w.R) = 0
                /\ Dot(L.c, w.R) < 0
\* truth classes: "optimal" | "pinf" (infeasible, dual feasible) | "dinf" (feasible, unbounded) | "both" | "bad" (certificate rejected)
Truth(L, w) ==
    CASE w.cls = "optimal" -> IF IsOptimal(L, w) THEN "optimal" ELSE "bad"
      [] w.cls = "pinf"    -> IF IsPinf(L, w) /\ w.dz > 0 /\ DualFeas(L, w.Z0, w.Y0, w.dz) THEN "pinf" ELSE "bad"
      [] w.cls = "dinf"    -> IF IsDinf(L, w) /\ w.dx > 0 /\ PrimalFeas(L, w.X, w.dx) THEN "dinf" ELSE "bad"
      [] w.cls = "both"    -> IF IsPinf(L, w) /\ IsDinf(L, w) THEN "both" ELSE "bad"
\* the optimal value p* = (c'X + d dx) / dx as <<numerator, denominator>>
PStar(L, w) == <<Dot(L.c, w.X) + L.d * w.dx, w.dx>>
\* p* is a lower bound of the objective at every feasible grid point of the PROBLEM (binds the LP's value to the problem's semantics)
GridBound(P, L, w) == \A q \in DOMAIN P.envs : Feasible(P, P.envs[q]) => PStar(L, w)[1] <= ObjAt(P, P.envs[q]) * PStar(L, w)[2]
GridInfeasible(P) == \A q \in DOMAIN P.envs : ~Feasible(P, P.envs[q])

\* ------------------------------------------------------------ the contract
(* an observation o of one call op.solve(format, solver), abstracted by alpha:
     raised, status, vars_set / vars_none, mults_set / mults_none,
     cons_hold, obj_is_pstar, mult_len, mult_nonneg, dual_ok   (booleans; the last five evaluated when status = 'optimal')
   glpk: "With the 'glpk' option, solve does not provide certificates of infeasibility" - values and multipliers are then all None *)
Failed(truth, o) ==
    LET F(name, ok) == IF ok THEN {} ELSE {name} IN
    IF o.raised THEN {"raised"} ELSE
    IF o.lenient /\ o.status = "unknown" THEN {} ELSE       \* no central path: 'unknown' is a documented outcome of the interior-point solver
    CASE truth = "optimal" ->
            F("status-optimal", o.status = "optimal") \cup
            (IF o.status = "optimal" THEN F("values-set", o.vars_set /\ o.mults_set) \cup F("constraints-hold", o.cons_hold)
                 \cup F("objective-is-pstar", o.obj_is_pstar) \cup F("multiplier-length", o.mult_len)
                 \cup F("multiplier-nonnegative", o.mult_nonneg) \cup F("dual-solution", o.dual_ok) ELSE {})
      [] truth = "pinf" -> F("status-primal-infeasible", o.status = "primal infeasible") \cup F("variables-none", o.vars_none)
                           \cup F("multiplier-length", o.mult_len)
      [] truth = "dinf" -> F("status-dual-infeasible", o.status = "dual infeasible") \cup F("multipliers-none", o.mults_none)
      [] truth = "both" -> F("status-infeasible", o.status \in {"primal infeasible", "dual infeasible"})
                           \cup F("variables-none", o.status = "primal infeasible" => o.vars_none)
                           \cup F("multipliers-none", o.status = "dual infeasible" => o.mults_none)
\* 'dense' / 'sparse' and default / glpk agree: same status and, when optimal, the same optimal value (`agree` from alpha)
SameResult(obs, judged, truth) == truth = "both" \/ \A i, j \in DOMAIN obs : (judged[i] /\ judged[j] /\ ~obs[i].raised /\ ~obs[j].raised
                                                      /\ ~(obs[i].lenient /\ obs[i].status = "unknown") /\ ~(obs[j].lenient /\ obs[j].status = "unknown")) =>
                       obs[i].status = obs[j].status /\ (obs[i].status = "optimal" => obs[i].agree /\ obs[j].agree)
=============================================================================
