----------------------------- MODULE KktFactory -----------------------------
(***************************************************************************)
(* Protocol of a KKT solver factory of cvxopt.misc (kkt_ldl, kkt_ldl2,     *)
(* kkt_qr, kkt_chol, kkt_chol2):                                            *)
(*     factor = kkt_x(G, dims, A[, mnl])     one factory object            *)
(*     solve  = factor(W[, H, Df])            Factor(w): may be repeated    *)
(*     solve(bx, by, bz)                      Solve(b): uses the LATEST     *)
(*                                            successful factorisation      *)
(* The factory keeps private work storage between calls (for kkt_chol2      *)
(* also the flags firstcall / singular).  The contract: every Solve returns *)
(* the solution of the documented block system for the scaling of the       *)
(* latest Factor, whatever the history (C07: "repeated factor/solve calls   *)
(* on one factory do not interfere").  This module generates the histories; *)
(* the block equation itself is decided by MC_Kkt (exact rationals).        *)
(***************************************************************************)
EXTENDS Integers, Sequences, TLC

CONSTANTS NW,        \* number of distinct scalings
          NB,        \* number of distinct right-hand sides
          MaxLen     \* length of a history

VARIABLES cur,       \* index of the scaling of the latest Factor (0: none yet)
          hist,      \* the history so far: sequence of <<"F", w>> / <<"S", b, w-used>>
          firstcall  \* kkt_chol2's flag (a hidden state the histories must exercise in both values)
vars == <<cur, hist, firstcall>>

Init == cur = 0 /\ hist = <<>> /\ firstcall = TRUE
Factor(w) == /\ Len(hist) < MaxLen /\ cur' = w /\ hist' = Append(hist, <<"F", w, 0>>) /\ firstcall' = FALSE
\* the solution a Solve must return is the one for scaling `cur`
Solve(b) == /\ Len(hist) < MaxLen /\ cur # 0 /\ hist' = Append(hist, <<"S", b, cur>>) /\ UNCHANGED <<cur, firstcall>>
Next == (\E w \in 1..NW : Factor(w)) \/ (\E b \in 1..NB : Solve(b))
Spec == Init /\ [][Next]_vars

\* C07h: every solve in the history is attributed to the scaling of the latest preceding factorisation
LatestFactor == \A i \in DOMAIN hist : hist[i][1] = "S" =>
                    LET js == {j \in 1..(i - 1) : hist[j][1] = "F"} IN
                    js # {} /\ hist[i][3] = hist[CHOOSE j \in js : \A k \in js : k <= j][2]
NoSolveBeforeFactor == \A i \in DOMAIN hist : hist[i][1] = "S" => \E j \in 1..(i - 1) : hist[j][1] = "F"
=============================================================================
