----------------------------- MODULE ConeAlgebra -----------------------------
(***************************************************************************)
(* The vector operations on the product cone that cvxopt.misc exposes      *)
(* (scale, scale2, pack, pack2, unpack, sdot, snrm2, sgemv, trisc, triusc,  *)
(* symm, sprod, ssqr, sinv, max_step, jdot, jnrm2), each defined here from  *)
(* its MATHEMATICAL definition - not from the BLAS call sequence of either  *)
(* implementation - in exact rational arithmetic.                           *)
(*                                                                          *)
(* A rational is <<n, d>> with d > 0 in lowest terms.  Cone vectors use the *)
(* layout of ConeLayout (with mnl leading "nonlinear" entries that behave   *)
(* like the 'l' block).  An 's' block is a full column-major m x m array    *)
(* of which only the lower triangle is referenced; results are specified    *)
(* on the lower triangle (Ref) and, where the operation defines it, on the  *)
(* whole block.  sqrt(2) weights of pack/unpack are carried symbolically:   *)
(* a packed entry is <<a, b>> meaning a + b*sqrt(2) with a, b rational.     *)
(*                                                                          *)
(* Cases are read from a JSON file written by the harness (which enumerates *)
(* the argument box); TLC evaluates Expected(case) and serialises it; the   *)
(* harness compares both implementations of every kernel with it.           *)
(***************************************************************************)
EXTENDS Integers, Sequences, FiniteSets, TLC, Json, IOUtils

(******************************* rationals ********************************)
Abs(a) == IF a < 0 THEN -a ELSE a
RECURSIVE GCD(_, _)
GCD(a, b) == IF b = 0 THEN a ELSE GCD(b, a % b)
Norm(n, d) == LET s == IF d < 0 THEN -1 ELSE 1
                  g == GCD(Abs(n), Abs(d))
              IN  IF n = 0 THEN <<0, 1>> ELSE <<(s * n) \div g, (s * d) \div g>>
R(n) == <<n, 1>>
Zero == <<0, 1>>
One == <<1, 1>>
RAdd(a, b) == Norm(a[1] * b[2] + b[1] * a[2], a[2] * b[2])
RNeg(a) == <<-a[1], a[2]>>
RSub(a, b) == RAdd(a, RNeg(b))
RMul(a, b) == Norm(a[1] * b[1], a[2] * b[2])
RInv(a) == Norm(a[2], a[1])
RDiv(a, b) == RMul(a, RInv(b))
RLt(a, b) == a[1] * b[2] < b[1] * a[2]
RLe(a, b) == a[1] * b[2] <= b[1] * a[2]
RMax(a, b) == IF RLt(a, b) THEN b ELSE a
RECURSIVE RSum(_)
RSum(s) == IF s = <<>> THEN Zero ELSE RAdd(Head(s), RSum(Tail(s)))
RDot(x, y) == RSum([k \in 1..Len(x) |-> RMul(x[k], y[k])])
\* exact square root of a rational that is a perfect square (cases are generated that way); <<-1,1>> otherwise
ISqrt(n) == IF \E r \in 0..n : r * r = n THEN CHOOSE r \in 0..n : r * r = n ELSE -1
RSqrt(a) == <<ISqrt(a[1]), ISqrt(a[2])>>

(******************************** layout **********************************)
RECURSIVE SumSeq(_)
SumSeq(s) == IF s = <<>> THEN 0 ELSE Head(s) + SumSeq(Tail(s))
RECURSIVE SumSq(_)
SumSq(s) == IF s = <<>> THEN 0 ELSE Head(s) * Head(s) + SumSq(Tail(s))
Prefix(s, k) == SubSeq(s, 1, k)
LOff(d, mnl) == 0                                     \* nonlinear + 'l' part starts at 0, has mnl + d.l entries
QOff(d, mnl, k) == mnl + d.l + SumSeq(Prefix(d.q, k - 1))
SOff(d, mnl, k) == mnl + d.l + SumSeq(d.q) + SumSq(Prefix(d.s, k - 1))
CDim(d, mnl) == mnl + d.l + SumSeq(d.q) + SumSq(d.s)
\* diagonal storage: 's' blocks contribute m entries
DOff(d, mnl, k) == mnl + d.l + SumSeq(d.q) + SumSeq(Prefix(d.s, k - 1))
\* entry (i, j), 0-based, of the k-th 's' block of vector x
SAt(x, d, mnl, k, i, j) == x[SOff(d, mnl, k) + j * d.s[k] + i + 1]
\* symmetric view: the referenced entry for (i, j)
SSym(x, d, mnl, k, i, j) == IF i >= j THEN SAt(x, d, mnl, k, i, j) ELSE SAt(x, d, mnl, k, j, i)

\* which block a (1-based) position p belongs to: <<"l", 0, p-1>>, <<"q", k, i>>, <<"s", k, i, j>>
Where(d, mnl, p) ==
    IF p <= mnl + d.l THEN <<"l", 0, p - 1, 0>>
    ELSE IF p <= mnl + d.l + SumSeq(d.q)
         THEN LET k == CHOOSE kk \in 1..Len(d.q) : QOff(d, mnl, kk) < p /\ p <= QOff(d, mnl, kk) + d.q[kk]
              IN  <<"q", k, p - 1 - QOff(d, mnl, k), 0>>
         ELSE LET k == CHOOSE kk \in 1..Len(d.s) : SOff(d, mnl, kk) < p /\ p <= SOff(d, mnl, kk) + d.s[kk] * d.s[kk]
                  o == p - 1 - SOff(d, mnl, k)
              IN  <<"s", k, o % d.s[k], o \div d.s[k]>>
IsRef(d, mnl, p) == LET w == Where(d, mnl, p) IN w[1] # "s" \/ w[3] >= w[4]       \* lower triangle incl. diagonal

(******************************* kernels **********************************)
\* <x, y> in S : plain products on 'l', 'q'; trace(XY) on symmetric 's' blocks (lower triangle, off-diagonals twice)
SDot(x, y, d, mnl) ==
    RSum([p \in 1..CDim(d, mnl) |->
            LET w == Where(d, mnl, p) IN
            IF w[1] # "s" THEN RMul(x[p], y[p])
            ELSE IF w[3] = w[4] THEN RMul(x[p], y[p])
            ELSE IF w[3] > w[4] THEN RMul(R(2), RMul(x[p], y[p])) ELSE Zero])
SNrm2Sq(x, d, mnl) == SDot(x, x, d, mnl)

\* hyperbolic inner product on one 'q' vector:  x0*y0 - x1'y1
JDot(x, y) == RSub(RMul(x[1], y[1]), RDot(Tail(x), Tail(y)))
JNrm2Sq(x) == JDot(x, x)

\* trisc: zero the strictly upper triangle of 's' blocks, double the strictly lower triangle
Trisc(x, d, mnl) == [p \in 1..Len(x) |->
    IF p > CDim(d, mnl) THEN x[p] ELSE
    LET w == Where(d, mnl, p) IN
    IF w[1] # "s" THEN x[p] ELSE IF w[3] < w[4] THEN Zero ELSE IF w[3] > w[4] THEN RMul(R(2), x[p]) ELSE x[p]]
\* triusc: halve the strictly lower triangle
Triusc(x, d, mnl) == [p \in 1..Len(x) |->
    IF p > CDim(d, mnl) THEN x[p] ELSE
    LET w == Where(d, mnl, p) IN
    IF w[1] = "s" /\ w[3] > w[4] THEN RDiv(x[p], R(2)) ELSE x[p]]
\* symm on one m x m block (as a sequence of m*m entries): copy the lower triangle to the upper
Symm(b, m) == [p \in 1..(m * m) |-> LET i == (p - 1) % m   j == (p - 1) \div m
                                  IN  IF i >= j THEN b[p] ELSE b[i * m + j + 1]]

\* the Jordan product  y o x ; on 's' blocks (1/2)(XY + YX), specified on the lower triangle
SProd(x, y, d, mnl, diagD) ==
    [p \in 1..CDim(d, mnl) |->
        LET w == Where(d, mnl, p) IN
        IF w[1] = "l" THEN RMul(x[p], y[p])
        ELSE IF w[1] = "q" THEN
            LET k == w[2]   o == QOff(d, mnl, k)   m == d.q[k]
                xs == SubSeq(x, o + 1, o + m)   ys == SubSeq(y, o + 1, o + m)
            IN  IF w[3] = 0 THEN RDot(xs, ys)
                ELSE RAdd(RMul(ys[1], xs[w[3] + 1]), RMul(xs[1], ys[w[3] + 1]))
        ELSE LET k == w[2]   m == d.s[k]   i == w[3]   j == w[4] IN
             IF diagD THEN
                 \* y's 's' part is diagonal, stored as m entries at DOff:  (1/2)(y_i + y_j) x_ij
                 RMul(RDiv(RAdd(y[DOff(d, mnl, k) + i + 1], y[DOff(d, mnl, k) + j + 1]), R(2)), x[p])
             ELSE
                 RDiv(RAdd(RSum([t \in 1..m |-> RMul(SSym(x, d, mnl, k, i, t - 1), SSym(y, d, mnl, k, t - 1, j))]),
                           RSum([t \in 1..m |-> RMul(SSym(y, d, mnl, k, i, t - 1), SSym(x, d, mnl, k, t - 1, j))])), R(2))]

\* ssqr: x := y o y for y with diagonal 's' part (diagonal storage for both)
DDim(d, mnl) == mnl + d.l + SumSeq(d.q) + SumSeq(d.s)
SSqr(y, d, mnl) ==
    [p \in 1..DDim(d, mnl) |->
        IF p <= mnl + d.l THEN RMul(y[p], y[p])
        ELSE IF p <= mnl + d.l + SumSeq(d.q) THEN
            LET k == CHOOSE kk \in 1..Len(d.q) : QOff(d, mnl, kk) < p /\ p <= QOff(d, mnl, kk) + d.q[kk]
                o == QOff(d, mnl, k)   ys == SubSeq(y, o + 1, o + d.q[k])   i == p - 1 - o
            IN  IF i = 0 THEN RDot(ys, ys) ELSE RMul(R(2), RMul(ys[1], ys[i + 1]))
        ELSE RMul(y[p], y[p])]

\* sinv: x := y o\ x, the inverse of SProd(., y) for y in the interior with diagonal 's' part
\* 'q' block: with a = y'Jy:  x0' = (y0 x0 - y1'x1)/a ;  x1' = x1/y0 - (x0'/y0) y1 ... (solution of y o u = x)
SInv(x, y, d, mnl) ==
    [p \in 1..CDim(d, mnl) |->
        LET w == Where(d, mnl, p) IN
        IF w[1] = "l" THEN RDiv(x[p], y[p])
        ELSE IF w[1] = "q" THEN
            LET k == w[2]   o == QOff(d, mnl, k)   m == d.q[k]
                xs == SubSeq(x, o + 1, o + m)   ys == SubSeq(y, o + 1, o + m)
                a == JNrm2Sq(ys)
                u0 == RDiv(JDot(ys, xs), a)                           \* first component of the solution u
            IN  IF w[3] = 0 THEN u0
                ELSE RDiv(RSub(xs[w[3] + 1], RMul(u0, ys[w[3] + 1])), ys[1])   \* y0 u1 + u0 y1 = x1
        ELSE LET k == w[2]   i == w[3]   j == w[4] IN
             \* (1/2)(y_i + y_j) u_ij = x_ij
             RDiv(RMul(R(2), x[p]), RAdd(y[DOff(d, mnl, k) + i + 1], y[DOff(d, mnl, k) + j + 1]))]

\* Nesterov-Todd scaling.  W = [dnl, d (positive vectors), beta, v (lists), r, rti (lists of m x m column-major)]
\* 'q' block:  W_k = beta (2 v v' - J),  W_k^{-1} = (1/beta)(2 J v v' J - J);  both symmetric
\* 's' block:  W x = vec(r' X r), W^T x = vec(r X r'), W^{-1} x = vec(rti X rti'), W^{-T} x = vec(rti' X rti)
MatAt(M, m, i, j) == M[j * m + i + 1]
Scale(x, W, d, mnl, trans, inv) ==
    [p \in 1..CDim(d, mnl) |->
        LET w == Where(d, mnl, p) IN
        IF w[1] = "l" THEN
            LET dd == IF p <= mnl THEN W.dnl[p] ELSE W.d[p - mnl]
            IN  IF inv THEN RDiv(x[p], dd) ELSE RMul(x[p], dd)
        ELSE IF w[1] = "q" THEN
            LET k == w[2]   o == QOff(d, mnl, k)   m == d.q[k]   i == w[3]
                xs == SubSeq(x, o + 1, o + m)   v == W.v[k]   b == W.beta[k]
                Jx == [t \in 1..m |-> IF t = 1 THEN xs[t] ELSE RNeg(xs[t])]
            IN  IF ~inv
                THEN \* beta (2 v (v'x) - J x)
                     RMul(b, RSub(RMul(R(2), RMul(v[i + 1], RDot(v, xs))), Jx[i + 1]))
                ELSE \* (1/beta) (2 J v (v' J x) - J x)
                     LET Jv == [t \in 1..m |-> IF t = 1 THEN v[t] ELSE RNeg(v[t])]
                     IN  RDiv(RSub(RMul(R(2), RMul(Jv[i + 1], RDot(v, Jx))), Jx[i + 1]), b)
        ELSE
            LET k == w[2]   m == d.s[k]   i == w[3]   j == w[4]
                M == IF inv THEN W.rti[k] ELSE W.r[k]
                \* left/right factors:  result = L X L'  with L chosen per flag combination
                \*   (N,N): r' X r   -> L = r'      (T,N): r X r'   -> L = r
                \*   (N,I): rti X rti' -> L = rti   (T,I): rti' X rti -> L = rti'
                useT == (trans = inv)          \* transposed factor when (N,N) or (T,I)
                L(a, b2) == IF useT THEN MatAt(M, m, b2, a) ELSE MatAt(M, m, a, b2)
            IN  RSum([a \in 1..m |-> RSum([b2 \in 1..m |->
                        RMul(RMul(L(i, a - 1), SSym(x, d, mnl, k, a - 1, b2 - 1)), L(j, b2 - 1))])])]

\* scale2: H(lambda^{1/2}) x  resp. its inverse; lambda in diagonal storage, interior, with rational square roots
Scale2(lmbda, x, d, mnl, inv) ==
    [p \in 1..CDim(d, mnl) |->
        LET w == Where(d, mnl, p) IN
        IF w[1] = "l" THEN (IF inv THEN RMul(x[p], lmbda[p]) ELSE RDiv(x[p], lmbda[p]))
        ELSE IF w[1] = "q" THEN
            LET k == w[2]   o == QOff(d, mnl, k)   m == d.q[k]   i == w[3]
                xs == SubSeq(x, o + 1, o + m)   ls == SubSeq(lmbda, o + 1, o + m)
                a == RSqrt(JNrm2Sq(ls))
                l == [t \in 1..m |-> RDiv(ls[t], a)]            \* unit hyperbolic norm
                lx == IF inv THEN RDot(l, xs) ELSE JDot(l, xs)
                c0 == RDiv(RAdd(xs[1], lx), RAdd(l[1], One))
            IN  IF ~inv THEN (IF i = 0 THEN RDiv(lx, a) ELSE RDiv(RSub(xs[i + 1], RMul(c0, l[i + 1])), a))
                ELSE (IF i = 0 THEN RMul(a, lx) ELSE RMul(a, RAdd(xs[i + 1], RMul(c0, l[i + 1]))))
        ELSE LET k == w[2]   i == w[3]   j == w[4]
                 c == RMul(RSqrt(lmbda[DOff(d, mnl, k) + i + 1]), RSqrt(lmbda[DOff(d, mnl, k) + j + 1]))
             IN  IF inv THEN RMul(x[p], c) ELSE RDiv(x[p], c)]

\* pack: 's' blocks to packed lower-triangular storage, off-diagonals times sqrt(2); entries are <<a, b>> = a + b sqrt(2)
PackedLen(d, mnl) == mnl + d.l + SumSeq(d.q) + SumSeq([k \in 1..Len(d.s) |-> (d.s[k] * (d.s[k] + 1)) \div 2])
RECURSIVE PackBlocks(_, _, _, _)
PackBlock(x, d, mnl, k) ==
    LET m == d.s[k]
        cols == [j \in 1..m |-> [i \in 1..(m - j + 1) |->
                    IF i = 1 THEN <<SAt(x, d, mnl, k, j - 1, j - 1), Zero>>
                    ELSE <<Zero, SAt(x, d, mnl, k, j - 1 + i - 1, j - 1)>>]]
        RECURSIVE Flat(_)
        Flat(ss) == IF ss = <<>> THEN <<>> ELSE Head(ss) \o Flat(Tail(ss))
    IN  Flat(cols)
PackBlocks(x, d, mnl, k) == IF k > Len(d.s) THEN <<>> ELSE PackBlock(x, d, mnl, k) \o PackBlocks(x, d, mnl, k + 1)
Pack(x, d, mnl) == [p \in 1..(mnl + d.l + SumSeq(d.q)) |-> <<x[p], Zero>>] \o PackBlocks(x, d, mnl, 1)

\* max_step on one block kind with a rational answer:  min {t : x + t e >= 0}
\*   'l':  max_i (-x_i)          'q' (with ||x1|| rational): ||x1|| - x0
MaxStepL(x) == LET vals == {RNeg(x[i]) : i \in 1..Len(x)}
               IN  CHOOSE v \in vals : \A u \in vals : RLe(u, v)
MaxStepQ(x) == RSub(RSqrt(RDot(Tail(x), Tail(x))), x[1])

(**************** identities: guard the specification itself ****************)
\* checked by TLC on every generated case (ASSUMEs in MC_ConeAlgebra)
InvolutionOK(x, W, d, mnl, tr) == LET y == Scale(x, W, d, mnl, tr, FALSE)
                                      \* symmetrise y's 's' blocks implicitly: Scale reads through SSym
                                  IN  \A p \in 1..CDim(d, mnl) : IsRef(d, mnl, p) => Scale(y, W, d, mnl, tr, TRUE)[p] = x[p]
AdjointOK(x, y, W, d, mnl) == SDot(Scale(x, W, d, mnl, FALSE, FALSE), y, d, mnl) = SDot(x, Scale(y, W, d, mnl, TRUE, FALSE), d, mnl)
SinvOK(x, y, d, mnl) == \A p \in 1..CDim(d, mnl) : IsRef(d, mnl, p) => SInv(SProd(x, y, d, mnl, TRUE), y, d, mnl)[p] = x[p]
=============================================================================
