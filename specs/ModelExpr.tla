------------------------------ MODULE ModelExpr ------------------------------
(***************************************************************************)
(* Denotational semantics of the expression language of cvxopt.modeling    *)
(* (doc/source/modeling.rst, "Functions"): every expression built from      *)
(* variables and constants with + - unary-, scalar and matrix               *)
(* multiplication, indexing, sum, max, min, abs has                         *)
(*     Len(t)    its length under the documented broadcasting rule          *)
(*               (every operand has the common length or length 1),         *)
(*     Curv(t)   affine | convex | concave | err (the documented rules:     *)
(*               sums of like curvature, a negative scalar flips, max of    *)
(*               affine/convex is convex, min of affine/concave is concave, *)
(*               matrix multiplication of affine functions only),           *)
(*     Eval(t, e) its value for an assignment e of integer vectors.         *)
(* A term is a record tree (read from JSON, so it is never put in a set):   *)
(*   [op |-> "var", v]  [op |-> "const", c]  [op |-> "neg", a]              *)
(*   [op |-> "add" | "sub", a, b]   [op |-> "smul", k, a]                   *)
(*   [op |-> "mmul", M (sequence of rows), a]   [op |-> "idx", ix, a]       *)
(*   [op |-> "sum", a]  [op |-> "abs", a]  [op |-> "max" | "min", args]     *)
(*   [op |-> "max1" | "min1", a]  (max / min over the components of a)      *)
(*   [op |-> "div", k, a]  (division by the nonzero scalar k)                *)
(*   [op |-> "iadd" | "isub", a, b]  [op |-> "imul" | "idiv", k, a]          *)
(*        the in-place forms  f += u, f -= u, f *= k, f /= k  applied to the *)
(*        object built for a: "defined if the corresponding expanded         *)
(*        operations are defined and if they do not change the length of f". *)
(* Values are computed in integers: EvalS(t, e, s) is s times the value, for *)
(* any s that is a multiple of Den(t), the product of the divisors in t.     *)
(***************************************************************************)
EXTENDS Integers, Sequences, FiniteSets, TLC

NoneI == 999
ErrLen == -1

\* Python slice.indices / index normalisation (as in DenseMatrix.tla)
SliceIdx(a, b, c, n) ==
    LET st == IF c = NoneI THEN 1 ELSE c
        lower == IF st < 0 THEN -1 ELSE 0
        upper == IF st < 0 THEN n - 1 ELSE n
        clip(v) == IF v < 0 THEN (IF v + n < lower THEN lower ELSE v + n) ELSE (IF v > upper THEN upper ELSE v)
        s == IF a = NoneI THEN (IF st < 0 THEN upper ELSE lower) ELSE clip(a)
        e == IF b = NoneI THEN (IF st < 0 THEN lower ELSE upper) ELSE clip(b)
        cnt == IF st > 0 THEN (IF e > s THEN (e - s + st - 1) \div st ELSE 0)
               ELSE (IF s > e THEN (s - e + (-st) - 1) \div (-st) ELSE 0)
    IN  [k \in 1..cnt |-> s + (k - 1) * st]
\* positions (0-based) selected by an index, or <<-1>> if the index is invalid (out of range, zero step, empty selection)
Positions(ix, n) ==
    CASE ix.t = "int"   -> IF -n <= ix.v /\ ix.v < n THEN <<IF ix.v < 0 THEN ix.v + n ELSE ix.v>> ELSE <<-1>>
      [] ix.t = "slice" -> IF ix.c = 0 THEN <<-1>>
                           ELSE LET s == SliceIdx(ix.a, ix.b, ix.c, n) IN IF s = <<>> THEN <<-1>> ELSE s
      [] ix.t = "list"  -> IF ix.vs = <<>> \/ \E i \in DOMAIN ix.vs : ~(-n <= ix.vs[i] /\ ix.vs[i] < n) THEN <<-1>>
                           ELSE [i \in DOMAIN ix.vs |-> IF ix.vs[i] < 0 THEN ix.vs[i] + n ELSE ix.vs[i]]

RECURSIVE SumSeq(_)
SumSeq(s) == IF s = <<>> THEN 0 ELSE Head(s) + SumSeq(Tail(s))
MaxOf(S) == CHOOSE m \in S : \A x \in S : x <= m
MinOf(S) == CHOOSE m \in S : \A x \in S : m <= x

\* broadcasting: the common length of a list of lengths (each 1 or L), ErrLen otherwise
Common(ls) == LET S == {ls[i] : i \in DOMAIN ls} IN
              IF ErrLen \in S \/ S = {} THEN ErrLen
              ELSE LET L == MaxOf(S) IN IF \A l \in S : l = L \/ l = 1 THEN L ELSE ErrLen

RECURSIVE TLen(_, _)
TLen(t, sz) ==
    CASE t.op = "var"   -> sz[t.v]
      [] t.op = "const" -> Len(t.c)
      [] t.op \in {"neg", "smul", "abs", "div", "imul", "idiv"} -> TLen(t.a, sz)
      [] t.op \in {"iadd", "isub"} ->        \* as + and -, and the length of the left operand must not change
            LET la == TLen(t.a, sz)  lb == TLen(t.b, sz)
                spb == t.b.op = "const" /\ t.b.sp /\ lb = 1
            IN  IF la = ErrLen \/ lb = ErrLen \/ (spb /\ la # 1) THEN ErrLen ELSE IF lb = la \/ lb = 1 THEN la ELSE ErrLen
      \* a scalar term is a number, a 1 by 1 DENSE matrix, or a variable / function of length 1: a sparse 1 by 1 constant is not broadcast
      [] t.op \in {"add", "sub"} ->
            LET la == TLen(t.a, sz)  lb == TLen(t.b, sz)
                spa == t.a.op = "const" /\ t.a.sp /\ la = 1
                spb == t.b.op = "const" /\ t.b.sp /\ lb = 1
            IN  IF (spa /\ lb # 1) \/ (spb /\ la # 1) THEN ErrLen ELSE Common(<<la, lb>>)
      [] t.op = "mmul"  -> LET la == TLen(t.a, sz) IN
                           IF la = ErrLen THEN ErrLen
                           ELSE IF Len(t.M[1]) = la THEN Len(t.M)              \* (r x c) times a vector of length c
                           ELSE IF Len(t.M) = 1 /\ Len(t.M[1]) = 1 /\ ~t.sp THEN la      \* a 1 by 1 DENSE matrix is a scalar
                           ELSE ErrLen
      [] t.op = "idx"   -> LET la == TLen(t.a, sz) IN
                           IF la = ErrLen THEN ErrLen
                           ELSE LET p == Positions(t.ix, la) IN IF p = <<-1>> THEN ErrLen ELSE Len(p)
      [] t.op \in {"sum", "max1", "min1"} -> IF TLen(t.a, sz) = ErrLen THEN ErrLen ELSE 1
      [] t.op \in {"max", "min"} -> Common([i \in DOMAIN t.args |-> TLen(t.args[i], sz)])

\* curvature: 0 affine, 1 convex, -1 concave, 9 not allowed
Flip(c) == IF c = 9 THEN 9 ELSE -c
Plus(c1, c2) == IF c1 = 9 \/ c2 = 9 THEN 9 ELSE IF c1 = 0 THEN c2 ELSE IF c2 = 0 THEN c1 ELSE IF c1 = c2 THEN c1 ELSE 9
RECURSIVE Curv(_, _)
Curv(t, sz) ==
    CASE t.op \in {"var", "const"} -> 0
      [] t.op = "neg"  -> Flip(Curv(t.a, sz))
      [] t.op \in {"add", "iadd"}  -> Plus(Curv(t.a, sz), Curv(t.b, sz))
      [] t.op \in {"sub", "isub"}  -> Plus(Curv(t.a, sz), Flip(Curv(t.b, sz)))
      [] t.op \in {"smul", "imul", "div", "idiv"} -> LET c == Curv(t.a, sz) IN IF c = 0 \/ c = 9 THEN c ELSE IF t.k > 0 THEN c ELSE IF t.k < 0 THEN -c ELSE 9
      [] t.op = "mmul" -> LET c == Curv(t.a, sz) IN
                          IF c = 0 THEN 0
                          ELSE IF c # 9 /\ Len(t.M) = 1 /\ Len(t.M[1]) = 1       \* PWL functions: only 1 by 1 matrices (= scalars)
                               THEN (IF t.M[1][1] > 0 THEN c ELSE IF t.M[1][1] < 0 THEN -c ELSE 9) ELSE 9
      [] t.op \in {"idx", "sum"} -> Curv(t.a, sz)
      [] t.op = "abs"  -> IF Curv(t.a, sz) = 0 THEN 1 ELSE 9
      [] t.op = "max"  -> IF \A i \in DOMAIN t.args : Curv(t.args[i], sz) \in {0, 1} THEN 1 ELSE 9
      [] t.op = "min"  -> IF \A i \in DOMAIN t.args : Curv(t.args[i], sz) \in {0, -1} THEN -1 ELSE 9
      \* max(u) / min(u) over the components; for len(u) = 1 it is u itself ("max(s) with len(s) = 1 returns s[0]")
      [] t.op = "max1" -> IF TLen(t.a, sz) = 1 THEN Curv(t.a, sz) ELSE IF Curv(t.a, sz) \in {0, 1} THEN 1 ELSE 9
      [] t.op = "min1" -> IF TLen(t.a, sz) = 1 THEN Curv(t.a, sz) ELSE IF Curv(t.a, sz) \in {0, -1} THEN -1 ELSE 9

Bcast(v, L) == IF Len(v) = L THEN v ELSE [i \in 1..L |-> v[1]]
Abs(k) == IF k < 0 THEN -k ELSE k
RECURSIVE Den(_)
Den(t) == CASE t.op \in {"var", "const"} -> 1
            [] t.op \in {"div", "idiv"} -> Abs(t.k) * Den(t.a)
            [] t.op \in {"add", "sub", "iadd", "isub"} -> Den(t.a) * Den(t.b)
            [] t.op \in {"max", "min"} -> LET RECURSIVE P(_)
                                              P(i) == IF i > Len(t.args) THEN 1 ELSE Den(t.args[i]) * P(i + 1)
                                          IN  P(1)
            [] OTHER -> Den(t.a)
\* s times the value of t, for s > 0 a multiple of Den(t)
RECURSIVE EvalS(_, _, _)
EvalS(t, e, s) ==
    CASE t.op = "var"   -> [i \in DOMAIN e[t.v] |-> s * e[t.v][i]]
      [] t.op = "const" -> [i \in DOMAIN t.c |-> s * t.c[i]]
      [] t.op = "neg"   -> LET a == EvalS(t.a, e, s) IN [i \in DOMAIN a |-> -a[i]]
      [] t.op \in {"add", "sub", "iadd", "isub"} ->
            LET a == EvalS(t.a, e, s)  b == EvalS(t.b, e, s)
                L == IF Len(a) >= Len(b) THEN Len(a) ELSE Len(b)
                x == Bcast(a, L)  y == Bcast(b, L)
            IN  [i \in 1..L |-> IF t.op \in {"add", "iadd"} THEN x[i] + y[i] ELSE x[i] - y[i]]
      [] t.op \in {"smul", "imul"} -> LET a == EvalS(t.a, e, s) IN [i \in DOMAIN a |-> t.k * a[i]]
      [] t.op \in {"div", "idiv"}  -> LET a == EvalS(t.a, e, s \div Abs(t.k)) IN [i \in DOMAIN a |-> IF t.k < 0 THEN -a[i] ELSE a[i]]
      [] t.op = "mmul"  -> LET a == EvalS(t.a, e, s) IN
                           IF Len(t.M[1]) = Len(a) THEN [r \in 1..Len(t.M) |-> SumSeq([j \in 1..Len(a) |-> t.M[r][j] * a[j]])]
                           ELSE [i \in DOMAIN a |-> t.M[1][1] * a[i]]
      [] t.op = "idx"   -> LET a == EvalS(t.a, e, s)  p == Positions(t.ix, Len(a)) IN [i \in DOMAIN p |-> a[p[i] + 1]]
      [] t.op = "sum"   -> <<SumSeq(EvalS(t.a, e, s))>>
      [] t.op = "abs"   -> LET a == EvalS(t.a, e, s) IN [i \in DOMAIN a |-> IF a[i] < 0 THEN -a[i] ELSE a[i]]
      [] t.op \in {"max", "min"} ->
            LET vs == [i \in DOMAIN t.args |-> EvalS(t.args[i], e, s)]
                L == MaxOf({Len(vs[i]) : i \in DOMAIN vs})
                bs == [i \in DOMAIN vs |-> Bcast(vs[i], L)]
            IN  [k \in 1..L |-> IF t.op = "max" THEN MaxOf({bs[i][k] : i \in DOMAIN bs}) ELSE MinOf({bs[i][k] : i \in DOMAIN bs})]
      [] t.op = "max1"  -> LET a == EvalS(t.a, e, s) IN <<MaxOf({a[i] : i \in DOMAIN a})>>
      [] t.op = "min1"  -> LET a == EvalS(t.a, e, s) IN <<MinOf({a[i] : i \in DOMAIN a})>>
\* Den(t) times the value of t (the value itself for terms without division)
Eval(t, e) == EvalS(t, e, Den(t))

\* is the expression defined at all?  (dimensions match and the combination is convex or concave)
RECURSIVE SubOK(_, _)
SubOK(t, sz) ==
    /\ TLen(t, sz) # ErrLen /\ Curv(t, sz) # 9
    /\ CASE t.op \in {"var", "const"} -> TRUE
         [] t.op \in {"neg", "smul", "abs", "mmul", "idx", "sum", "max1", "min1", "imul"} -> SubOK(t.a, sz)
         [] t.op \in {"div", "idiv"} -> t.k # 0 /\ SubOK(t.a, sz)
         [] t.op \in {"add", "sub", "iadd", "isub"} -> SubOK(t.a, sz) /\ SubOK(t.b, sz)
         [] t.op \in {"max", "min"} -> \A i \in DOMAIN t.args : SubOK(t.args[i], sz)
Defined(t, sz) == SubOK(t, sz)

\* midpoint convexity on a pair of assignments (the design-level meaning of "accepted as convex really is"):
\* for e1, e2 with even sums, f((e1+e2)/2) <= (f(e1)+f(e2))/2 componentwise
Mid(e1, e2) == [v \in DOMAIN e1 |-> [i \in DOMAIN e1[v] |-> (e1[v][i] + e2[v][i]) \div 2]]
EvenPair(e1, e2) == \A v \in DOMAIN e1 : \A i \in DOMAIN e1[v] : (e1[v][i] + e2[v][i]) % 2 = 0
ConvexOn(t, e1, e2) == LET m == Eval(t, Mid(e1, e2))  a == Eval(t, e1)  b == Eval(t, e2)
                       IN  \A i \in DOMAIN m : 2 * m[i] <= a[i] + b[i]
ConcaveOn(t, e1, e2) == LET m == Eval(t, Mid(e1, e2))  a == Eval(t, e1)  b == Eval(t, e2)
                        IN  \A i \in DOMAIN m : 2 * m[i] >= a[i] + b[i]
=============================================================================
