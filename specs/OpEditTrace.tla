---------------------------- MODULE OpEditTrace ----------------------------
(***************************************************************************)
(* Trace validation for OpEdit: a batch of traces recorded from the real   *)
(* cvxopt.modeling.op is replayed against the actions of OpEdit.  Each     *)
(* event carries the action, its argument and the projected state the     *)
(* implementation showed afterwards through its public queries.           *)
(***************************************************************************)
EXTENDS OpEdit, Json, IOUtils, TLCExt

VARIABLES tid, l
Traces == JsonDeserialize(IOEnv.TRACE_FILE)
Tr == Traces[tid]
E  == Tr[l]

Clause(name, e) == IF e THEN TRUE ELSE PrintT(<<"FAILED", tid, l, name>>) /\ FALSE
IsEv(n) == l <= Len(Tr) /\ E.ev = n
SetOf(s) == {s[i] : i \in DOMAIN s}

\* the state the implementation exposes after the step must be the specified one
Post == /\ Clause("noexc", ~E.exc)
        /\ Clause("variables", SetOf(E.vars) = VarsNow')
        /\ Clause("inequalities", E.ineqs = ineqs')
        /\ Clause("equalities", E.eqs = eqs')
        /\ Clause("constraints", E.cons = ineqs' \o eqs')
        /\ Clause("mirror", Mirror')

TAdd    == IsEv("Add") /\ AddConstraint(E.c) /\ Post
TDel    == IsEv("Del") /\ DelConstraint(E.c) /\ Post
TSetObj == IsEv("SetObj") /\ SetObjective(E.o) /\ Post
TQuery  == IsEv("Query") /\ Query /\ Post /\ Clause("copies", E.copies)
TSolve  == /\ IsEv("Solve") /\ Solve /\ Post
           /\ Clause("same-as-fresh", WellPosed(Expected.cls) => E.out = E.fresh /\ (E.out = "optimal" => E.val = E.freshval))
           /\ Clause("status", E.out = "raise" \/ E.out \in Expected.allowed)
           /\ Clause("value", E.out = "optimal" /\ Expected.cls = "solvable" => E.val = Expected.opt)

TDone == /\ l = Len(Tr) + 1 /\ PrintT(<<"ACCEPT", tid>>) /\ UNCHANGED vars

TInit == Init /\ tid \in 1..Len(Traces) /\ l = 1
TNext == /\ (TAdd \/ TDel \/ TSetObj \/ TQuery \/ TSolve \/ TDone)
         /\ l' = l + 1 /\ UNCHANGED tid
TSpec == TInit /\ [][TNext]_<<vars, tid, l>>
=============================================================================
