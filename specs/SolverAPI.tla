------------------------------ MODULE SolverAPI ------------------------------
(***************************************************************************)
(* Option handling of the solver entry points (conelp, coneqp, lp, qp,     *)
(* socp, sdp, cpl, cp, gp, op.solve): a per-call options= dictionary takes  *)
(* precedence over the global solvers.options, values are validated with    *)
(* ValueError before anything is solved, and a call changes neither the     *)
(* global dictionary nor anything else.                                     *)
(*                                                                          *)
(* Option values are abstract tokens; the harness maps them to concrete     *)
(* Python values (Tok2Py in harness/checks/c09.py).  The validation table   *)
(* is transcribed from the documentation (coneprog.rst "Algorithm           *)
(* Parameters", solvers.rst) :                                              *)
(*   maxiters    positive integer                                           *)
(*   abstol      scalar        reltol   scalar   (not both <= 0)            *)
(*   feastol     positive scalar                                            *)
(*   refinement  nonnegative integer                                        *)
(***************************************************************************)
EXTENDS Integers, Sequences, FiniteSets, TLC

Keys == {"maxiters", "abstol", "reltol", "feastol", "refinement"}
Absent == "absent"
\* tokens: v* valid, i* invalid
Tokens(k) == CASE k = "maxiters"   -> {"v2", "v50", "i0", "ifloat", "istr", "ineg"}
               [] k = "abstol"     -> {"v1e-3", "vneg", "istr"}
               [] k = "reltol"     -> {"v1e-3", "vneg", "istr"}
               [] k = "feastol"    -> {"v1e-3", "i0", "ineg", "istr"}
               [] k = "refinement" -> {"v0", "v2", "ineg", "ifloat"}
ValidTok(k, t) == t = Absent \/ (t \in Tokens(k) /\ SubSeq(t, 1, 1) = "v")

Entries == {"conelp", "lp", "socp", "sdp", "coneqp", "qp", "cpl", "cp", "gp", "op"}

NoOpts == [k \in Keys |-> Absent]
WellFormed(m) == \A k \in Keys : m[k] = Absent \/ m[k] \in Tokens(k)

CONSTANTS MaxSet      \* at most this many keys set in the global dictionary / in a per-call dictionary
Size(m) == Cardinality({k \in Keys : m[k] # Absent})

VARIABLES global,      \* the dictionary solvers.options (projected on Keys)
          last         \* expected outcome of the last call: [exc, inforce]
vars == <<global, last>>

\* the options a call must act on: its own dictionary if it passes one, the global one otherwise
Effective(peropts, usePer) == IF usePer THEN peropts ELSE global

Invalid(eff) == \/ \E k \in Keys : ~ValidTok(k, eff[k])
                \/ (eff["abstol"] = "vneg" /\ eff["reltol"] = "vneg")      \* not both tolerances <= 0

Expected(peropts, usePer) ==
    LET eff == Effective(peropts, usePer) IN
    IF Invalid(eff) THEN [exc |-> "ValueError", inforce |-> NoOpts]
    ELSE [exc |-> "none", inforce |-> eff]         \* Absent = the documented default is in force

NoCall == [exc |-> "nocall", inforce |-> NoOpts]
Init == global = NoOpts /\ last = NoCall

\* the user edits the global dictionary
SetGlobal(k, t) == /\ t \in Tokens(k) \cup {Absent}
                   /\ global' = [global EXCEPT ![k] = t]
                   /\ Size(global') <= MaxSet
                   /\ last' = NoCall

\* a solver call: the global dictionary is not modified (C09: no global state is modified)
Call(e, peropts, usePer) ==
    /\ WellFormed(peropts)
    /\ (usePer \/ peropts = NoOpts)
    /\ last' = Expected(peropts, usePer)
    /\ UNCHANGED global

Single(k, t) == [NoOpts EXCEPT ![k] = t]
KT == UNION {{<<k, t>> : t \in Tokens(k)} : k \in Keys}
Dicts1 == {NoOpts} \cup {Single(kt[1], kt[2]) : kt \in KT}
Dicts2 == Dicts1 \cup {[Single(a[1], a[2]) EXCEPT ![b[1]] = b[2]] : <<a, b>> \in {ab \in KT \X KT : ab[1][1] # ab[2][1]}}
PerCallDicts == IF MaxSet <= 1 THEN Dicts1 ELSE Dicts2

Next == \/ \E k \in Keys, t \in UNION {Tokens(kk) : kk \in Keys} \cup {Absent} : SetGlobal(k, t)
        \/ \E e \in Entries, m \in PerCallDicts, u \in BOOLEAN : Call(e, m, u)
Spec == Init /\ [][Next]_vars

TypeOK == WellFormed(global)
\* per-call options take precedence: with a per-call dictionary the outcome does not depend on the global one
Precedence == [][\A e \in Entries, m \in PerCallDicts : Call(e, m, TRUE) => last' = Expected(m, TRUE)]_vars
\* a call never changes the global dictionary
CallsArePure == [][(\E e \in Entries, m \in PerCallDicts, u \in BOOLEAN : Call(e, m, u)) => global' = global]_vars
\* an invalid effective value is always rejected, a valid dictionary never
ValidationTotal == last.exc \in {"nocall", "none", "ValueError"}
=============================================================================
