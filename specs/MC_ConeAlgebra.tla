---------------------------- MODULE MC_ConeAlgebra ----------------------------
(* Evaluates the kernels of ConeAlgebra on the cases of IOEnv.CASE_FILE and writes the expected results. *)
EXTENDS ConeAlgebra

Cases == JsonDeserialize(IOEnv.CASE_FILE)
\* a JSON rational [n, d] arrives as the sequence <<n, d>>; vectors are sequences of those

\* sgemv: y := alpha*G*x + beta*y ('N', all rows) ; y := alpha*G'x + beta*y ('T', symmetric inner product on 's' blocks)
SGemv(G, x, y, d, alpha, beta, transT) ==
    IF ~transT
    THEN [r \in 1..CDim(d, 0) |-> RAdd(RMul(alpha, RSum([j \in 1..Len(G) |-> RMul(G[j][r], x[j])])), RMul(beta, y[r]))]
    ELSE [j \in 1..Len(G) |-> RAdd(RMul(alpha, SDot(G[j], x, d, 0)), RMul(beta, y[j]))]

\* x + t*e on the boundary of the cone and inside it: the characterisation of max_step
IdentityAt(d, mnl, p) == LET w == Where(d, mnl, p) IN
                         IF w[1] = "l" THEN One ELSE IF w[1] = "q" THEN (IF w[3] = 0 THEN One ELSE Zero)
                         ELSE (IF w[3] = w[4] THEN One ELSE Zero)
Shift(x, d, mnl, t) == [p \in 1..CDim(d, mnl) |-> RAdd(x[p], RMul(t, IdentityAt(d, mnl, p)))]
Det2(a, b, c) == RSub(RMul(a, c), RMul(b, b))                  \* [[a, b], [b, c]]
\* margin of one block: >= 0 iff in the cone, = 0 iff on the boundary (for the blocks generated: order <= 2 's' blocks)
InCone(v, d, mnl) ==
    /\ \A p \in 1..(mnl + d.l) : RLe(Zero, v[p])
    /\ \A k \in 1..Len(d.q) : LET o == QOff(d, mnl, k)  vs == SubSeq(v, o + 1, o + d.q[k])
                              IN  RLe(Zero, vs[1]) /\ RLe(Zero, JNrm2Sq(vs))
    /\ \A k \in 1..Len(d.s) : d.s[k] <= 2 /\
           (d.s[k] = 0 \/ (d.s[k] = 1 /\ RLe(Zero, SAt(v, d, mnl, k, 0, 0)))
            \/ (d.s[k] = 2 /\ RLe(Zero, SAt(v, d, mnl, k, 0, 0)) /\ RLe(Zero, SAt(v, d, mnl, k, 1, 1))
                /\ RLe(Zero, Det2(SAt(v, d, mnl, k, 0, 0), SAt(v, d, mnl, k, 1, 0), SAt(v, d, mnl, k, 1, 1)))))
OnBoundary(v, d, mnl) ==
    \/ \E p \in 1..(mnl + d.l) : v[p] = Zero
    \/ \E k \in 1..Len(d.q) : LET o == QOff(d, mnl, k)  vs == SubSeq(v, o + 1, o + d.q[k]) IN JNrm2Sq(vs) = Zero
    \/ \E k \in 1..Len(d.s) : (d.s[k] = 1 /\ SAt(v, d, mnl, k, 0, 0) = Zero)
           \/ (d.s[k] = 2 /\ Det2(SAt(v, d, mnl, k, 0, 0), SAt(v, d, mnl, k, 1, 0), SAt(v, d, mnl, k, 1, 1)) = Zero)
IsMaxStep(x, d, mnl, t) == LET v == Shift(x, d, mnl, t) IN InCone(v, d, mnl) /\ OnBoundary(v, d, mnl)

Expected(c) ==
    CASE c.k = "scale"  -> [out |-> Scale(c.x, c.W, c.d, c.mnl, c.trans, c.inv),
                            ok |-> InvolutionOK(c.x, c.W, c.d, c.mnl, c.trans) /\ AdjointOK(c.x, c.y, c.W, c.d, c.mnl)]
      [] c.k = "scale2" -> [out |-> Scale2(c.lmbda, c.x, c.d, c.mnl, c.inv),
                            ok |-> \A p \in 1..CDim(c.d, c.mnl) :
                                       Scale2(c.lmbda, Scale2(c.lmbda, c.x, c.d, c.mnl, FALSE), c.d, c.mnl, TRUE)[p] = c.x[p]]
      [] c.k = "sdot"   -> [out |-> <<SDot(c.x, c.y, c.d, c.mnl)>>, ok |-> SDot(c.x, c.y, c.d, c.mnl) = SDot(c.y, c.x, c.d, c.mnl)]
      [] c.k = "snrm2"  -> [out |-> <<SNrm2Sq(c.x, c.d, c.mnl)>>, ok |-> RLe(Zero, SNrm2Sq(c.x, c.d, c.mnl))]
      [] c.k = "jdot"   -> [out |-> <<JDot(c.x, c.y)>>, ok |-> JDot(c.x, c.y) = JDot(c.y, c.x)]
      [] c.k = "jnrm2"  -> [out |-> <<JNrm2Sq(c.x)>>, ok |-> TRUE]
      [] c.k = "trisc"  -> [out |-> Trisc(c.x, c.d, c.mnl), ok |-> TRUE]
      [] c.k = "triusc" -> [out |-> Triusc(c.x, c.d, c.mnl), ok |-> \A p \in 1..CDim(c.d, c.mnl) :
                                       IsRef(c.d, c.mnl, p) => Triusc(Trisc(c.x, c.d, c.mnl), c.d, c.mnl)[p] = c.x[p]]
      [] c.k = "symm"   -> [out |-> Symm(c.x, c.m), ok |-> Symm(Symm(c.x, c.m), c.m) = Symm(c.x, c.m)]
      [] c.k = "sprod"  -> [out |-> SProd(c.x, c.y, c.d, c.mnl, c.diag), ok |-> TRUE]
      [] c.k = "ssqr"   -> [out |-> SSqr(c.y, c.d, c.mnl), ok |-> TRUE]
      [] c.k = "sinv"   -> [out |-> SInv(c.x, c.y, c.d, c.mnl), ok |-> SinvOK(c.x, c.y, c.d, c.mnl)]
      [] c.k = "pack"   -> [out |-> Pack(c.x, c.d, c.mnl), ok |-> Len(Pack(c.x, c.d, c.mnl)) = PackedLen(c.d, c.mnl)]
      [] c.k = "sgemv"  -> [out |-> SGemv(c.G, c.x, c.y, c.d, c.alpha, c.beta, c.trans), ok |-> TRUE]
      [] c.k = "maxstep" -> [out |-> <<c.t>>, ok |-> IsMaxStep(c.x, c.d, c.mnl, c.t)]

Results == [i \in 1..Len(Cases) |-> Expected(Cases[i])]
ASSUME JsonSerialize(IOEnv.OUT_FILE, [res |-> Results])

VARIABLE dummy
Init == dummy = 0
Next == UNCHANGED dummy
Spec == Init /\ [][Next]_dummy
=============================================================================
