------------------------------ MODULE SameResult ------------------------------
(***************************************************************************)
(* C06 as a state machine: calls are tagged with the abstract problem they  *)
(* present; the first completed call of a problem fixes its outcome class   *)
(* in `memo`; every later call that presents the same problem must end in   *)
(* the same class - same status and, when 'optimal', the same optimal value *)
(* (the comparison of the two floats with the solver tolerance is supplied  *)
(* by the abstraction function as the boolean `agree`).                     *)
(* A batch of traces (one per problem) is validated per TLC run.            *)
(***************************************************************************)
EXTENDS Integers, Sequences, TLC, Json, IOUtils

VARIABLES tid, l, memo, ok
Traces == JsonDeserialize(IOEnv.TRACE_FILE)
Tr == Traces[tid]
E == Tr[l]
NoMemo == [status |-> "none"]

Init == tid \in 1..Len(Traces) /\ l = 1 /\ memo = NoMemo /\ ok = TRUE
\* presentation E.pres of the problem completed with E.status
Done == /\ l <= Len(Tr)
        /\ IF memo = NoMemo THEN memo' = [status |-> E.status] /\ UNCHANGED ok
           ELSE /\ UNCHANGED memo
                /\ ok' = (ok /\ E.status = memo.status /\ (E.status = "optimal" => E.agree))
        /\ l' = l + 1 /\ UNCHANGED tid
Finish == /\ l = Len(Tr) + 1 /\ PrintT(<<"ACCEPT", tid, ok>>) /\ l' = l + 1 /\ UNCHANGED <<tid, memo, ok>>
Next == Done \/ Finish
Spec == Init /\ [][Next]_<<tid, l, memo, ok>>
\* C06: the answer does not depend on the presentation
SameResultInv == ok
=============================================================================
