--------------------------------- MODULE MPS ---------------------------------
(***************************************************************************)
(* The fixed-format MPS writer and reader of cvxopt.modeling.op (C14).      *)
(*                                                                          *)
(* A file is a sequence of RECORDS (the rendering of records to the fixed   *)
(* columns 2-3, 5-12, 15-22, 25-36, 40-47, 50-61 and back is done by a      *)
(* tokenizer in the harness that follows the MPS standard, not the code):   *)
(*    [k |-> "sec",  s |-> "NAME" | "ROWS" | ... , n1 |-> text]              *)
(*    [k |-> "data", f1 |-> text (type), n1, n2 |-> text, v1 |-> Int,        *)
(*                   two |-> BOOLEAN, n3 |-> text, v2 |-> Int]               *)
(* text = sequence of character codes (labels are compared, cut and         *)
(* concatenated, never interpreted); numbers are integers.                  *)
(*                                                                          *)
(* Write(P, vord)  the records op.tofile must produce for the linear        *)
(*                 program P (a problem of ModelLP.tla whose objective and   *)
(*                 constraints are affine; P.vnames, P.cnames, P.name give   *)
(*                 the names, vord the order of op.variables()).             *)
(* Read(recs)      the problem the format defines for a record sequence:    *)
(*                 objective, inequalities  a'x + k <= 0, equalities         *)
(*                 a'x + k = 0, or Err.                                      *)
(* RoundTrip(P)    Canon(Read(Write(P))) = Canon(LP(P)): same columns, same  *)
(*                 rows (as a bag of coefficient maps and constants, to six  *)
(*                 significant digits), all variables free, objective up to  *)
(*                 its constant - checked by TLC for every generated P.      *)
(***************************************************************************)
EXTENDS ModelLP

(******************************* text ************************************)
T(s) == s                                   \* (texts are given as code sequences by the harness)
Digits(n) == IF n < 10 THEN <<48 + n>> ELSE IF n < 100 THEN <<48 + (n \div 10), 48 + (n % 10)>>
             ELSE <<48 + (n \div 100), 48 + ((n \div 10) % 10), 48 + (n % 10)>>
Take(s, n) == IF n <= 0 THEN <<>> ELSE SubSeq(s, 1, IF n < Len(s) THEN n ELSE Len(s))
\* the label of component i of an object with the given base name:  base[:7 - len(str(i))] + '_' + str(i)   (at most 8 characters)
Label(base, i) == Take(base, 7 - Len(Digits(i))) \o <<95>> \o Digits(i)
Base(name, k) == IF name = <<>> THEN Digits(k) ELSE name        \* unnamed objects are labelled by their position
COST == <<99, 111, 115, 116>>                                   \* "cost"

(******************************* numbers *********************************)
\* the C format 7.5E with a leading blank: six significant digits, round to nearest, ties to even (the integers are exact doubles)
RECURSIVE Pow10Above(_, _)
Pow10Above(a, p) == IF a < 1000000 * p THEN p ELSE Pow10Above(a, 10 * p)
Round6(v) == LET a == IF v < 0 THEN -v ELSE v
                 p == Pow10Above(a, 1)
                 q == a \div p
                 r == a % p
                 m == (IF 2 * r > p \/ (2 * r = p /\ q % 2 = 1) THEN q + 1 ELSE q) * p
             IN  IF v < 0 THEN -m ELSE m

(******************************* writer **********************************)
IsLP(P) == /\ Curv(P.obj, P.sz) = 0
           /\ \A i \in DOMAIN P.cons : Curv(CFun(P.cons[i]), P.sz) = 0
\* constraints in the order of op.constraints(): inequalities, then equalities (each in the order they were given)
ConsOrder(P) == SetToSortSeq(Ineqs(P), <) \o SetToSortSeq(Eqs(P), <)
Sec(s) == [k |-> "sec", s |-> s, n1 |-> <<>>]
Dat(f1, n1, n2, v1) == [k |-> "data", f1 |-> f1, n1 |-> n1, n2 |-> n2, v1 |-> v1, two |-> FALSE, n3 |-> <<>>, v2 |-> 0]
Write(P, vord) ==
    LET X == Ctx(P)
        co == ConsOrder(P)
        CLab(k, i) == Label(Base(P.cnames[co[k]], k - 1), i - 1)                  \* k-th constraint, component i (1-based here, 0-based in the label)
        VLab(q, i) == Label(Base(P.vnames[vord[q]], q - 1), i - 1)                \* q-th variable of op.variables()
        VKey(q, i) == <<0, VarIdx(vord[q], P.vo), i>>
        rows == Concat([k \in DOMAIN co |-> [i \in 1..Len(X.rc[co[k]].rows) |->
                    Dat(IF P.cons[co[k]].rel = "==" THEN "E" ELSE "L", CLab(k, i), <<>>, 0)]])
        dead(q, i) == CoefOf(X.ro.rows[1], VKey(q, i)) = 0 /\ \A k \in DOMAIN co : \A l \in 1..Len(X.rc[co[k]].rows) : CoefOf(X.rc[co[k]].rows[l], VKey(q, i)) = 0
        \* every column must occur in COLUMNS (BOUNDS refers to it): a column without nonzero coefficients is written with a zero cost entry
        colsOf(q, i) ==
            (IF dead(q, i) THEN <<Dat("", VLab(q, i), COST, 0)>> ELSE <<>>) \o
            (IF CoefOf(X.ro.rows[1], VKey(q, i)) # 0 THEN <<Dat("", VLab(q, i), COST, Round6(CoefOf(X.ro.rows[1], VKey(q, i))))>> ELSE <<>>) \o
            Concat([k \in DOMAIN co |-> Concat([l \in 1..Len(X.rc[co[k]].rows) |->
                    LET cf == CoefOf(X.rc[co[k]].rows[l], VKey(q, i)) IN
                    IF cf # 0 THEN <<Dat("", VLab(q, i), CLab(k, l), Round6(cf))>> ELSE <<>>])])
        cols == Concat([q \in DOMAIN vord |-> Concat([i \in 1..P.sz[vord[q]] |-> colsOf(q, i)])])
        rhs == Concat([k \in DOMAIN co |-> [l \in 1..Len(X.rc[co[k]].rows) |-> Dat("", <<>>, CLab(k, l), Round6(-X.rc[co[k]].rows[l].k))]])
        bnds == Concat([q \in DOMAIN vord |-> [i \in 1..P.sz[vord[q]] |-> Dat("FR", <<>>, VLab(q, i), 0)]])
    IN  <<[k |-> "sec", s |-> "NAME", n1 |-> Take(P.name, 8)], Sec("ROWS"), Dat("N", COST, <<>>, 0)>> \o rows \o
        <<Sec("COLUMNS")>> \o cols \o <<Sec("RHS")>> \o rhs \o <<Sec("RANGES"), Sec("BOUNDS")>> \o bnds \o <<Sec("ENDATA")>>

(******************************* reader **********************************)
\* The section machine.  State:
\*   sec      current section
\*   obj      label of the objective row (first N row) or <<-1>>
\*   rows     sequence of [label, type] of the L / G / E rows, free  set of labels of the other N rows
\*   ents     sequence of [col, row, val]  (COLUMNS entries, in file order: a later entry for the same pair replaces the earlier one)
\*   cols     sequence of column labels in order of first appearance
\*   rhs      sequence of [row, val];  rhsl  label of the RHS vector read (first one met) or <<-1>>
\*   rng / rngl, bnd / bndl   likewise for RANGES ([row, val]) and BOUNDS ([type, col, val])
\*   err      TRUE once the file is found to be outside the supported subset / inconsistent
NoLab == <<-1>>
RInit == [sec |-> "", name |-> <<>>, obj |-> NoLab, rows |-> <<>>, free |-> {}, ents |-> <<>>, cols |-> <<>>,
          rhs |-> <<>>, rhsl |-> NoLab, rng |-> <<>>, rngl |-> NoLab, bnd |-> <<>>, bndl |-> NoLab, err |-> FALSE, done |-> FALSE]
RowLabels(st) == {st.rows[i].label : i \in DOMAIN st.rows}
KnownRow(st, l) == l = st.obj \/ l \in RowLabels(st) \/ l \in st.free
InSeq(x, s) == \E i \in DOMAIN s : s[i] = x
Order == <<"", "NAME", "ROWS", "COLUMNS", "RHS", "RANGES", "BOUNDS", "ENDATA">>
Pos(s) == CHOOSE i \in DOMAIN Order : Order[i] = s

Step(st, r) ==
    IF st.err \/ st.done THEN st
    ELSE IF r.k = "sec" THEN
        \* sections come in the standard order; RANGES and BOUNDS are optional
        IF ~InSeq(r.s, Order) \/ Pos(r.s) <= Pos(st.sec) THEN [st EXCEPT !.err = TRUE]
        ELSE IF Pos(r.s) > Pos(st.sec) + 1 /\ ~(st.sec \in {"RHS", "RANGES"} /\ r.s \in {"BOUNDS", "ENDATA"}) THEN [st EXCEPT !.err = TRUE]
        ELSE [st EXCEPT !.sec = r.s, !.name = IF r.s = "NAME" THEN r.n1 ELSE st.name, !.done = (r.s = "ENDATA")]
    ELSE CASE st.sec = "ROWS" ->
                 IF r.f1 = "N" THEN (IF st.obj = NoLab THEN [st EXCEPT !.obj = r.n1] ELSE [st EXCEPT !.free = st.free \cup {r.n1}])
                 ELSE IF r.f1 \in {"L", "G", "E"} THEN [st EXCEPT !.rows = Append(st.rows, [label |-> r.n1, type |-> r.f1])]
                 ELSE [st EXCEPT !.err = TRUE]
           [] st.sec = "COLUMNS" ->
                 LET e1 == [col |-> r.n1, row |-> r.n2, val |-> r.v1]
                     e2 == [col |-> r.n1, row |-> r.n3, val |-> r.v2]
                     new == IF r.two THEN <<e1, e2>> ELSE <<e1>>
                 IN  IF \E i \in DOMAIN new : ~KnownRow(st, new[i].row) THEN [st EXCEPT !.err = TRUE]
                     ELSE [st EXCEPT !.ents = st.ents \o new, !.cols = IF InSeq(r.n1, st.cols) THEN st.cols ELSE Append(st.cols, r.n1)]
           [] st.sec = "RHS" ->
                 IF st.rhsl # NoLab /\ st.rhsl # r.n1 THEN st                        \* another right-hand side vector: ignored
                 ELSE LET new == IF r.two THEN <<[row |-> r.n2, val |-> r.v1], [row |-> r.n3, val |-> r.v2]>> ELSE <<[row |-> r.n2, val |-> r.v1]>>
                      IN  IF \E i \in DOMAIN new : ~KnownRow(st, new[i].row) THEN [st EXCEPT !.err = TRUE]
                          ELSE [st EXCEPT !.rhs = st.rhs \o new, !.rhsl = r.n1]
           [] st.sec = "RANGES" ->
                 IF st.rngl # NoLab /\ st.rngl # r.n1 THEN st
                 ELSE LET new == IF r.two THEN <<[row |-> r.n2, val |-> r.v1], [row |-> r.n3, val |-> r.v2]>> ELSE <<[row |-> r.n2, val |-> r.v1]>>
                      IN  IF \E i \in DOMAIN new : new[i].row \notin RowLabels(st) THEN [st EXCEPT !.err = TRUE]     \* ranges apply to constraint rows only
                          ELSE [st EXCEPT !.rng = st.rng \o new, !.rngl = r.n1]
           [] st.sec = "BOUNDS" ->
                 IF st.bndl # NoLab /\ st.bndl # r.n1 THEN st
                 ELSE IF ~InSeq(r.n2, st.cols) \/ r.f1 \notin {"LO", "UP", "FX", "FR", "MI", "PL"} THEN [st EXCEPT !.err = TRUE]
                 ELSE [st EXCEPT !.bnd = Append(st.bnd, [type |-> r.f1, col |-> r.n2, val |-> r.v1]), !.bndl = r.n1]
           [] OTHER -> [st EXCEPT !.err = TRUE]          \* data before ROWS
RECURSIVE Fold(_, _, _)
Fold(st, recs, i) == IF i > Len(recs) THEN st ELSE Fold(Step(st, recs[i]), recs, i + 1)

NoV == 2000000001
\* the affine function of a row: coefficient per mentioned column (the last entry for a pair counts), constant = -rhs
RowCols(st, l) == {c \in {st.cols[i] : i \in DOMAIN st.cols} : \E i \in DOMAIN st.ents : st.ents[i].row = l /\ st.ents[i].col = c}
RowCoef(st, l, c) == LET S == {i \in DOMAIN st.ents : st.ents[i].row = l /\ st.ents[i].col = c} IN IF S = {} THEN 0 ELSE st.ents[MaxOf(S)].val
RowConst(st, l) == LET S == {i \in DOMAIN st.rhs : st.rhs[i].row = l} IN IF S = {} THEN 0 ELSE -st.rhs[MaxOf(S)].val
RowRange(st, l) == LET S == {i \in DOMAIN st.rng : st.rng[i].row = l} IN IF S = {} THEN NoV ELSE st.rng[MaxOf(S)].val
Abs1(v) == IF v < 0 THEN -v ELSE v
\* a constraint: [t |-> "<" | "=", cols (mentioned columns), co |-> set of <<col, coefficient>> with nonzero coefficient, k |-> constant]   co'x + k (<= | =) 0
\* (cf: the coefficients as a function on cols; s = 1 or -1)
Con(t, cols, cf, k, s) == [t |-> t, cols |-> cols, co |-> {<<c, s * cf[c]>> : c \in {c \in cols : cf[c] # 0}}, k |-> s * k]
RowCons(st, i) ==
    LET l == st.rows[i].label  ty == st.rows[i].type  R == RowRange(st, l)
        E == {q \in DOMAIN st.ents : st.ents[q].row = l}                         \* the entries of this row (computed once)
        cols == {st.ents[q].col : q \in E}
        k == RowConst(st, l)
        cf == [c \in cols |-> st.ents[MaxOf({q \in E : st.ents[q].col = c})].val]   \* the last entry for a pair counts
    IN  CASE ty = "L" -> <<Con("<", cols, cf, k, 1)>> \o (IF R # NoV THEN <<Con("<", cols, cf, k + Abs1(R), -1)>> ELSE <<>>)        \* rhs - |R| <= a'x <= rhs
          [] ty = "G" -> <<Con("<", cols, cf, k, -1)>> \o (IF R # NoV THEN <<Con("<", cols, cf, k - Abs1(R), 1)>> ELSE <<>>)       \* rhs <= a'x <= rhs + |R|
          [] ty = "E" -> IF R = NoV \/ R = 0 THEN <<Con("=", cols, cf, k, 1)>>
                         ELSE IF R > 0 THEN <<Con("<", cols, cf, k, -1), Con("<", cols, cf, k - R, 1)>>                            \* rhs <= a'x <= rhs + R
                         ELSE <<Con("<", cols, cf, k, 1), Con("<", cols, cf, k - R, -1)>>                                          \* rhs + R <= a'x <= rhs
\* bounds: default [0, +inf); a second bound of the same kind for a column is an error
BoundOf(st, c) ==
    LET S == {i \in DOMAIN st.bnd : st.bnd[i].col = c}
        RECURSIVE Go(_, _)
        Go(b, i) == IF i > Len(st.bnd) \/ b.err THEN b
                    ELSE IF st.bnd[i].col # c THEN Go(b, i + 1)
                    ELSE LET e == st.bnd[i] IN
                         CASE e.type = "LO" -> IF b.lo # 0 \/ ~b.haslo THEN Go([b EXCEPT !.err = TRUE], i + 1) ELSE Go([b EXCEPT !.lo = e.val], i + 1)
                           [] e.type = "UP" -> IF b.hasup THEN Go([b EXCEPT !.err = TRUE], i + 1) ELSE Go([b EXCEPT !.up = e.val, !.hasup = TRUE], i + 1)
                           [] e.type = "FX" -> IF b.lo # 0 \/ ~b.haslo \/ b.hasup THEN Go([b EXCEPT !.err = TRUE], i + 1)
                                               ELSE Go([b EXCEPT !.lo = e.val, !.up = e.val, !.hasup = TRUE], i + 1)
                           [] e.type = "FR" -> IF b.lo # 0 \/ ~b.haslo \/ b.hasup THEN Go([b EXCEPT !.err = TRUE], i + 1)
                                               ELSE Go([b EXCEPT !.haslo = FALSE], i + 1)
                           [] e.type = "MI" -> IF b.lo # 0 \/ ~b.haslo THEN Go([b EXCEPT !.err = TRUE], i + 1) ELSE Go([b EXCEPT !.haslo = FALSE], i + 1)
                           [] e.type = "PL" -> IF b.hasup THEN Go([b EXCEPT !.err = TRUE], i + 1) ELSE Go(b, i + 1)
    IN  Go([lo |-> 0, haslo |-> TRUE, up |-> 0, hasup |-> FALSE, err |-> FALSE], 1)
BoundCons(st, c) ==
    LET b == BoundOf(st, c)
    IN  IF b.haslo /\ b.hasup /\ b.lo = b.up THEN <<[t |-> "=", cols |-> {c}, co |-> {<<c, 1>>}, k |-> -b.lo]>>
        ELSE (IF b.haslo THEN <<[t |-> "<", cols |-> {c}, co |-> {<<c, -1>>}, k |-> b.lo]>> ELSE <<>>) \o          \* x >= lo
             (IF b.hasup THEN <<[t |-> "<", cols |-> {c}, co |-> {<<c, 1>>}, k |-> -b.up]>> ELSE <<>>)             \* x <= up

Read(recs) ==
    LET st == Fold(RInit, recs, 1)
        colset == {st.cols[i] : i \in DOMAIN st.cols}
        all == Concat([i \in DOMAIN st.rows |-> RowCons(st, i)]) \o Concat([i \in DOMAIN st.cols |-> BoundCons(st, st.cols[i])])
        \* a constraint that mentions no column is dropped when it holds and is an error when it does not
        bad == \E i \in DOMAIN all : all[i].cols = {} /\ (IF all[i].t = "=" THEN all[i].k # 0 ELSE all[i].k > 0)
        keptI == {i \in DOMAIN all : all[i].cols # {}}
        kept == [j \in 1..Cardinality(keptI) |-> all[SetToSortSeq(keptI, <)[j]]]
    IN  IF st.err \/ ~st.done \/ st.obj = NoLab \/ (\E c \in colset : BoundOf(st, c).err) \/ bad
        THEN [err |-> TRUE]
        ELSE [err |-> FALSE, name |-> st.name, cols |-> st.cols,
              vars |-> RowCols(st, st.obj) \cup UNION {kept[i].cols : i \in DOMAIN kept},         \* the variables of the problem
              obj |-> [co |-> {<<c, RowCoef(st, st.obj, c)>> : c \in {c \in RowCols(st, st.obj) : RowCoef(st, st.obj, c) # 0}}, k |-> RowConst(st, st.obj)],
              ineqs |-> LET S == SetToSortSeq({j \in DOMAIN kept : kept[j].t = "<"}, <) IN [j \in DOMAIN S |-> kept[S[j]]],
              eqs |-> LET S == SetToSortSeq({j \in DOMAIN kept : kept[j].t = "="}, <) IN [j \in DOMAIN S |-> kept[S[j]]]]

(******************************* round trip ******************************)
\* bag of canonical rows: coefficient set and constant; equalities up to sign
LexLeq(a, b) == \/ a = b
                \/ \E i \in 1..(IF Len(a) < Len(b) THEN Len(a) ELSE Len(b)) : (\A j \in 1..(i - 1) : a[j] = b[j]) /\ a[i] < b[i]
                \/ (Len(a) < Len(b) /\ \A j \in 1..Len(a) : a[j] = b[j])
NormEq(c) == LET first == CHOOSE p \in c.co : \A q \in c.co : LexLeq(p[1], q[1])
             IN  IF c.co # {} /\ first[2] < 0 THEN [co |-> {<<p[1], -p[2]>> : p \in c.co}, k |-> -c.k] ELSE [co |-> c.co, k |-> c.k]
BagOf(s) == [x \in {s[i] : i \in DOMAIN s} |-> Cardinality({i \in DOMAIN s : s[i] = x})]
\* the LP P itself in the same vocabulary (labels from the names, six significant digits)
CanonLP(P, vord) ==
    LET X == Ctx(P)
        co == ConsOrder(P)
        VLab(q, i) == Label(Base(P.vnames[vord[q]], q - 1), i - 1)
        keys == Concat([q \in DOMAIN vord |-> [i \in 1..P.sz[vord[q]] |-> [lab |-> VLab(q, i), key |-> <<0, VarIdx(vord[q], P.vo), i>>]]])
        rowOf(f) == [co |-> {<<keys[j].lab, Round6(CoefOf(f, keys[j].key))>> : j \in {j \in DOMAIN keys : CoefOf(f, keys[j].key) # 0}}, k |-> -Round6(-f.k)]
        rws(t) == Concat([k \in DOMAIN co |-> IF (P.cons[co[k]].rel = "==") = (t = "=") THEN [l \in 1..Len(X.rc[co[k]].rows) |-> rowOf(X.rc[co[k]].rows[l])] ELSE <<>>])
    IN  [cols |-> {keys[j].lab : j \in DOMAIN keys}, ncols |-> Len(keys), obj |-> rowOf(X.ro.rows[1]).co,
         ineqs |-> BagOf(rws("<")), eqs |-> BagOf([i \in DOMAIN rws("=") |-> NormEq(rws("=")[i])])]
CanonRead(R) == [cols |-> {R.cols[i] : i \in DOMAIN R.cols}, ncols |-> Len(R.cols), obj |-> R.obj.co,
                 ineqs |-> BagOf([i \in DOMAIN R.ineqs |-> [co |-> R.ineqs[i].co, k |-> R.ineqs[i].k]]),
                 eqs |-> BagOf([i \in DOMAIN R.eqs |-> NormEq(R.eqs[i])])]
\* columns that occur with a nonzero coefficient somewhere; rows that mention a column
LiveCols(P, vord) == LET C == CanonLP(P, vord) IN
    {p[1] : p \in C.obj} \cup UNION {{p[1] : p \in r.co} : r \in DOMAIN C.ineqs} \cup UNION {{p[1] : p \in r.co} : r \in DOMAIN C.eqs}
\* distinct labels (the hypothesis "distinct names" at the level of the 8-character labels)
DistinctLabels(P, vord) ==
    LET co == ConsOrder(P)
        X == Ctx(P)
        vl == Concat([q \in DOMAIN vord |-> [i \in 1..P.sz[vord[q]] |-> Label(Base(P.vnames[vord[q]], q - 1), i - 1)]])
        cl == Concat([k \in DOMAIN co |-> [i \in 1..Len(X.rc[co[k]].rows) |-> Label(Base(P.cnames[co[k]], k - 1), i - 1)]])
    IN  /\ \A i, j \in DOMAIN vl : i # j => vl[i] # vl[j]
        /\ \A i, j \in DOMAIN cl : i # j => cl[i] # cl[j] /\ cl[i] # COST
\* every row mentions a variable (a row without variables is dropped by a reader - or is an error when it does not hold - so it cannot be
\* carried through a file: such LPs are outside the round-trip statement)
NoEmptyRows(P, vord) == LET C == CanonLP(P, vord) IN \A r \in (DOMAIN C.ineqs) \cup (DOMAIN C.eqs) : r.co # {}
RoundTrip(P, vord) ==
    LET R == Read(Write(P, vord))  C == CanonLP(P, vord) IN
    ~R.err /\ CanonRead(R) = C
=============================================================================
