------------------------------- MODULE MC_Blas -------------------------------
(* Evaluates Blas.tla (Run) on the calls of IOEnv.CASE_FILE and serialises, for every call, the verdict, the returned number and the
   expected contents of every buffer after the call. *)
EXTENDS Blas, Json, IOUtils

Cases == JsonDeserialize(IOEnv.CASE_FILE)
Out(c) == LET r == Run(c) IN
          [v |-> r.v, ret |-> r.ret, out |-> [nm \in DOMAIN r.out |-> r.out[nm].d]]
ASSUME JsonSerialize(IOEnv.OUT_FILE, [res |-> [i \in 1..Len(Cases) |-> Out(Cases[i])]])

VARIABLE dummy
Init == dummy = 0
Next == UNCHANGED dummy
Spec == Init /\ [][Next]_dummy
=============================================================================
