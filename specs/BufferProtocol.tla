--------------------------- MODULE BufferProtocol ---------------------------
(***************************************************************************)
(* Identity, copying and sharing of matrix storage (C20).                   *)
(*                                                                          *)
(* A matrix object owns its storage; names are bound to objects; a VIEW     *)
(* (memoryview / numpy.asarray of a dense matrix) exports the storage of    *)
(* one object and keeps that object alive while it is held.                 *)
(*                                                                          *)
(*   env    name -> object id (0 = unbound)                                 *)
(*   heap   object id -> [kind, tc, nr, nc, cells, colptr, rowind]          *)
(*          dense: cells in column-major order; sparse: cells = the values  *)
(*          of the stored entries (explicit zeros included) in compressed-  *)
(*          column order.  An object that no name and no live view refers   *)
(*          to is garbage (kind "none").                                    *)
(*   views  view name -> [src (object id), live, nr, nc]  (the shape is a   *)
(*          snapshot taken at export)                                       *)
(*   last   the action that led to this state (name, arguments, outcome):   *)
(*          lets the harness replay every edge of the dumped state graph    *)
(*                                                                          *)
(* Copy-like operations (matrix(m), +m, m[:, :], copy.copy, copy.deepcopy,  *)
(* pickle with every protocol, tofile/fromfile, matrix(buffer of m),        *)
(* rebuilding a sparse matrix from its triplets) give a NEW object equal to *)
(* the source in kind, typecode, size, values and - for sparse matrices -   *)
(* stored-entry structure; alias-like operations (plain assignment, in-place*)
(* operators, export) give access to the SAME object.                       *)
(***************************************************************************)
EXTENDS Integers, Sequences, FiniteSets, TLC

CONSTANTS Names, Views, Templates, Hows, MaxDepth, WriteVal
VARIABLES env, heap, views, nextid, last
vars == <<env, heap, views, nextid, last>>

MaxId == 12
None == [kind |-> "none", tc |-> "", nr |-> 0, nc |-> 0, cells |-> <<>>, colptr |-> <<>>, rowind |-> <<>>]
NoView == [src |-> 0, live |-> FALSE, nr |-> 0, nc |-> 0]

Bound(n) == env[n] # 0
Obj(n) == heap[env[n]]
Referenced(id, e, vs) == (\E n \in Names : e[n] = id) \/ (\E v \in Views : vs[v].live /\ vs[v].src = id)
\* garbage collection: objects nobody refers to disappear
GC(h, e, vs) == [id \in 1..MaxId |-> IF Referenced(id, e, vs) THEN h[id] ELSE None]
Exports(id) == Cardinality({v \in Views : views[v].live /\ views[v].src = id})

Init == /\ env = [n \in Names |-> 0] /\ heap = [id \in 1..MaxId |-> None]
        /\ views = [v \in Views |-> NoView] /\ nextid = 1 /\ last = [a |-> "init"]

Deep == TLCGet("level") <= MaxDepth

\* n = a fresh matrix built from a template
New(n, t) == /\ Deep /\ nextid <= MaxId
             /\ LET e == [env EXCEPT ![n] = nextid] IN
                /\ env' = e /\ heap' = GC([heap EXCEPT ![nextid] = Templates[t]], e, views)
             /\ nextid' = nextid + 1 /\ UNCHANGED views
             /\ last' = [a |-> "New", n |-> n, t |-> t, ok |-> TRUE]
\* n = m   (plain assignment: the same object)
Alias(n, m) == /\ Deep /\ Bound(m) /\ n # m
               /\ LET e == [env EXCEPT ![n] = env[m]] IN env' = e /\ heap' = GC(heap, e, views)
               /\ UNCHANGED <<views, nextid>> /\ last' = [a |-> "Alias", n |-> n, m |-> m, ok |-> TRUE]
\* which copy-like operations exist for which kind of matrix
HowOK(how, o) == CASE how \in {"tofile", "buffer", "asarray", "matrix"} -> o.kind = "dense"
                   [] how = "triplets" -> o.kind = "sparse"
                   [] OTHER -> TRUE
\* n = <copy-like operation>(m): a new object, equal to the source
CopyOf(n, m, how) ==
    /\ Deep /\ Bound(m) /\ nextid <= MaxId
    /\ IF HowOK(how, Obj(m))
       THEN LET e == [env EXCEPT ![n] = nextid] IN
            /\ env' = e /\ heap' = GC([heap EXCEPT ![nextid] = Obj(m)], e, views)
            /\ nextid' = nextid + 1 /\ last' = [a |-> "CopyOf", n |-> n, m |-> m, how |-> how, ok |-> TRUE]
       ELSE /\ UNCHANGED <<env, heap, nextid>> /\ last' = [a |-> "CopyOf", n |-> n, m |-> m, how |-> how, ok |-> FALSE]
    /\ UNCHANGED views
\* v = memoryview(m): only dense matrices export their storage
Export(v, m) ==
    /\ Deep /\ Bound(m) /\ ~views[v].live
    /\ IF Obj(m).kind = "dense"
       THEN /\ views' = [views EXCEPT ![v] = [src |-> env[m], live |-> TRUE, nr |-> Obj(m).nr, nc |-> Obj(m).nc]]
            /\ last' = [a |-> "Export", v |-> v, m |-> m, ok |-> TRUE]
       ELSE /\ UNCHANGED views /\ last' = [a |-> "Export", v |-> v, m |-> m, ok |-> FALSE]
    /\ UNCHANGED <<env, heap, nextid>>
\* m[k] = x through the matrix (k-th stored cell)
WriteMat(m, k) ==
    /\ Deep /\ Bound(m) /\ k \in 1..Len(Obj(m).cells)
    /\ heap' = [heap EXCEPT ![env[m]].cells[k] = WriteVal]
    /\ UNCHANGED <<env, views, nextid>> /\ last' = [a |-> "WriteMat", m |-> m, k |-> k, ok |-> TRUE]
\* a write through the exported buffer
WriteView(v, k) ==
    /\ Deep /\ views[v].live /\ k \in 1..Len(heap[views[v].src].cells)
    /\ heap' = [heap EXCEPT ![views[v].src].cells[k] = WriteVal + 1]
    /\ UNCHANGED <<env, views, nextid>> /\ last' = [a |-> "WriteView", v |-> v, k |-> k, ok |-> TRUE]
\* m *= -1  (an in-place operator: the same object)
IOp(m) ==
    /\ Deep /\ Bound(m)
    /\ heap' = [heap EXCEPT ![env[m]].cells = [k \in DOMAIN @ |-> -@[k]]]
    /\ UNCHANGED <<env, views, nextid>> /\ last' = [a |-> "IOp", m |-> m, ok |-> TRUE]
\* an in-place operator whose operand would widen the typecode (A += 1.5 for an integer A, A *= 1j for a real A, also /=, -=, %=):
\* "in-place operations are only defined if they do not change the type of A" - refused, nothing changes (a view may hold the storage)
IOpWiden(m) ==
    /\ Deep /\ Bound(m) /\ Obj(m).kind = "dense" /\ Obj(m).tc \in {"i", "d"}
    /\ UNCHANGED <<env, heap, views, nextid>> /\ last' = [a |-> "IOpWiden", m |-> m, ok |-> FALSE]
\* m.size = (nc, nr) for a dense matrix: the same storage read with another shape (live views keep the shape they were created with)
Reshape(m) ==
    /\ Deep /\ Bound(m) /\ Obj(m).kind = "dense" /\ Obj(m).nr # Obj(m).nc
    /\ heap' = [heap EXCEPT ![env[m]].nr = Obj(m).nc, ![env[m]].nc = Obj(m).nr]
    /\ UNCHANGED <<env, views, nextid>> /\ last' = [a |-> "Reshape", m |-> m, ok |-> TRUE]
Release(v) ==
    /\ Deep /\ views[v].live
    /\ LET vs == [views EXCEPT ![v] = NoView] IN views' = vs /\ heap' = GC(heap, env, vs)
    /\ UNCHANGED <<env, nextid>> /\ last' = [a |-> "Release", v |-> v, ok |-> TRUE]
\* del n
Drop(n) ==
    /\ Deep /\ Bound(n)
    /\ LET e == [env EXCEPT ![n] = 0] IN env' = e /\ heap' = GC(heap, e, views)
    /\ UNCHANGED <<views, nextid>> /\ last' = [a |-> "Drop", n |-> n, ok |-> TRUE]

Next == \/ \E n \in Names, t \in DOMAIN Templates : New(n, t)
        \/ \E n, m \in Names : Alias(n, m)
        \/ \E n, m \in Names, how \in Hows : CopyOf(n, m, how)
        \/ \E v \in Views, m \in Names : Export(v, m)
        \/ \E m \in Names, k \in 1..4 : WriteMat(m, k)
        \/ \E v \in Views, k \in 1..4 : WriteView(v, k)
        \/ \E m \in Names : IOp(m)
        \/ \E m \in Names : IOpWiden(m)
        \/ \E m \in Names : Reshape(m)
        \/ \E v \in Views : Release(v)
        \/ \E n \in Names : Drop(n)
Spec == Init /\ [][Next]_vars

(***************************** properties ********************************)
\* a held export keeps its storage valid: the source object of a live view exists, is dense and has as many cells as the view's shape
ValidWhileHeld == \A v \in Views : views[v].live =>
                      /\ heap[views[v].src].kind = "dense"
                      /\ Len(heap[views[v].src].cells) = views[v].nr * views[v].nc
\* objects are reclaimed exactly when nothing refers to them
NoLeakNoDangling == \A id \in 1..MaxId : (heap[id].kind # "none") <=> (id < nextid /\ Referenced(id, env, views))
\* copy-like operations never make two names share an object: sharing arises only from Alias
\* (action property: a CopyOf step binds n to an object no other name or view refers to)
CopyIsFresh == [][last'.a = "CopyOf" /\ last'.ok => (\A m \in Names : m # last'.n => env'[m] # env'[last'.n])
                                                    /\ (\A v \in Views : views'[v].live => views'[v].src # env'[last'.n])]_vars
\* a write is visible through exactly the names and views that refer to the written object (frame condition)
WriteFrame == [][last'.a \in {"WriteMat", "WriteView", "IOp"} =>
                   LET id == IF last'.a = "WriteView" THEN views[last'.v].src ELSE env[last'.m] IN
                   \A j \in 1..MaxId : j # id => heap'[j] = heap[j]]_vars
=============================================================================
