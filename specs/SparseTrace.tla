------------------------------ MODULE SparseTrace ------------------------------
(* Validates traces of programs mixing cvxopt.spmatrix and cvxopt.matrix objects against SparseCCS: at every step every
   observed sparse object must be a valid compressed-column structure whose dense image is the model's image. *)
EXTENDS SparseCCS, Json, IOUtils, TLCExt

VARIABLES tid, l
Traces == JsonDeserialize(IOEnv.TRACE_FILE)
Tr == Traces[tid]
E == Tr[l]
Clause(name, e) == IF e THEN TRUE ELSE PrintT(<<"FAILED", tid, l, name>>) /\ FALSE

OutMatches(o, obs) ==
    CASE o.k = "num"  -> obs.k = "num" /\ obs.tc = o.tc /\ obs.v = o.v
      [] o.k = "mat"  -> obs.k = "mat"
      [] o.k = "none" -> obs.k = "none" \/ ("lax" \in DOMAIN o /\ obs.k = "err")
      [] o.k = "err"  -> obs.k = "err" /\ obs.cls \in (CASE o.cls = "ZeroDivision" -> {"ZeroDivisionError"}
                                                          [] o.cls = "AnyErr" -> {"IndexError", "TypeError", "ValueError", "ZeroDivisionError", "NotImplementedError"}
                                                          [] o.cls = "Unsupported" -> {"TypeError", "NotImplementedError"}
                                                          [] OTHER -> {"IndexError", "TypeError", "ValueError"})     \* which of the three: not specified
      \* a result outside the Gaussian integers: type, shape and storage kind are specified, the values are not compared, the trace ends here
      [] o.k = "cut"  -> LET x == IF "dst" \in DOMAIN E.op THEN E.op.dst ELSE E.op.src IN
                         /\ obs.k = (IF "dst" \in DOMAIN E.op THEN "mat" ELSE "none") /\ x \in DOMAIN E.heap
                         /\ E.heap[x].nr = o.nr /\ E.heap[x].nc = o.nc
                         /\ E.heap[x].tc = (IF E.heap[x].kind = "sparse" THEN SpTc(o.tc) ELSE o.tc)
                         /\ (E.heap[x].kind = "sparse" => CCSValid(E.heap[x]))
      [] o.k = "unspec" -> TRUE
Image(o) == IF o.kind = "sparse" THEN Densify(o) ELSE Mat(o.tc, o.nr, o.nc, o.buf)
Bounds(h, e) == \A n \in Names : (e[n] = Unbound) <=> (n \notin DOMAIN E.heap)
KindsMatch(e, kd) == \A n \in Names : e[n] # Unbound => E.heap[n].kind = kd[e[n]]
Valid == \A n \in DOMAIN E.heap : E.heap[n].kind = "sparse" => CCSValid(E.heap[n])
Images(h, e) == \A n \in Names : e[n] # Unbound => Image(E.heap[n]) = h[e[n]]
AliasMatches(e, same) == \A a \in Names, b \in Names :
                            (e[a] # Unbound /\ e[b] # Unbound) => ((e[a] = e[b]) <=> (<<a, b>> \in {<<same[i][1], same[i][2]>> : i \in DOMAIN same}))
\* where the documentation pins the pattern
Pinned == IF E.op.k = "sp_new" /\ out'.k = "mat"
          THEN Pattern(E.heap[E.op.dst]) = {<<E.op.I[k], E.op.J[k]>> : k \in DOMAIN E.op.I}
          ELSE IF "keepnnz" \in DOMAIN E /\ out'.k = "mat" /\ E.heap[E.op.dst].kind = "sparse"
          THEN Nnz(E.heap[E.op.dst]) = E.keepnnz ELSE TRUE

Ends(o) == o.k \in {"cut", "unspec"}
\* (IF, not \/: TLC evaluates both disjuncts of a disjunction inside an action)
TStep == /\ l <= Len(Tr)
         /\ SDo(E.op)
         /\ Clause("exact-values", IF Ends(out') THEN TRUE ELSE ~E.nonint)
         /\ Clause("result", OutMatches(out', E.out))
         /\ IF Ends(out') THEN TRUE ELSE
              /\ Clause("names", Bounds(heap', env'))
              /\ Clause("ccs-valid", Valid)
              /\ Clause("kind", KindsMatch(env', kind'))
              /\ Clause("dense-image", Images(heap', env'))
              /\ Clause("identity", AliasMatches(env', E.same))
              /\ Clause("pattern", Pinned)
         /\ Clause("index-arguments-unchanged", E.idxok)
         /\ l' = IF Ends(out') THEN Len(Tr) + 1 ELSE l + 1
TDone == l = Len(Tr) + 1 /\ PrintT(<<"ACCEPT", tid>>) /\ UNCHANGED svars /\ l' = l + 1
TInit == SInit /\ tid \in 1..Len(Traces) /\ l = 1
TNext == (TStep \/ TDone) /\ UNCHANGED tid
TSpec == TInit /\ [][TNext]_<<svars, tid, l>>
=============================================================================
