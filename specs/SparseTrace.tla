------------------------------ MODULE SparseTrace ------------------------------
(* Validates traces of programs mixing cvxopt.spmatrix and cvxopt.matrix objects against SparseCCS: at every step every
   observed sparse object must be a valid compressed-column structure whose dense image is the model's image. *)
EXTENDS SparseCCS, Json, IOUtils, TLCExt

VARIABLES tid, l
Traces == JsonDeserialize(IOEnv.TRACE_FILE)
Tr == Traces[tid]
E == Tr[l]
Clause(name, e) == IF e THEN TRUE ELSE PrintT(<<"FAILED", tid, l, name>>) /\ FALSE

OutMatches(o, obs) ==
    CASE o.k = "num"  -> obs.k = "num" /\ obs.tc = o.tc /\ obs.v = o.v
      [] o.k = "mat"  -> obs.k = "mat"
      [] o.k = "none" -> obs.k = "none" \/ ("lax" \in DOMAIN o /\ obs.k = "err")
      [] o.k = "err"  -> obs.k = "err" /\ obs.cls \in {"IndexError", "TypeError", "ValueError"}     \* which of the three: not specified
Image(o) == IF o.kind = "sparse" THEN Densify(o) ELSE Mat(o.tc, o.nr, o.nc, o.buf)
Bounds(h, e) == \A n \in Names : (e[n] = Unbound) <=> (n \notin DOMAIN E.heap)
KindsMatch(e, kd) == \A n \in Names : e[n] # Unbound => E.heap[n].kind = kd[e[n]]
Valid == \A n \in DOMAIN E.heap : E.heap[n].kind = "sparse" => CCSValid(E.heap[n])
Images(h, e) == \A n \in Names : e[n] # Unbound => Image(E.heap[n]) = h[e[n]]
AliasMatches(e, same) == \A a \in Names, b \in Names :
                            (e[a] # Unbound /\ e[b] # Unbound) => ((e[a] = e[b]) <=> (<<a, b>> \in {<<same[i][1], same[i][2]>> : i \in DOMAIN same}))
\* where the documentation pins the pattern
Pinned == IF E.op.k = "sp_new" /\ out'.k = "mat"
          THEN Pattern(E.heap[E.op.dst]) = {<<E.op.I[k], E.op.J[k]>> : k \in DOMAIN E.op.I}
          ELSE IF "keepnnz" \in DOMAIN E /\ out'.k = "mat" /\ E.heap[E.op.dst].kind = "sparse"
          THEN Nnz(E.heap[E.op.dst]) = E.keepnnz ELSE TRUE

TStep == /\ l <= Len(Tr)
         /\ SDo(E.op)
         /\ Clause("result", OutMatches(out', E.out))
         /\ Clause("names", Bounds(heap', env'))
         /\ Clause("ccs-valid", Valid)
         /\ Clause("kind", KindsMatch(env', kind'))
         /\ Clause("dense-image", Images(heap', env'))
         /\ Clause("identity", AliasMatches(env', E.same))
         /\ Clause("pattern", Pinned)
         /\ Clause("index-arguments-unchanged", E.idxok)
TDone == l = Len(Tr) + 1 /\ PrintT(<<"ACCEPT", tid>>) /\ UNCHANGED svars
TInit == SInit /\ tid \in 1..Len(Traces) /\ l = 1
TNext == (TStep \/ TDone) /\ l' = l + 1 /\ UNCHANGED tid
TSpec == TInit /\ [][TNext]_<<svars, tid, l>>
=============================================================================
