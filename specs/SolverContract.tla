--------------------------- MODULE SolverContract ---------------------------
(***************************************************************************)
(* The observable contract of one call of an interior-point solver of      *)
(* cvxopt (conelp, coneqp, cpl and their wrappers lp, socp, sdp, qp, cp,    *)
(* gp), on the variables the properties C01-C05, C07(b), C09(iter) and C10  *)
(* talk about.  One event per observable step:                             *)
(*    Start      the call is entered with a configuration                   *)
(*    Kkt        one call of the KKT factorisation ("factor") or of the     *)
(*               solve routine it returned ("solve"); ok = it returned,     *)
(*               ~ok = it raised ArithmeticError                            *)
(*    Iter       top of iteration k with the stopping predicates in force  *)
(*    Return     the call returned a result dictionary                      *)
(*    Raise      the call raised an exception                               *)
(* Numeric facts about returned floats never enter TLC: they arrive as the  *)
(* booleans of the record `cert`, computed by the abstraction function      *)
(* (harness/alpha.py, exact rational arithmetic on the caller's data).      *)
(* The specification says WHICH certificate must accompany WHICH outcome.   *)
(***************************************************************************)
EXTENDS Integers, Sequences, TLC

Solvers  == {"conelp", "coneqp", "cpl"}
Statuses == {"optimal", "primal infeasible", "dual infeasible", "unknown"}
Truths   == {"solvable", "pinf", "dinf", "none"}
NoPreds  == [feas |-> FALSE, gap |-> FALSE, pinf |-> FALSE, dinf |-> FALSE]
NoCert   == [x \in {} |-> TRUE]

VARIABLES cfg,          \* [solver, maxiters, bothstarts, truth]
          phase,        \* "idle" | "running" | "done"
          iters, sawIter, lastPreds,
          faultSeen,    \* some Kkt call failed
          pending,      \* ... and no later factorisation succeeded (not recovered)
          faultPhase,   \* phase of the first failure: "startup" | "iter0" | "later"
          winvOk,       \* all scaling dictionaries handed to the KKT solver so far satisfied their invariants
          outcome,      \* [kind, status, cls, iters]
          cert          \* record of booleans from the abstraction function

cvars == <<cfg, phase, iters, sawIter, lastPreds, faultSeen, pending, faultPhase, winvOk, outcome, cert>>

CInit == /\ cfg = [solver |-> "conelp", maxiters |-> 0, bothstarts |-> FALSE, truth |-> "none"]
         /\ phase = "idle" /\ iters = 0 /\ sawIter = FALSE /\ lastPreds = NoPreds
         /\ faultSeen = FALSE /\ pending = FALSE /\ faultPhase = "none" /\ winvOk = TRUE
         /\ outcome = [kind |-> "none", status |-> "none", cls |-> "none", iters |-> 0]
         /\ cert = NoCert

Phase == IF ~sawIter THEN "startup" ELSE IF iters = 0 THEN "iter0" ELSE "later"

Start(c) == /\ phase = "idle"
            /\ cfg' = c /\ phase' = "running"
            /\ UNCHANGED <<iters, sawIter, lastPreds, faultSeen, pending, faultPhase, winvOk, outcome, cert>>

\* w: the scaling handed to this factor call satisfied its documented invariants (TRUE for solve calls)
Kkt(kind, ok, w) ==
    /\ phase = "running"
    /\ winvOk' = (winvOk /\ w)
    /\ IF ok THEN /\ pending' = (pending /\ kind # "factor")     \* a later successful factorisation = recovery
                  /\ UNCHANGED <<faultSeen, faultPhase>>
             ELSE /\ pending' = TRUE /\ faultSeen' = TRUE
                  /\ faultPhase' = IF faultSeen THEN faultPhase ELSE Phase
    /\ UNCHANGED <<cfg, phase, iters, sawIter, lastPreds, outcome, cert>>

Iter(k, p) ==
    /\ phase = "running"
    /\ k = IF sawIter THEN iters + 1 ELSE 0
    /\ iters' = k /\ sawIter' = TRUE /\ lastPreds' = p
    /\ UNCHANGED <<cfg, phase, faultSeen, pending, faultPhase, winvOk, outcome, cert>>

Return(status, k, c) ==
    /\ phase = "running" /\ status \in Statuses
    /\ phase' = "done" /\ cert' = c
    /\ outcome' = [kind |-> "return", status |-> status, cls |-> "none", iters |-> k]
    /\ UNCHANGED <<cfg, iters, sawIter, lastPreds, faultSeen, pending, faultPhase, winvOk>>

Raise(cls) ==
    /\ phase = "running"
    /\ phase' = "done"
    /\ outcome' = [kind |-> "raise", status |-> "none", cls |-> cls, iters |-> 0]
    /\ UNCHANGED <<cfg, iters, sawIter, lastPreds, faultSeen, pending, faultPhase, winvOk, cert>>

(***************************************************************************)
(* Properties.  Has(f) reads a certificate flag; a flag the abstraction    *)
(* function did not report counts as violated.                             *)
(***************************************************************************)
Done     == phase = "done"
Returned == Done /\ outcome.kind = "return"
Status   == outcome.status
Has(f)   == f \in DOMAIN cert /\ cert[f]

\* C01 / C03 / C04: 'optimal' is an independently checkable certificate
OptimalCert ==
    Returned /\ Status = "optimal" =>
        /\ Has("pres_ok") /\ Has("dres_ok")
        /\ Has("s_in_cone") /\ Has("z_in_cone")
        /\ Has("gap_ok")
        /\ Has("fields_ok")
        /\ Has("split_ok")
        /\ outcome.iters <= cfg.maxiters
        /\ (cfg.solver = "cpl" => Has("x_in_domain"))
\* the status follows from the stopping predicates of the last iteration
OptimalDecision == Returned /\ Status = "optimal" /\ sawIter => lastPreds.feas /\ lastPreds.gap

\* C02: infeasibility statuses carry Farkas certificates
PinfCert == Returned /\ Status = "primal infeasible" =>
                /\ cfg.solver = "conelp"
                /\ Has("xs_none") /\ Has("z_in_cone") /\ Has("hzby_minus1") /\ Has("pinfres_ok") /\ Has("fields_ok")
                /\ (sawIter => lastPreds.pinf)
DinfCert == Returned /\ Status = "dual infeasible" =>
                /\ cfg.solver = "conelp"
                /\ Has("yz_none") /\ Has("s_in_cone") /\ Has("cx_minus1") /\ Has("dinfres_ok") /\ Has("fields_ok")
                /\ (sawIter => lastPreds.dinf)

\* C05: classification of planted instances
ClassSolvable == Done /\ cfg.truth = "solvable" /\ ~faultSeen =>
                    /\ outcome.kind = "return"
                    /\ (Status = "optimal" \/ (Status = "unknown" /\ Has("near_1e5")))
                    /\ Has("objective_in_bounds")
ClassPinf == Done /\ cfg.truth = "pinf" /\ ~faultSeen => outcome.kind = "return" /\ Status = "primal infeasible"
ClassDinf == Done /\ cfg.truth = "dinf" /\ ~faultSeen => outcome.kind = "return" /\ Status = "dual infeasible"
NoRaiseOnWellPosed == Done /\ cfg.truth # "none" /\ ~faultSeen => outcome.kind = "return"

\* C09 (iteration budget) - holds for every return
IterBudget == Returned => outcome.iters <= cfg.maxiters /\ (sawIter => outcome.iters = iters)

\* C07(b): every scaling handed to the KKT solver satisfied its invariants
ScalingInvariants == winvOk

\* C10: numerical failures are contained and reported as documented
Contained   == Done /\ pending =>
                  \/ (outcome.kind = "raise" /\ outcome.cls = "ValueError")
                  \/ (outcome.kind = "return" /\ Status = "unknown")
StartupFault == Done /\ pending /\ faultPhase = "startup" => outcome.kind = "raise" /\ outcome.cls = "ValueError"
LaterFault   == Done /\ pending /\ faultPhase = "later"   => outcome.kind = "return" /\ Status = "unknown"
UnknownIsConsistent == Returned /\ Status = "unknown" => Has("s_interior") /\ Has("z_interior") /\ Has("fields_ok")
OnlyArgErrors == Done /\ outcome.kind = "raise" => outcome.cls \in {"ValueError", "TypeError"}
=============================================================================
