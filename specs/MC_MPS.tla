------------------------------- MODULE MC_MPS -------------------------------
(* Evaluates MPS.tla on the cases of IOEnv.CASE_FILE:
     kind "w": an LP P (terms of ModelExpr, names), the observed order of op.variables() and the records of the file op.tofile wrote;
               decides IsLP, the model's round-trip theorem for P, whether the ACTUAL file denotes P (CanonRead(Read(recs)) = CanonLP(P)),
               and what fromfile must build from the actual file (Read(recs));
     kind "r": a record sequence (reader test): Read(recs). *)
EXTENDS MPS, Json, IOUtils

Cases == JsonDeserialize(IOEnv.CASE_FILE)
ReadOut(R) == IF R.err THEN [err |-> TRUE]
              ELSE [err |-> FALSE, name |-> R.name, cols |-> R.cols, vars |-> SetToSeq(R.vars), obj |-> [co |-> SetToSeq(R.obj.co), k |-> R.obj.k],
                    ineqs |-> [i \in DOMAIN R.ineqs |-> [co |-> SetToSeq(R.ineqs[i].co), k |-> R.ineqs[i].k]],
                    eqs |-> [i \in DOMAIN R.eqs |-> [co |-> SetToSeq(R.eqs[i].co), k |-> R.eqs[i].k]]]
Out(C) ==
    IF C.kind = "r" THEN [read |-> ReadOut(Read(C.recs))]
    ELSE IF ~ProblemOK(C.P) THEN [ok |-> FALSE]
    ELSE IF ~IsLP(C.P) THEN [ok |-> TRUE, islp |-> FALSE]
    ELSE LET R == Read(C.recs) IN
         [ok |-> TRUE, islp |-> TRUE, distinct |-> DistinctLabels(C.P, C.vord), norows0 |-> NoEmptyRows(C.P, C.vord),
          theorem |-> RoundTrip(C.P, C.vord),
          denotes |-> IF C.hasfile THEN (~R.err /\ CanonRead(R) = CanonLP(C.P, C.vord)) ELSE FALSE,
          read |-> IF C.hasfile THEN ReadOut(R) ELSE [err |-> TRUE]]
ASSUME JsonSerialize(IOEnv.OUT_FILE, [res |-> [i \in 1..Len(Cases) |-> Out(Cases[i])]])

VARIABLE dummy
Init == dummy = 0
Next == UNCHANGED dummy
Spec == Init /\ [][Next]_dummy
=============================================================================
