----------------------------- MODULE Presentation -----------------------------
(***************************************************************************)
(* Equivalent presentations of one cone program (C06).  The transforms     *)
(* that re-encode rows are defined here as index maps on the cone layout,   *)
(* and TLC proves, for all small dims and all vectors on a grid, that each  *)
(* map is a bijection of the cells and preserves cone membership:           *)
(*     LAsQ1(d, r)    row r of the 'l' block becomes a 1-dimensional 'q'    *)
(*                    cone (appended after the existing 'q' blocks)         *)
(*     LAsS1(d, r)    row r of the 'l' block becomes an order-1 's' block   *)
(*                    (appended after the existing 's' blocks)              *)
(*     PermRows(d, pi) permutation of the rows inside the 'l' block         *)
(* The same operators produce the maps the harness uses to build the second *)
(* presentation (JSON request/response), so the implementation is compared  *)
(* on exactly the presentations the specification defines.                  *)
(* Also: the table of KKT solver names each entry point supports (C06n).    *)
(***************************************************************************)
EXTENDS ConeLayout, TLC, Json, IOUtils

\* ---------------------------------------------------------------- transforms
\* each returns [dims |-> d', pos |-> function old cell (1-based) -> new cell]
LAsQ1(d, r) ==
    LET nlq == d.l + SumSeq(d.q)
    IN  [dims |-> [l |-> d.l - 1, q |-> d.q \o <<1>>, s |-> d.s],
         pos  |-> [p \in 1..CDim(d) |-> IF p < r THEN p ELSE IF p = r THEN nlq
                                       ELSE IF p <= nlq THEN p - 1 ELSE p]]
LAsS1(d, r) ==
    [dims |-> [l |-> d.l - 1, q |-> d.q, s |-> d.s \o <<1>>],
     pos  |-> [p \in 1..CDim(d) |-> IF p < r THEN p ELSE IF p = r THEN CDim(d) ELSE p - 1]]
PermRows(d, pi) ==
    [dims |-> d, pos |-> [p \in 1..CDim(d) |-> IF p <= d.l THEN pi[p] ELSE p]]

Apply(T, v) == [k \in 1..Len(v) |-> v[CHOOSE p \in 1..Len(v) : T.pos[p] = k]]

\* closed cone membership (order of 's' blocks <= 2)
InConeClosed(v, d) ==
    /\ \A k \in 1..d.l : v[k] >= 0
    /\ \A k \in 1..Len(d.q) : LET b == QBlock(v, d, k) IN b[1] >= 0 /\ b[1] * b[1] >= SumSq(Tail(b))
    /\ \A k \in 1..Len(d.s) : LET b == SBlock(v, d, k)  m == d.s[k] IN
            m = 0 \/ (m = 1 /\ b[1] >= 0)
            \/ (m = 2 /\ b[1] >= 0 /\ b[4] >= 0 /\ b[1] * b[4] - b[2] * b[2] >= 0)

Bijection(T, d) == /\ {T.pos[p] : p \in 1..CDim(d)} = 1..CDim(d) /\ CDim(T.dims) = CDim(d)
Grid(n) == [1..n -> {-1, 0, 1, 2}]
\* vectors whose 's' blocks are symmetric in storage
SymOK(v, d) == \A k \in 1..Len(d.s) : d.s[k] = 2 => SBlock(v, d, k)[2] = SBlock(v, d, k)[3]
Preserves(T, d) == \A v \in Grid(CDim(d)) : SymOK(v, d) => (InConeClosed(v, d) <=> InConeClosed(Apply(T, v), T.dims))

TinyDims == {[l |-> l, q |-> q, s |-> s] : l \in 1..2, q \in {<<>>, <<2>>, <<1>>}, s \in {<<>>, <<1>>, <<2>>}}
Perms(n) == {f \in [1..n -> 1..n] : {f[i] : i \in 1..n} = 1..n}
ASSUME \A d \in {dd \in TinyDims : CDim(dd) <= 6} : \A r \in 1..d.l :
          /\ Bijection(LAsQ1(d, r), d) /\ Preserves(LAsQ1(d, r), d)
          /\ Bijection(LAsS1(d, r), d) /\ Preserves(LAsS1(d, r), d)
ASSUME \A d \in {dd \in TinyDims : CDim(dd) <= 5} : \A pi \in Perms(d.l) :
          Bijection(PermRows(d, pi), d) /\ Preserves(PermRows(d, pi), d)

\* ------------------------------------------------------- requests from the harness
Reqs == JsonDeserialize(IOEnv.REQ_FILE)
Answer(q) == CASE q.t = "LAsQ1" -> LAsQ1(q.d, q.r)
               [] q.t = "LAsS1" -> LAsS1(q.d, q.r)
               [] q.t = "PermRows" -> PermRows(q.d, q.pi)
ASSUME JsonSerialize(IOEnv.OUT_FILE, [res |-> [i \in 1..Len(Reqs) |-> Answer(Reqs[i])]])

\* ------------------------------------------------------- KKT solver names (C06n)
Names == {"ldl", "ldl2", "qr", "chol", "chol2", "foo"}
Entries == {"conelp", "lp", "socp", "sdp", "coneqp", "qp", "cpl", "cp", "gp"}
ConeLPFamily == {"conelp", "lp", "socp", "sdp"}
\* "works" | "ValueError" | "either" (the documentation is silent)
NameOutcome(e, k, lonly) ==
    IF k = "foo" THEN "ValueError"
    ELSE IF k = "chol2" /\ ~lonly THEN "ValueError"          \* implemented only without 'q' and 's' blocks
    ELSE IF k = "qr" THEN (IF e \in ConeLPFamily THEN "works" ELSE "ValueError")
    ELSE IF k = "ldl2" /\ e \in {"cp", "gp"} THEN "either"
    ELSE "works"
ASSUME JsonSerialize(IOEnv.NAMES_FILE, [rows |-> {[e |-> e, k |-> k, lonly |-> b, out |-> NameOutcome(e, k, b)] :
                                                   e \in Entries, k \in Names, b \in BOOLEAN}])

VARIABLE dummy
Init == dummy = 0
Next == UNCHANGED dummy
Spec == Init /\ [][Next]_dummy
=============================================================================
