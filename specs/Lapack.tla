--------------------------------- MODULE Lapack ---------------------------------
(***************************************************************************)
(* Planted linear-algebra instances with exactly known truth, and the       *)
(* contract of the cvxopt.lapack wrappers (C18).                            *)
(*                                                                          *)
(* Numbers are Gaussian integers <<re, im>>; matrices are sequences of      *)
(* rows.  An instance carries a CERTIFICATE that TLC checks in exact        *)
(* arithmetic (Truth):                                                      *)
(*   "nonsingular"  A = L U with L unit lower and U upper triangular with a *)
(*                  nonzero diagonal (or A = L D L^T / L D L^H with D        *)
(*                  diagonal and nonzero, for symmetric / Hermitian A), and  *)
(*                  B = A X                                                  *)
(*   "spd"          A = R^H R with R upper triangular and a positive real    *)
(*                  diagonal, and B = A X                                    *)
(*   "singular"     A v = 0 for a given v # 0                                *)
(*   "notpd"        A Hermitian and v^H A v <= 0 for a given v # 0           *)
(*   "triangular"   A triangular (uplo) with nonzero diagonal, B = A X;      *)
(*   "trisingular"  A triangular with a zero on the diagonal                 *)
(* together with the structure the routine family needs (band widths).      *)
(* Only instances accepted here are used; their truth is a theorem of this  *)
(* module, not an observation.                                              *)
(*                                                                          *)
(* The contract (Failed) relates the truth of the instance, the kind of     *)
(* call and the abstracted observation of the call (booleans computed from  *)
(* the returned floats by the harness: residuals against the planted        *)
(* solution, orthonormality, reconstruction, ordering, buffers unchanged).  *)
(***************************************************************************)
EXTENDS Integers, Sequences, FiniteSets, TLC

Z0 == <<0, 0>>
CAdd(x, y) == <<x[1] + y[1], x[2] + y[2]>>
CMul(x, y) == <<x[1] * y[1] - x[2] * y[2], x[1] * y[2] + x[2] * y[1]>>
CConj(x) == <<x[1], -x[2]>>
RECURSIVE CSum(_)
CSum(s) == IF s = <<>> THEN Z0 ELSE CAdd(Head(s), CSum(Tail(s)))
Eager(q) == SubSeq(q, 1, Len(q))
NR(M) == Len(M)
NC(M) == IF Len(M) = 0 THEN 0 ELSE Len(M[1])
Mul(A, B, m, k, n) == Eager([i \in 1..m |-> Eager([j \in 1..n |-> CSum([l \in 1..k |-> CMul(A[i][l], B[l][j])])])])
TrM(A, m, n, conj) == Eager([j \in 1..n |-> Eager([i \in 1..m |-> IF conj THEN CConj(A[i][j]) ELSE A[i][j]])])
IsShape(M, m, n) == Len(M) = m /\ \A i \in 1..m : Len(M[i]) = n
UnitLower(L, n) == \A i, j \in 1..n : (i = j => L[i][j] = <<1, 0>>) /\ (i < j => L[i][j] = Z0)
Upper(U, n) == \A i, j \in 1..n : i > j => U[i][j] = Z0
Lower(U, n) == \A i, j \in 1..n : i < j => U[i][j] = Z0
NonzeroDiag(U, n) == \A i \in 1..n : U[i][i] # Z0
Diagonal(Dm, n) == \A i, j \in 1..n : i # j => Dm[i][j] = Z0
Banded(A, n, kl, ku) == \A i, j \in 1..n : (i - j > kl \/ j - i > ku) => A[i][j] = Z0
Herm(A, n) == \A i, j \in 1..n : A[i][j] = CConj(A[j][i])
Symm(A, n) == \A i, j \in 1..n : A[i][j] = A[j][i]

\* I: [kind, n, nrhs, A, X, B, cert..., kl, ku (band widths the family uses; n for dense), sym ("n" | "s" | "h"), uplo]
Truth(I) ==
    LET n == I.n
        shapes == IsShape(I.A, n, n) /\ IsShape(I.X, n, I.nrhs) /\ IsShape(I.B, n, I.nrhs)
        rhs == I.B = Mul(I.A, I.X, n, n, I.nrhs)
        band == Banded(I.A, n, I.kl, I.ku)
        struct == CASE I.sym = "s" -> Symm(I.A, n) [] I.sym = "h" -> Herm(I.A, n) [] OTHER -> TRUE
    IN  CASE I.kind = "nonsingular" ->
                 /\ shapes /\ rhs /\ band /\ struct
                 /\ IF I.sym = "n"
                    THEN /\ IsShape(I.L, n, n) /\ IsShape(I.U, n, n) /\ UnitLower(I.L, n) /\ Upper(I.U, n) /\ NonzeroDiag(I.U, n)
                         /\ I.A = Mul(I.L, I.U, n, n, n)
                    ELSE /\ IsShape(I.L, n, n) /\ IsShape(I.U, n, n) /\ UnitLower(I.L, n) /\ Diagonal(I.U, n) /\ NonzeroDiag(I.U, n)
                         /\ I.A = Mul(Mul(I.L, I.U, n, n, n), TrM(I.L, n, n, I.sym = "h"), n, n, n)
          [] I.kind = "spd" ->
                 /\ shapes /\ rhs /\ band /\ IsShape(I.U, n, n) /\ Upper(I.U, n)
                 /\ \A i \in 1..n : I.U[i][i][1] > 0 /\ I.U[i][i][2] = 0
                 /\ I.A = Mul(TrM(I.U, n, n, TRUE), I.U, n, n, n)
          [] I.kind = "singular" ->
                 /\ IsShape(I.A, n, n) /\ band /\ struct /\ n > 0 /\ IsShape(I.v, n, 1) /\ (\E i \in 1..n : I.v[i][1] # Z0)
                 /\ \A i \in 1..n : Mul(I.A, I.v, n, n, 1)[i][1] = Z0
          [] I.kind = "notpd" ->
                 /\ IsShape(I.A, n, n) /\ band /\ Herm(I.A, n) /\ n > 0 /\ IsShape(I.v, n, 1) /\ (\E i \in 1..n : I.v[i][1] # Z0)
                 /\ LET q == Mul(TrM(I.v, n, 1, TRUE), Mul(I.A, I.v, n, n, 1), 1, n, 1)[1][1] IN q[1] <= 0 /\ q[2] = 0
          [] I.kind = "triangular" ->
                 /\ shapes /\ rhs /\ band /\ NonzeroDiag(I.A, n) /\ (IF I.uplo = "L" THEN Lower(I.A, n) ELSE Upper(I.A, n))
          [] I.kind = "trisingular" ->
                 /\ IsShape(I.A, n, n) /\ band /\ n > 0 /\ (IF I.uplo = "L" THEN Lower(I.A, n) ELSE Upper(I.A, n)) /\ ~NonzeroDiag(I.A, n)
          [] I.kind = "free" -> TRUE               \* factorisation / eigenvalue inputs: any matrix of the stated structure
          [] OTHER -> FALSE

(******************************* contract ********************************)
(* o: [call (kind of call), raised ("none" | exception class), and booleans - TRUE when not applicable -
      sol_ok            the computed X agrees with the planted X (backward-stable residual scale)
      a_unchanged       A (and every other input documented as unmodified) is bitwise unchanged
      same_as_driver    factor-then-solve equals the one-call driver
      inv_ok            A * (computed inverse) = I
      recon_ok          the factors reproduce the input (QR = A, A V = V diag(W), U S Vt = A, Z T Z^H = A)
      orth_ok           Q / V / U / Vt / Z have orthonormal columns (rows)
      order_ok          eigenvalues ascending, singular values descending and nonnegative, Schur form (quasi-)triangular
      outside_ok        no cell outside the documented outputs changed (offset / leading-dimension slack, other arguments)]          *)
Solves(truth) == truth \in {"nonsingular", "spd", "triangular"}
Fails(truth, call) == \/ truth \in {"singular", "trisingular"}
                      \/ (truth = "notpd" /\ call \in {"chol-driver", "chol-factor"})
\* a driver that has nothing to solve (no right-hand side) need not notice that the matrix is singular
Failed(truth, o, nrhs) ==
    LET F(name, ok) == IF ok THEN {} ELSE {name} IN
    IF o.call = "invalid" THEN F("rejects-inconsistent-arguments", o.raised \in {"TypeError", "ValueError"}) \cup F("rejected-call-leaves-arguments", o.outside_ok /\ o.a_unchanged)
    ELSE IF Fails(truth, o.call) THEN (IF nrhs = 0 /\ o.call \in {"driver", "chol-driver"} THEN F("no-other-exception", o.raised \in {"none", "ArithmeticError"})
                                       ELSE F("raises-ArithmeticError", o.raised = "ArithmeticError"))
    ELSE F("no-exception", o.raised = "none") \cup
         (IF o.raised # "none" THEN {} ELSE
          F("solution", o.sol_ok) \cup F("input-unchanged", o.a_unchanged) \cup F("factor-solve-equals-driver", o.same_as_driver)
          \cup F("inverse", o.inv_ok) \cup F("reconstruction", o.recon_ok) \cup F("orthonormal", o.orth_ok) \cup F("ordering", o.order_ok)
          \cup F("outside-untouched", o.outside_ok))
=============================================================================
