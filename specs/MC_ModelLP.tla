----------------------------- MODULE MC_ModelLP -----------------------------
(* Pass 1: for every generated problem of IOEnv.CASE_FILE decide whether it is a well-formed problem (ProblemOK), form the
   linear program it denotes (LP), check the epigraph lemma on its grid points, and serialise the LP together with the values
   of the objective and of the constraint functions on the grid (used to validate the harness' own evaluator). *)
EXTENDS ModelLP, Json, IOUtils

Cases == JsonDeserialize(IOEnv.CASE_FILE)
Out(P) ==
    IF ~ProblemOK(P) THEN [ok |-> FALSE]
    ELSE LET X == Ctx(P) IN
         [ok |-> TRUE, lemma |-> EpigraphLemmaX(P, X), lp |-> LPX(P, X),
          objvals |-> [q \in DOMAIN P.envs |-> ObjAt(P, P.envs[q])],
          convals |-> [q \in DOMAIN P.envs |-> [i \in DOMAIN P.cons |-> Eval(CFun(P.cons[i]), P.envs[q])]],
          curv |-> [i \in DOMAIN P.cons |-> Curv(CFun(P.cons[i]), P.sz)], ocurv |-> Curv(P.obj, P.sz)]
ASSUME JsonSerialize(IOEnv.OUT_FILE, [res |-> [i \in 1..Len(Cases) |-> Out(Cases[i])]])

VARIABLE dummy
Init == dummy = 0
Next == UNCHANGED dummy
Spec == Init /\ [][Next]_dummy
=============================================================================
