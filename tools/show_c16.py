import json,glob
for f in sorted(glob.glob('/verif/replays/C16/*.json')):
    d=json.load(open(f)); sig=d['signature']
    det=d['detail']; tr=det.get('trace') or []
    if not tr: print(sig, det); continue
    ev=tr[-1]
    prev=tr[-2]['heap'] if len(tr)>1 else {}
    def show(m):
        if m is None: return None
        if m['kind']=='sparse': return ('sp',m['tc'],m['nr'],m['nc'],m['colptr'],m['rowind'],[v[0] if v[1]==0 else tuple(v) for v in m['val']])
        return ('de',m['tc'],m['nr'],m['nc'],[v[0] if v[1]==0 else tuple(v) for v in m['buf']])
    op=ev['op']; names=set([op.get('src')]) 
    for k in ('a','b','rhs'):
        if k in op and isinstance(op[k],dict) and op[k].get('t')=='name': names.add(op[k]['n'])
    print(sig,'x',d['count']); print('  ',json.dumps(op)[:200]); print('   before',{n:show(prev.get(n)) for n in names if n}); print('   out',ev['out'], 'after',{n:show(ev['heap'].get(n)) for n in names if n})
