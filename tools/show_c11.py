import json,glob,collections
seen=collections.Counter()
for f in sorted(glob.glob('/verif/replays/C11/*.json')):
    d=json.load(open(f)); sig=d['signature']
    if 'case' not in d['detail']: print(sig, d['summary'][:300]); continue
    c=d['detail']['case']; e=d['detail'].get('expected',{})
    print(sig,'x',d['count']); print('   term:',json.dumps(c['t'])[:420]); print('   obs:',{k:v for k,v in c['obs'].items() if k!='vals'}, (c['obs'].get('vals') or [None])[0], ' exp:',{k:v for k,v in e.items() if k!='vals'}, (e.get('vals') or [None])[0])
