#!/bin/bash
# usage: tools/seed_sweep.sh "<ids>" "<seeds>" [tier]  - runs checks over several seeds; prints non-OK lines
ids=$1; seeds=$2; tier=${3:-quick}
for s in $seeds; do for id in $ids; do
  out=$(VERIF_SEED=$s ./check $id --tier $tier 2>&1 | grep -E "VIOLATION|MACHINERY|machinery|Traceback|Error" | cut -c1-400 | head -5)
  if [ -n "$out" ]; then echo "## seed=$s id=$id"; echo "$out"; else echo "ok seed=$s id=$id"; fi
done; done
