import json,glob,sys
d_=sys.argv[1] if len(sys.argv)>1 else 'C15'
for f in sorted(glob.glob('/verif/replays/%s/*.json'%d_)):
    d=json.load(open(f)); sig=d['signature']
    tr=d['detail']['trace']; ev=tr[-1]
    src=ev['op'].get('src')
    prev=tr[-2]['heap'] if len(tr)>1 else {}
    def show(m): 
        return None if m is None else (m['tc'],m['nr'],m['nc'],[v[0] if v[1]==0 else tuple(v) for v in m['buf']]) if 'buf' in m else m
    names=set([src] if src else [])
    for k in ('a','b','rhs'):
        if k in ev['op'] and isinstance(ev['op'][k],dict) and ev['op'][k].get('t')=='name': names.add(ev['op'][k]['n'])
    print(sig, 'x', d['count']); print('   op:',json.dumps(ev['op'])[:300]); print('   before:',{n:show(prev.get(n)) for n in names}); print('   out:',ev['out'], 'after:',{n:show(ev['heap'].get(n)) for n in names})
