#!/bin/bash
# usage: tools/seed_matrix.sh [out-file]   - applies every seeded change in turn to the repository (VERIF_REPO, default /repo), runs the quick
# check of its property (then the alternates recorded below) and writes one line per seed: <seed> <detected-by or MISSED or NOAPPLY>
# SEED_GLOB='seeded/C19-*/ seeded/C20-*/' restricts the sweep.
# NOTE: modifies the working tree of $VERIF_REPO while it runs (each change is undone afterwards).
out=${1:-seeded/MATRIX.txt}
REPO=${VERIF_REPO:-/repo}
declare -A ALT=( [C09-5]="C13" [C04-4]="C09" [C01-4]="C02" [C02-1]="C10" [C02-3]="C12" [C05-2]="C03" [C05-3]="C03" )
cd "$(dirname "$0")/.."
: > "$out.tmp"
for d in ${SEED_GLOB:-seeded/C*-*/}; do
  s=$(basename "$d"); prop=${s%-*}
  ( cd "$REPO" && git checkout -q -- . )
  if ! ( cd "$REPO" && ( git apply "$OLDPWD/$d/patch.diff" 2>/dev/null || patch -p1 -F 3 -s --no-backup-if-mismatch < "$OLDPWD/$d/patch.diff" >/dev/null 2>&1 ) ); then
    ( cd "$REPO" && git checkout -q -- . ; git clean -fdq src 2>/dev/null )
    echo "$s NOAPPLY" >> "$out.tmp"; continue
  fi
  found=""
  for c in $prop ${ALT[$s]}; do
    if timeout 2400 ./check $c 2>&1 | grep -q "^VIOLATION"; then found="$found $c"; break; fi
  done
  ( cd "$REPO" && git checkout -q -- . ; git clean -fdq src 2>/dev/null )
  echo "$s ${found:- MISSED}" >> "$out.tmp"
done
mv "$out.tmp" "$out"
