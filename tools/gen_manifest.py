#!/usr/bin/env python3
"""Writes /verif/MANIFEST.json from the table below (kept in one place so the manifest is always valid)."""
import json, os, subprocess
VERIF = os.path.dirname(os.path.dirname(os.path.abspath(__file__)))
ALL = ["C%02d" % i for i in range(1, 21)]

CHECKS = {
 "C11": dict(
    category="model_checking",
    text="ModelExpr.tla gives the denotational semantics of the expression language of cvxopt.modeling (length under the broadcasting rule, "
         "curvature by the documented composition rules, value), written from modeling.rst. TLC evaluates it on every generated expression "
         "tree and also checks that every term it classifies convex/concave/affine satisfies the midpoint inequality on the supplied "
         "assignments (so 'accepted as convex really is' is checked on the specification too). Seeded random trees (variables of lengths 1-3 "
         "occurring several times, scalar/row/matrix and dense/sparse coefficients, indexing with ints/slices/lists/index matrices, sum, max, "
         "min, abs, nested) are built with the real operators in crash-isolated children and compared with TLC's expectation: defined or "
         "refused, len(f), f.value() on 4 assignments (exact), acceptance as <=, >=, == constraint by curvature, and non-aliasing of +f.",
    design_ref="DESIGN.md section 4 C11",
    note="Integer data (values exact). Not generated yet: division by a scalar, in-place forms other than += on a copy, 1x1 sparse constants "
         "(their scalar status is not documented).",
    technique="TLA+ denotational semantics evaluated by TLC on harness-generated expression trees; differential replay into cvxopt.modeling"),
 "C12": dict(
    category="model_checking",
    text="ModelLP.tla (over ModelExpr.tla) gives the meaning of a problem (minimise Eval(obj) subject to Holds(c)), the linear program it denotes by "
         "the epigraph construction (formed by the specification, independently of modeling.py), the epigraph lemma (checked by TLC on grid points of "
         "every generated problem), the exact truth of that LP (optimal value as a rational / infeasible / unbounded) decided by TLC from rational "
         "certificates and bound to the problem's semantics on the grid, and the contract of op.solve per truth class. Every generated problem is built "
         "with the real operators and solved with format in {dense, sparse} x solver in {default, glpk} in a crash-isolated child; alpha abstracts each "
         "call (constraints at the returned values, objective.value() against p*, multiplier lengths and signs, multipliers as a dual solution through "
         "the exact minimum of the Lagrangian of the ORIGINAL piecewise-linear problem over a box, None conventions) and TLC judges, including "
         "agreement of the four combinations.",
    design_ref="DESIGN.md section 4 C12",
    note="Truth and p* are exact (rational certificates verified by TLC). The default solver's documented 'unknown' outcome is tolerated (bounded to 10% of "
         "the regular problems); rank-deficient LPs are judged with GLPK only. MOSEK is not installed. Sufficiency of the dual check is up to the box radius.",
    technique="TLA+ problem semantics and LP formation evaluated by TLC; exact certificates decided by TLC; differential replay into op.solve (4 format/solver combinations)"),
 "C13": dict(
    category="model_checking",
    text="OpEdit.tla models the op edit state machine (objective/addconstraint/delconstraint/queries/solve) over a pool of "
         "variables, constraints and objectives. TLC explores the whole reachable graph without a depth bound and checks that the "
         "bookkeeping mirrors the current problem; the graph is then bound to the real class in both directions: every transition "
         "(plus long random walks, so each abstract state is reached along many histories) is replayed on a real op and the full "
         "projected state compared after every step, and seeded random edit histories recorded from the real op are validated by TLC "
         "against OpEditTrace. Solve results are compared with an exact LP classification computed by TLC and with a freshly built op.",
    design_ref="DESIGN.md section 4 C13, section 10",
    note="Trusted: TLC; the projection (identity of variable/constraint objects returned by the public queries); the pool's LP "
         "classification is exact because all pool constraints are totally unimodular (grid search in TLC). Statuses of rank-deficient "
         "problems and of infeasible problems with a constants-only row are left unspecified (rounding dependent).",
    technique="TLA+ state machine, TLC exhaustive graph -> per-transition replay into cvxopt.modeling.op + TLC trace validation of recorded histories"),
 "C01": dict(
    category="model_checking",
    text="SolverContract.tla states which certificate must accompany status 'optimal' (residual, cone, gap, field and block clauses, "
         "iteration budget, and that the status follows from the stopping predicates of the last iteration); ConeLP.tla refines it and is "
         "model-checked. Planted cone LPs whose truth TLC verifies exactly (Planted.tla) are run through conelp/lp/socp/sdp over the "
         "configuration product (kktsolver x storage x start points x options x back-end); every call is recorded as a trace (KKT calls, "
         "iteration predicates from the guarded hook, result) and TLC evaluates the contract on every trace.",
    design_ref="DESIGN.md section 4 C01, 4.0",
    note="The truth of each numeric clause (residual <= feastol, cone membership, gap, field = recomputed value) is decided by the abstraction "
         "function harness/alpha.py in exact rational arithmetic from the caller's data, not by TLC; TLC decides which clauses are required when.",
    technique="TLA+ contract + faithful model (TLC); TLC-verified planted instances; TLC trace validation of recorded solver calls with exact-rational certificate abstraction"),
 "C02": dict(
    category="model_checking",
    text="Same machinery as C01 with the contract invariants PinfCert/DinfCert: an infeasibility status must come with the Farkas certificate "
         "clauses (other half None, cone membership, normalisation -1, residual <= feastol, reported residual/slack = recomputed) and must "
         "follow from the stopping predicates; exercised on planted infeasible, unbounded and solvable instances through conelp/lp/socp/sdp.",
    design_ref="DESIGN.md section 4 C02",
    note="Numeric clauses decided by harness/alpha.py. With solver='glpk' the documentation says no certificate is returned (all None): checked as such.",
    technique="TLA+ contract (TLC) + TLC trace validation with exact-rational certificate abstraction"),
 "C03": dict(
    category="model_checking",
    text="Contract invariants OptimalCert/OptimalDecision/IterBudget on traces of coneqp and qp over planted QPs (P = R'R of any rank, truth "
         "verified by TLC) x kktsolver x storage x initvals subset x options x junk above the diagonal of P; ConeQP.tla (incl. the cdim = 0 "
         "direct solve) refines the contract and is model-checked.",
    design_ref="DESIGN.md section 4 C03",
    note="Numeric clauses decided by harness/alpha.py with the documented QP formulas; P is read from its lower triangle only by the oracle.",
    technique="TLA+ contract + faithful model (TLC); TLC trace validation with exact-rational certificate abstraction"),
 "C04": dict(
    category="model_checking",
    text="Contract invariants OptimalCert (with x_in_domain) / OptimalDecision / IterBudget on traces of cpl, cp and gp; CPL.tla models the "
         "iteration, the domain backtracking and the non-monotone line search (relaxed_iters, saved state, restore-and-retry) and is "
         "model-checked against the contract. Function families (convex quadratics as objective or constraints, weighted log barrier with "
         "restricted domain refusing trial points as None or (None, None), log-sum-exp) are evaluated independently of the callbacks; cp on a "
         "quadratic objective is compared with coneqp, gp with cp driven by an independent LSE callback, and the lengths of znl/snl with the "
         "original (not the epigraph) problem.",
    design_ref="DESIGN.md section 4 C04",
    note="Numeric clauses decided by harness/alpha.py cpl_cert with the documented starting-point normalisers; log/exp function values use "
         "math.log/math.exp. For cp/gp the accuracy fields of the internal epigraph problem are only weakly comparable (t is not returned).",
    technique="TLA+ contract + faithful line-search model (TLC); TLC trace validation of recorded cpl/cp/gp calls with exact-rational certificate abstraction"),
 "C05": dict(
    category="model_checking",
    text="Planted.tla makes TLC the judge of truth: every instance used is verified in exact integer arithmetic to be strictly primal/dual "
         "feasible, or to have a strict Farkas certificate, or a strictly improving ray (rank conditions by minors). Each goes through every "
         "native entry point that fits with default settings; the classification invariants of SolverContract are evaluated by TLC on every "
         "trace and the objectives of all paths on one instance are compared.",
    design_ref="DESIGN.md section 4 C05",
    note="Convergence is observed, not derived. Corrupted plants are shown to be rejected by TLC on every run (anti-vacuity).",
    technique="TLC-verified planted instances + TLC trace validation against the classification contract"),
 "C06": dict(
    category="model_checking",
    text="Presentation.tla defines the row re-encodings (scalar inequality as 1-dimensional 'q' cone or order-1 's' cone, row permutation) as "
         "index maps; TLC proves for all tiny dims that each map is a bijection of the cells and preserves cone membership on a grid, and "
         "emits the maps the harness uses to build the second presentation, plus the table of KKT solver names per entry point. For every "
         "planted instance ~20 presentations (storage, each accepted KKT name, wrapper vs core entry, operator form with user KKT solver, start "
         "points, re-encodings, variable permutation, objective scaling, GLPK/DSDP, junk above the diagonal) are solved and SameResult.tla "
         "(memo state machine) is evaluated by TLC on one trace per problem; unsupported names must raise ValueError before any KKT call.",
    design_ref="DESIGN.md section 4 C06",
    note="'Same optimal value to solver tolerance' is abstracted as |obj1-obj2| <= 1e-5(1+|obj|) computed by the harness; uniqueness of x is not "
         "decided, solutions are compared through the optimal value.",
    technique="TLA+ index-map spec with TLC-proved theorems -> presentations built from TLC output; TLC memo-invariant over per-problem traces; name table replay"),
 "C07": dict(
    category="model_checking",
    text="(a) KktFactory.tla generates every history of Factor(W)/Solve(b) calls on one factory object up to a bound and states that a solve "
         "belongs to the latest factorisation; each history is replayed on the five built-in KKT solvers (dense/sparse, with/without the "
         "nonlinear block, H = R'R) on planted lattice systems (rational scalings with exact inverses, chosen solution, right-hand side "
         "computed exactly), and MC_Kkt.tla decides with TLC, in exact rational arithmetic and with ConeAlgebra's independent definition of W, "
         "whether every returned (rounded) solution satisfies the documented block system. (b) every scaling dictionary handed to the KKT "
         "solver during real conelp/coneqp/cpl solves is checked for the documented invariants and W z = W^-T s = lambda; the contract "
         "invariant ScalingInvariants is evaluated by TLC on every trace.",
    design_ref="DESIGN.md section 4 C07",
    note="(a) is exact on the lattice (the floats must round to the planted solution within 1e-8). (b) is decided by the abstraction function on "
         "non-lattice floats with tolerance 1e-10 relative to the norms of the factors. kktreg is not covered.",
    technique="TLA+ protocol model (TLC) generating histories + TLC exact-rational decision of the KKT block equation; TLC trace validation of scaling invariants"),
 "C08": dict(
    category="model_checking",
    text="ConeAlgebra.tla defines every kernel (scale, scale2, pack, pack2, unpack, sdot, snrm2, sgemv, trisc, triusc, symm, sprod, ssqr, sinv, "
         "max_step, jdot, jnrm2) from its mathematical definition in exact rational arithmetic (sqrt(2) weights symbolically). The harness "
         "enumerates argument cases (dims with empty and order-0/1 blocks, mnl, flags, offsets, two-column arguments, lattice data), TLC "
         "computes the expected result of every case and checks the algebraic identities on it (scale/inverse, adjointness, sinv o sprod, "
         "triusc o trisc ...), and both implementations - compiled misc_solvers and the in-tree Python fallbacks - are compared with it on "
         "canary-padded buffers (referenced cells equal, everything outside the addressed blocks untouched).",
    design_ref="DESIGN.md section 4 C08",
    note="TLC acts as exact oracle (constant-level evaluation, no state space); comparison tolerance 64 ulp of the data magnitude; only "
         "rational spectra for max_step (characterised as boundary point of the cone).",
    technique="TLA+ definitional spec evaluated by TLC on harness-enumerated cases; differential replay into both kernel implementations"),
 "C09": dict(
    category="model_checking",
    text="SolverAPI.tla is a state machine over the global options dictionary: SetGlobal edits it, Call(entry, per-call dict, uses per-call) "
         "must leave it unchanged and its outcome is specified (ValueError for an invalid effective value, otherwise the effective dictionary "
         "is in force, per-call taking precedence). TLC checks it exhaustively and the graph is replayed against the ten real entry points: "
         "exception class and timing (before any KKT call), option values in force (iteration hook), iterations <= maxiters, byte images of "
         "inputs and dictionaries, and bit-identical results per (entry, options in force) whatever the history. SolverThreads.tla explores "
         "all interleavings of two calls and a writer; its two assumptions about the code (options read before the first KKT call, no shared "
         "writes) are checked on the implementation, and threaded runs are compared bit for bit with sequential ones.",
    design_ref="DESIGN.md section 4 C09",
    note="Bit-identity is sha1 over repr() of every float of the result. Thread schedules of the real interpreter are sampled "
         "(setswitchinterval 1e-6, BLAS releases the GIL), all interleavings are explored only in the model.",
    technique="TLA+ state machine + interleaving model (TLC exhaustive) -> per-transition replay into the real entry points; threaded runs vs sequential"),
 "C10": dict(
    category="fault_enumeration",
    text="SolverContract.tla states the containment contract (a pending KKT failure ends in the documented ValueError during start-up, "
         "in 'unknown' with strictly interior, self-consistent iterates later, never in another exception or in 'optimal'); the faithful "
         "control models ConeLP/ConeQP/CPL.tla have one action per KKT factor/solve call and TLC checks the contract on them for every "
         "position of a failing call. The binding enumerates, for planted instances, every index of every factor and solve call of the "
         "fault-free run, injects ArithmeticError exactly there through the wrapped KKT factories, and TLC validates each recorded trace "
         "against the contract; the fault classes of model and implementation are compared.",
    design_ref="DESIGN.md section 4 C10, section 10",
    note="Faults are injected as ArithmeticError raised by the KKT factor/solve routines (the documented failure signal). Consistency of the "
         "'unknown' result is judged by harness/alpha.py (exact rational recomputation).",
    technique="TLA+ contract + faithful control models checked by TLC; exhaustive fault-position injection into the real solvers; TLC trace validation"),
 "C14": dict(
    category="model_checking",
    text="MPS.tla (over ModelLP.tla): Write (the records op.tofile must produce: labels by the documented naming rule, numbers to six significant digits, "
         "every column present), Read (the section machine of the fixed MPS format over the supported subset: N/L/G/E rows incl. free rows, RHS incl. the "
         "objective's, RANGES with every sign rule, bounds LO/UP/FX/FR/MI/PL with conflicts, first vector of each kind only, rows without variables) and the "
         "theorem RoundTrip, which TLC checks for every generated LP. (w) generated LPs are built with the real operators, written with op.tofile, the file "
         "is tokenized by an independent fixed-column tokenizer and TLC decides whether the ACTUAL file denotes the LP and what fromfile must build from it; "
         "op.fromfile of a fresh op is projected through the public API and compared; both problems are solved (status, optimal value of the linear part). "
         "(r) generated well-formed record sequences are rendered by the harness, read with op.fromfile and compared with Read(records); files the format "
         "does not define must be refused; non-LPs must be refused by tofile.",
    design_ref="DESIGN.md section 4 C14",
    note="Integer data (exact in the 12-character number fields). LPs with a row without variables are outside the round-trip statement (the reader drops such rows "
         "on purpose). The UP-with-negative-value quirk of some MPS dialects is not modelled.",
    technique="TLA+ writer/reader model evaluated by TLC on the actual file records; differential replay into op.tofile / op.fromfile"),
 "C15": dict(
    category="model_checking",
    text="DenseMatrix.tla is an executable reference model written from matrices.rst: a heap of matrix objects and an environment of names; "
         "constructors, one/two-argument indexing and indexed assignment (ints, negative ints, slices via Python's slice.indices, lists, "
         "integer matrices), + - * / % ** with type promotion and the number / 1x1 rules (division and remainder by zero, Python sign convention of "
         "the remainder, integer ** integer is real), in-place operators incl. /= and %= (allowed exactly when type and size are preserved), "
         "transposes, real/imag, abs, size reassignment, len/sum/bool/max/min/in/iteration, cvxopt.mul/div/max/min with two arguments, aliasing. "
         "Results outside the Gaussian integers are 'cut' (type and shape specified, values not compared, trace ends). TLC explores a box of operations for the design invariants "
         "(well-formedness, typecode stability, errors change nothing, regular results are fresh objects). Seeded random programs run on real "
         "cvxopt.matrix objects and TLC validates every step of every trace: result, every named object (typecode, size, all entries) and "
         "which names share an object.",
    design_ref="DESIGN.md section 4 C15",
    note="Integer-valued data (arithmetic exact); quotients are compared only for divisors that are powers of two (the implementation multiplies "
         "by the reciprocal), complex powers and non-square moduli not at all. Not modelled: exp/log/sqrt/sin/cos, buffer constructors "
         "(see C20), integers beyond 32 bits. Programs run in forked children (an interpreter crash is attributed to the shortest crashing prefix). Three clauses are marked CALIBRATED in the spec (empty left-hand sides, empty conversions).",
    technique="TLA+ executable reference model; TLC box exploration + TLC trace validation of random programs run on the real objects"),
 "C16": dict(
    category="model_checking",
    text="SparseCCS.tla (on top of DenseMatrix.tla) keeps, for every object, its dense image and its kind; every operation on sparse "
         "operands is the dense operation on the images plus the documented result kind (a 1 by 1 sparse matrix is not a scalar, in-place "
         "operations must keep typecode and kind). The compressed-column arrays are observed, not modelled: seeded random programs mixing "
         "spmatrix and matrix objects run in forked children (an interpreter crash is an observation) and TLC checks at every step that every "
         "sparse object is a valid CCS structure (pointers, strictly increasing in-range row indices, consistent lengths), that it densifies "
         "to the model's image, the kind, identity relations, and the pinned patterns (triplet construction with duplicates summed, entry "
         "count kept by unary and scalar operations). The mixed sparse/dense products base.gemv / symv / gemm / syrk / axpy (every combination of "
         "sparse and dense operands, partial=True, all flags, scalars, offsets and sub-blocks for gemv/symv, zero dimensions, mismatching shapes) are "
         "specified in Blas.tla (SPGEMV, SPSYMV, SPGEMM, SPSYRK, SPAXPY) on dense images: random calls run in crash-isolated children, TLC evaluates "
         "Run(call), and the accept/reject decision, every cell of every operand, the sparsity pattern (inputs unchanged; output unchanged under "
         "partial=True) and the validity of the resulting CCS structure are compared.",
    design_ref="DESIGN.md section 4 C16 and II.4",
    note="Integer-valued data. V assignment and size change are not in the program generator. base.gemv/symv with a sparse A and a block that wraps "
         "around the rows of A (outside the documented requirement) are 'unspecified'; for base.syrk with a sparse C and partial=False only the uplo "
         "triangle is compared. Calibrated clauses are marked in the spec.",
    technique="TLA+ reference model over dense images; TLC trace validation (CCSValid + dense image at every step) of random programs run in crash-isolated children"),
 "C17": dict(
    category="model_checking",
    text="Blas.tla specifies all 34 routines of cvxopt.blas from their docstrings: defaults of n/m/k/ld*, accept/reject (typecodes, flags, increments, "
         "offsets, leading dimensions, footprint of every vector / general / band / symmetric / Hermitian / triangular view against the buffer length), "
         "early returns, and the reference result on the addressed views (Gaussian integers, conjugation, unit-diagonal triangular solves), everything "
         "else unchanged. Seeded random calls of every routine (dimensions 0..3 and omitted forms, increments +-1..3 and 0, offsets, leading dimensions "
         "around the minimum, all flags, real/complex scalars, conflicting typecodes, buffers at / beyond / one short of the footprint) run on real "
         "matrices in crash-isolated children; TLC evaluates Run(call); the exception decision, the returned number and EVERY cell of EVERY argument "
         "(slack cells are canaries, inputs must be unchanged) are compared.",
    design_ref="DESIGN.md section 4 C17",
    note="Exact lattice data only (rounding on general reals is the BLAS library's, outside the repository). Calls that address nothing but carry another "
         "invalid argument are 'either' (only 'unchanged' is required). Values near 2^31 belong to C19.",
    technique="TLA+ reference semantics and accept/reject tables evaluated by TLC on generated calls; differential replay into cvxopt.blas"),
 "C18": dict(
    category="model_checking",
    text="Lapack.tla: planted instances whose truth is DECIDED by TLC in exact Gaussian-integer arithmetic from a certificate (nonsingular: A = LU / LDL^T / "
         "LDL^H; positive definite: A = R^H R; exactly singular: zero column with its null vector; not positive definite: witness v with v^H A v < 0; "
         "triangular; each with its band structure) and the contract of the wrappers per kind of call. For every accepted instance the real wrappers are "
         "called in crash-isolated children: gesv/getrf/getrs/getri, gbsv/gbtrf/gbtrs, gtsv/gttrf/gttrs, posv/potrf/potrs/potri, pbsv/pbtrf/pbtrs, "
         "ptsv/pttrf/pttrs, sysv/hesv/sytrf/hetrf/sytrs/hetrs/sytri/hetri, trtrs/trtri/tbtrs (with and without ipiv, every trans/uplo, d and z, orders 0-4, "
         "0-3 right-hand sides, natural matrices and padded buffers with offsets whose padding cells are canaries), inconsistent-argument variants, and on "
         "free matrices geqrf/ormqr/unmqr/orgqr/ungqr, gelqf/ormlq/unmlq/orglq/unglq, geqp3, gels (against the exact rational solution), "
         "syev/heev/syevd/heevd/syevr/heevr/syevx/heevx (ranges A and I), gesvd/gesdd (jobs A, S, N), gees. alpha abstracts each call into the contract's "
         "booleans (solution = planted X to 1e-9, inputs unchanged, factor-solve = driver, inverse, reconstruction, orthonormality, ordering, outside "
         "untouched) and TLC judges.",
    design_ref="DESIGN.md section 4 C18",
    note="Residual / orthogonality predicates are floating point (alpha); truth and contract are exact. sygv/hegv, gges, select functions of gees, lacpy, larfg, "
         "larfx and range 'V' are not exercised. A driver with no right-hand side need not notice singularity.",
    technique="TLA+ truth of planted instances and wrapper contract evaluated by TLC; differential replay into cvxopt.lapack with an abstraction function"),
 "C19": dict(
    category="model_checking",
    text="All runs use a GUARD build of base, blas, lapack and misc_solvers (build/guard_alloc.h: every block ends exactly at an inaccessible page and is "
         "preceded by one; freed blocks become inaccessible), in crash-isolated forks, so an access outside a matrix or after its release kills one "
         "attributable child. (1) accept/reject = footprint: the calls of C17's generator and the same calls with integer arguments replaced by values near "
         "2^31, 2^30, 2^16, 46341 and their negatives (and integers that do not fit a C int) are executed; TLC evaluates Blas.tla (MC_BlasClamp: arguments "
         "beyond 10^4 clamped - the buffers have < 10^3 cells) and the decision and the unchanged buffers are compared: a call accepted although its "
         "footprint exceeds a buffer is a violation even if no guard page was hit. (2) the interpreter survives: the generators of C15 (dense programs), "
         "C16 (sparse programs), C18 (LAPACK instances and free matrices) and C20 (buffer imports), LAPACK calls with huge integer arguments, and "
         "constructors / indexing / slicing / sparse products / reshapes with huge integers, and the base.gemv/symv/gemm/syrk/axpy call generator of C16 "
         "(sparse and dense operands, exact guard: no slack retry; an invalid CCS structure after a call is a violation). (3) every call raises a Python exception or returns.",
    design_ref="DESIGN.md section 4 C19",
    note="Only blocks allocated by the rebuilt modules are guarded. OPENBLAS_CORETYPE=Prescott and a 64-byte-slack retry keep the deliberate over-reads of "
         "the external OpenBLAS kernels from being reported (over-reads of <= 64 bytes are therefore left to the exact comparisons of C15-C18). The contents "
         "of a pivot vector are not 'arguments of the documented kind'. An 8 GB address-space limit turns huge allocations into MemoryError.",
    technique="TLA+ footprint model (Blas.tla) evaluated by TLC against a guard-page build; crash-isolated replay of the generators of C15-C18 and C20 with boundary and near-2^31 values"),
 "C20": dict(
    category="model_checking",
    text="BufferProtocol.tla: names bound to matrix objects, objects owning storage, views (exported buffers) that keep their source alive; actions New / "
         "Alias / CopyOf / Export / WriteMat / WriteView / IOp / Reshape / Release / Drop. TLC checks ValidWhileHeld, NoLeakNoDangling, CopyIsFresh and "
         "WriteFrame on the full state graph of five template families (dense i/d/z incl. 0xn and nx0, sparse d/z incl. explicit zeros and empty patterns) "
         "and dumps the graphs; EVERY edge is replayed on real objects (path from the initial state, then the edge) and the complete abstract state is "
         "compared: kind, typecode, size, values, compressed-column structure, object identity between names, and the contents seen through every live "
         "view (memoryview and numpy.asarray) in the shape it was exported with - also after the last name of the source was deleted. A CopyOf edge executes "
         "every concrete copy-like operation (+m, m[:, :], copy.copy, copy.deepcopy, pickle protocols 0-5, matrix(m), matrix(memoryview(m)), "
         "matrix(numpy.asarray(m)), tofile/fromfile through a real file and io.BytesIO, spmatrix(V, I, J)) and checks independence by mutation. "
         "MC_BufferImport.tla gives the matrix that matrix(obj[, tc]) must build from a buffer (formats i/l/d/Zd x requested typecode, 1-2 dimensions, "
         "C/Fortran/stepped/negative strides, refusals) and is evaluated by TLC on generated numpy/array/memoryview sources.",
    design_ref="DESIGN.md section 4 C20",
    note="The export counter ob_exports is not observable from Python; it is bound through behaviour (storage valid and shared while a view lives). "
         "Sparse writes go to stored entries only (pattern changes are C16).",
    technique="TLA+ state machine model-checked by TLC, full edge cover of the dumped state graph replayed into the implementation; TLC-evaluated import table"),
}

NOT_YET = "check not built yet in this round (design in DESIGN.md section 4); not claimed"


def main():
    checks = []
    for pid in ALL:
        if pid not in CHECKS:
            continue
        c = CHECKS[pid]
        checks.append({
            "property_id": pid,
            "quick_cmd": "./check %s --tier quick" % pid,
            "thorough_cmd": "./check %s --tier thorough" % pid,
            "evidence_file": "/verif/evidence/%s.json" % pid,
            "replay_cmd_template": "./check %s --replay {path}" % pid,
            "engine": "tlc+harness",
            "level_claimed": {"category": c["category"], "text": c["text"], "design_ref": c["design_ref"]},
            "level_note": c["note"],
            "technique": c["technique"],
        })
    try:
        commits = subprocess.check_output(["git", "-C", "/repo", "log", "--format=%h %s", "96b452b..HEAD"], text=True).splitlines()
    except Exception:
        commits = []
    hook_commits = [l.split()[0] for l in commits if l.split(" ", 1)[1].startswith("verif-hook:")]
    m = {
        "version": 1,
        "setup_cmd": "./setup.sh",
        "hooks": {
            "guard": "CVXOPT_VERIF",
            "enable": "checks build an overlay package from /repo's working tree (harness/build.py: python sources copied, base/blas/lapack/"
                      "misc_solvers compiled with gcc, optional modules symlinked from the wheel) and run it with CVXOPT_VERIF=1",
            "baseline_off_cmd": "cd /repo && env -u CVXOPT_VERIF OPENBLAS_NUM_THREADS=1 PYTHONPATH=$(/venv/bin/python /verif/harness/build.py) "
                                "/venv/bin/python -m pytest -ra -q -p no:cacheprovider --timeout=900 --continue-on-collection-errors",
            "source_commits": hook_commits,
            "add_only": True,
        },
        "engines": [{"name": "tlc+harness", "path": "/verif/check", "serves_properties": sorted(CHECKS),
                     "kind_free_text": "explicit TLA+ specifications (specs/*.tla) checked by TLC 1.8; TLC-generated behaviours replayed into the "
                                       "implementation built from /repo; implementation traces validated by TLC against trace specifications"}],
        "checks": checks,
        "notes": "All checks rebuild cvxopt from /repo's working tree (harness/build.py, keyed by a hash of src/). "
                 "known_findings.json lists genuine defects (open -> KNOWN-FINDING line; fixed -> documentation only).",
        "not_applicable": [{"property_id": p, "reason": NOT_YET} for p in ALL if p not in CHECKS],
    }
    with open(os.path.join(VERIF, "MANIFEST.json"), "w") as fh:
        json.dump(m, fh, indent=1)
    print("MANIFEST.json: %d checks, %d not claimed" % (len(checks), len(m["not_applicable"])))


if __name__ == "__main__":
    main()
