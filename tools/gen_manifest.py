#!/usr/bin/env python3
"""Writes /verif/MANIFEST.json from the table below (kept in one place so the manifest is always valid)."""
import json, os, subprocess
VERIF = os.path.dirname(os.path.dirname(os.path.abspath(__file__)))
ALL = ["C%02d" % i for i in range(1, 21)]

CHECKS = {
 "C13": dict(
    category="model_checking",
    text="OpEdit.tla models the op edit state machine (objective/addconstraint/delconstraint/queries/solve) over a pool of "
         "variables, constraints and objectives. TLC explores the whole reachable graph without a depth bound and checks that the "
         "bookkeeping mirrors the current problem; the graph is then bound to the real class in both directions: every transition "
         "(plus long random walks, so each abstract state is reached along many histories) is replayed on a real op and the full "
         "projected state compared after every step, and seeded random edit histories recorded from the real op are validated by TLC "
         "against OpEditTrace. Solve results are compared with an exact LP classification computed by TLC and with a freshly built op.",
    design_ref="DESIGN.md section 4 C13, section 10",
    note="Trusted: TLC; the projection (identity of variable/constraint objects returned by the public queries); the pool's LP "
         "classification is exact because all pool constraints are totally unimodular (grid search in TLC). Statuses of rank-deficient "
         "problems and of infeasible problems with a constants-only row are left unspecified (rounding dependent).",
    technique="TLA+ state machine, TLC exhaustive graph -> per-transition replay into cvxopt.modeling.op + TLC trace validation of recorded histories"),
 "C10": dict(
    category="fault_enumeration",
    text="SolverContract.tla states the containment contract (a pending KKT failure ends in the documented ValueError during start-up, "
         "in 'unknown' with strictly interior, self-consistent iterates later, never in another exception or in 'optimal'); the faithful "
         "control models ConeLP/ConeQP/CPL.tla have one action per KKT factor/solve call and TLC checks the contract on them for every "
         "position of a failing call. The binding enumerates, for planted instances, every index of every factor and solve call of the "
         "fault-free run, injects ArithmeticError exactly there through the wrapped KKT factories, and TLC validates each recorded trace "
         "against the contract; the fault classes of model and implementation are compared.",
    design_ref="DESIGN.md section 4 C10, section 10",
    note="Faults are injected as ArithmeticError raised by the KKT factor/solve routines (the documented failure signal). Consistency of the "
         "'unknown' result is judged by harness/alpha.py (exact rational recomputation).",
    technique="TLA+ contract + faithful control models checked by TLC; exhaustive fault-position injection into the real solvers; TLC trace validation"),
}

NOT_YET = "check not built yet in this round (design in DESIGN.md section 4); not claimed"


def main():
    checks = []
    for pid in ALL:
        if pid not in CHECKS:
            continue
        c = CHECKS[pid]
        checks.append({
            "property_id": pid,
            "quick_cmd": "./check %s --tier quick" % pid,
            "thorough_cmd": "./check %s --tier thorough" % pid,
            "evidence_file": "/verif/evidence/%s.json" % pid,
            "replay_cmd_template": "./check %s --replay {path}" % pid,
            "engine": "tlc+harness",
            "level_claimed": {"category": c["category"], "text": c["text"], "design_ref": c["design_ref"]},
            "level_note": c["note"],
            "technique": c["technique"],
        })
    try:
        commits = subprocess.check_output(["git", "-C", "/repo", "log", "--format=%h %s", "96b452b..HEAD"], text=True).splitlines()
    except Exception:
        commits = []
    hook_commits = [l.split()[0] for l in commits if l.split(" ", 1)[1].startswith("verif-hook:")]
    m = {
        "version": 1,
        "setup_cmd": "./setup.sh",
        "hooks": {
            "guard": "CVXOPT_VERIF",
            "enable": "checks build an overlay package from /repo's working tree (harness/build.py: python sources copied, base/blas/lapack/"
                      "misc_solvers compiled with gcc, optional modules symlinked from the wheel) and run it with CVXOPT_VERIF=1",
            "baseline_off_cmd": "cd /repo && env -u CVXOPT_VERIF OPENBLAS_NUM_THREADS=1 PYTHONPATH=$(/venv/bin/python /verif/harness/build.py) "
                                "/venv/bin/python -m pytest -ra -q -p no:cacheprovider --timeout=900 --continue-on-collection-errors",
            "source_commits": hook_commits,
            "add_only": True,
        },
        "engines": [{"name": "tlc+harness", "path": "/verif/check", "serves_properties": sorted(CHECKS),
                     "kind_free_text": "explicit TLA+ specifications (specs/*.tla) checked by TLC 1.8; TLC-generated behaviours replayed into the "
                                       "implementation built from /repo; implementation traces validated by TLC against trace specifications"}],
        "checks": checks,
        "notes": "All checks rebuild cvxopt from /repo's working tree (harness/build.py, keyed by a hash of src/). "
                 "known_findings.json lists genuine defects (open -> KNOWN-FINDING line; fixed -> documentation only).",
        "not_applicable": [{"property_id": p, "reason": NOT_YET} for p in ALL if p not in CHECKS],
    }
    with open(os.path.join(VERIF, "MANIFEST.json"), "w") as fh:
        json.dump(m, fh, indent=1)
    print("MANIFEST.json: %d checks, %d not claimed" % (len(checks), len(m["not_applicable"])))


if __name__ == "__main__":
    main()
