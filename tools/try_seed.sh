#!/bin/bash
# usage: tools/try_seed.sh <patch.diff> <ID> [tier]   - apply a seeded change to /repo, run the check, undo
set -u
patch=$1; id=$2; tier=${3:-quick}
cd /repo || exit 2
if ! git diff --quiet; then echo "repo dirty"; exit 2; fi
git apply "$patch" 2>/dev/null || patch -p1 -F 3 -s --no-backup-if-mismatch < "$patch" || { git checkout -- .; echo "patch does not apply"; exit 2; }
cd /verif
./check "$id" --tier "$tier" 2>&1 | grep -E "VIOLATION|KNOWN-FINDING|OK|MACHINERY|machinery" | cut -c1-300 | head -12
rc=${PIPESTATUS[0]}
git -C /repo checkout -- .
echo "exit=$rc"
