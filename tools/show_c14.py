"""print the case of a C14 replay file (debug aid; no cvxopt needed)"""
import json, sys
r = json.load(open(sys.argv[1]))
d = r.get("detail", r); c = d["case"]
def show(t):
    op = t["op"]
    if op == "var": return t["v"]
    if op == "const": return ("sp" if t.get("form") == "sparse" else "") + str(t["c"] if len(t["c"]) > 1 else t["c"][0])
    if op == "neg": return "-(%s)" % show(t["a"])
    if op in ("add", "sub"): return "(%s %s %s)" % (show(t["a"]), "+" if op == "add" else "-", show(t["b"]))
    if op == "smul": return "%s*%s" % (t["k"], show(t["a"]))
    if op == "mmul": return "%s%s*%s" % ("sp" if t.get("sparse") else "", t["M"], show(t["a"]))
    if op == "idx": return "%s[%s]" % (show(t["a"]), {k: v for k, v in t["ix"].items() if k != "t"})
    if op in ("max", "min"): return "%s(%s)" % (op, ", ".join(show(a) for a in t["args"]))
    return "%s(%s)" % (op, show(t["a"]))
if c["kind"] == "w":
    P = c["P"]
    print(P["sz"], P["vnames"], P["cnames"], c["obs"].get("vord"))
    print("min", show(P["obj"]))
    for cc in P["cons"]:
        print("  ", show(cc["a"]), cc["rel"], show(cc["b"]))
print(c["obs"].get("text", ""))
print({k: v for k, v in c["obs"].items() if k != "text"})
def S(x): return "".join(chr(a) for a in x)
e = d.get("expected_read")
if e and not e.get("err"):
    print("expected obj", [(S(a), b) for a, b in e["obj"]["co"]], e["obj"]["k"])
    for key in ("ineqs", "eqs"):
        for row in e[key]:
            print("expected", key, [(S(a), b) for a, b in row["co"]], row["k"])
else:
    print("expected", e)
