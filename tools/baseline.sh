#!/bin/bash
# runs the repository's test suite on the overlay build of /repo with the verification guard OFF; prints counts from junit
P=$(python3 /verif/harness/build.py) || exit 2
J=$(mktemp /tmp/junit.XXXXXX.xml)
cd "${VERIF_REPO:-/repo}" && env -u CVXOPT_VERIF OPENBLAS_NUM_THREADS=1 PYTHONPATH=$P /venv/bin/python -m pytest -q -p no:cacheprovider --timeout=900 --junitxml=$J >/dev/null 2>&1
python3 - "$J" <<'PY'
import sys, xml.etree.ElementTree as E
r = E.parse(sys.argv[1]).getroot(); s = r if r.tag == 'testsuite' else r[0]
a = s.attrib
t, f, e, k = int(a['tests']), int(a['failures']), int(a['errors']), int(a['skipped'])
print("baseline: passed=%d failed=%d errors=%d skipped=%d" % (t - f - e - k, f, e, k))
for c in s.iter('testcase'):
    if c.find('failure') is not None or c.find('error') is not None:
        print("  FAILED", c.attrib.get('classname'), c.attrib.get('name'))
sys.exit(0 if f == 0 and e == 0 else 1)
PY
rc=$?; rm -f $J; exit $rc
