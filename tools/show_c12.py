"""rebuild the problem of a C12 replay file with the real operators and print what op.solve does (debug aid)"""
import json, sys, traceback
from harness.checks import c12, c11
import cvxopt.modeling as m
from cvxopt import solvers, matrix
solvers.options["show_progress"] = False
solvers.options["glpk"] = {"msg_lev": "GLP_MSG_OFF"}
r = json.load(open(sys.argv[1]))
d = r.get("detail", r)
P = d["problem"]
def show(t):
    op = t["op"]
    if op == "var": return t["v"]
    if op == "const": return ("sp" if t.get("form") == "sparse" else "") + str(t["c"] if len(t["c"]) > 1 else t["c"][0])
    if op == "neg": return "-(%s)" % show(t["a"])
    if op in ("add", "sub"): return "(%s %s %s)" % (show(t["a"]), "+" if op == "add" else "-", show(t["b"]))
    if op == "smul": return "%s*%s" % (t["k"], show(t["a"]))
    if op == "mmul": return "%s%s*%s" % ("sp" if t.get("sparse") else "", t["M"], show(t["a"]))
    if op == "idx": return "%s[%s]" % (show(t["a"]), {k: v for k, v in t["ix"].items() if k != "t"})
    if op in ("max", "min"): return "%s(%s)" % (op, ", ".join(show(a) for a in t["args"]))
    return "%s(%s)" % (op, show(t["a"]))
print("sizes", P["sz"])
print("minimize", show(P["obj"]))
for c in P["cons"]:
    print("   ", show(c["a"]), c["rel"], show(c["b"]))
print("truth", d.get("truth"), "pstar", d.get("pstar"))
for fmt, solver in c12.COMBOS:
    V = {v: m.variable(s, v) for v, s in P["sz"].items()}
    obj = c11.build(P["obj"], V)
    cons = []
    for c in P["cons"]:
        a, b = c11.build(c["a"], V), c11.build(c["b"], V)
        cons.append((a <= b) if c["rel"] == "<=" else (a >= b) if c["rel"] == ">=" else (a == b))
    prob = m.op(obj, cons)
    try:
        prob.solve(fmt, solver)
        print(fmt, solver, prob.status, None if prob.objective.value() is None else list(prob.objective.value()),
              {v: (None if V[v].value is None else [round(a, 6) for a in V[v].value]) for v in V},
              [None if c.multiplier.value is None else [round(a, 6) for a in c.multiplier.value] for c in cons])
    except Exception:
        print(fmt, solver); traceback.print_exc(limit=4)
